"""C15 - finite burns thrust for exactly their configured interval.

spec/Kinematics.tla (Mode = "steps") models the scenario loop around the propagation driver:
deliver / prune the agent's event queue, _prepEvents, the solve_ivp restart loop with the
start and end roots of the burn, thrust on/off.  TLC enumerates every (t_start, t_end, Dt,
NSteps, law, kind) on a tick grid, proves ThrustExactlyInterval / DeliveredDv /
ExactAtBoundaries for the as-designed driver, refutes them for the as-coded deviations
(EndNeedsLanding = defect D10, EndMasksStart = D10b) and prints one behaviour per instance
with the exact state after every step.  Every behaviour is replayed into the real code
(spec -> impl):

(a) EXACT   real TargetAgent + real PropagateRegistration.generateSubmission (which calls the
            real Agent.prunePropagateEvents) + real Celestial.propagate with real
            ScheduledFiniteBurn / ScheduledFiniteManeuver events, dynamics = `ExactLaw`
            (constant acceleration + self.finite_thrust); position and velocity after every
            step must equal the spec's integers (1e-9 relative).
(b) PRIMARY real SpecialPerturbations through a real Scenario (public config `events`),
            LEO / MEO / GEO targets; the truth state after every step must equal a TWIN
            integration (same dynamics object and integrator, driven by scipy directly) in
            which the driver switches its OWN thrust function on exactly during the spec's
            on-interval, restarting at the switch times.
(a) and (b) are counted separately in the evidence (`exact`, `primary`).
"""
from __future__ import annotations

import copy
import math
import random
import signal
from contextlib import contextmanager
from datetime import datetime, timedelta
from functools import partial

import numpy as np

from .. import tlc
from ..core import Ctx
from . import _kinematics as K

LEVEL = "model_checking"

ALPHA = 1.0e-4                      # km/s^2 per spec acceleration unit (exact law)
TAUS = (1.0, 2.5, 10.0, 60.0, 7.0)  # seconds per tick (exact law)
TICKS_B = (10, 15, 20, 30, 60)      # seconds per tick (scenario)
TOL_R, TOL_V = 2.0e-6, 2.0e-8       # km (+ TOL_V * elapsed seconds), km/s (see assumptions)
ACC_B = 2.0e-6                      # km/s^2, size of the configured thrust in (b)
INV15 = ("ThrustExactlyInterval", "DeliveredDv", "ExactAtBoundaries", "Semigroup", "StepwiseEqualsRun", "QueueClean",
         "ImpulseNeverLost")


class Hang(Exception):
    pass


@contextmanager
def guard(seconds: float):
    """The real code must return; a propagation that never terminates becomes a violation, not a hung check."""
    def _raise(*_):
        raise Hang()
    old = signal.signal(signal.SIGALRM, _raise)
    signal.setitimer(signal.ITIMER_REAL, seconds)
    try:
        yield
    finally:
        signal.setitimer(signal.ITIMER_REAL, 0)
        signal.signal(signal.SIGALRM, old)


def spec_cfg(ctx: Ctx) -> dict:
    if ctx.quick:
        return dict(Horizon=12, StepLens="{1, 2, 3, 4, 6}", MaxSteps=4, Laws="LawsQuick")
    return dict(Horizon=16, StepLens="{1, 2, 3, 4, 5, 8}", MaxSteps=5, Laws="LawsThorough")


def category(b) -> tuple:
    """(start on a step boundary, end on a step boundary, number of boundaries inside the burn capped at 2)."""
    dt, ts, te = b["dt"], b["burn"]["ts"], b["burn"]["te"]
    return (ts % dt == 0, te % dt == 0, min((te - 1) // dt - ts // dt, 2))


# ------------------------------------------------------------------ (a) exact law
def real_agent():
    from .. import scenario_util as su
    cfg = su.base_config(n_targets=1, n_sensors=1, truth_only=True, model="two_body")
    cfg["propagation"]["station_keeping"] = False
    app = su.build(cfg)
    return next(iter(app.target_agents.values()))


def exact_one(agent, b, method: str, tau: float, rng: random.Random, patience: float = 20.0, variant: str = ""):
    """Replay one behaviour; returns (None | (signature, what, detail), max relative velocity error, steps).

    variant (same spec numbers must come out, the thrust history is the same):
      "impulse"  a real scheduled ECI impulse with ZERO delta-v fires half a tick after the burn starts
                 (another terminal event in the middle of the burn must not touch the thrust);
      "split"    the burn is configured as two back-to-back burns [ts, m) + [m, te) of the same acceleration,
                 A queued before B; "split-rev": B queued before A.
    A behaviour with a companion impulse (b["imp"], posed by the spec: possibly AT the burn's start or end, listed before
    or after the burn) is replayed with a real ScheduledECIImpulse of that delta-v in that queue order.
    """
    from resonaate.dynamics.integration_events.scheduled_impulse import ScheduledECIImpulse
    from resonaate.parallel.agent_propagation import PropagateRegistration, PropagateResult
    from resonaate.physics.time.stardate import ScenarioTime
    v0, g, a = b["law"]
    burn, dt = b["burn"], b["dt"]
    parts = [(burn["ts"], burn["te"], 1)]
    if variant in ("split", "split-rev"):
        mid = (burn["ts"] + burn["te"]) // 2
        parts = [(burn["ts"], mid, 1), (mid, burn["te"], 1)][::-1 if variant == "split-rev" else 1]
    two = b.get("two")          # two burns of one satellite whose intervals overlap or coincide (see two_burn_behaviours)
    if two:
        parts = [tuple(q) for q in two["parts"]]
    imp_tick = burn["ts"] + 0.5
    cimp = b.get("imp") if b.get("imp", {}).get("at", 0) > 0 else None
    emb = K.Embed(rng, tau, ALPHA)
    agent._dynamics = K.ExactLaw(g * ALPHA * emb.u, method=method)
    agent._time = ScenarioTime(0.0)
    agent._dt_step = ScenarioTime(dt * tau)
    agent._station_keeping = []
    agent.propagate_event_queue = []
    agent.eci_state = emb.state(b["X0"][0])
    worst = 0.0
    for k, call in enumerate(b["hist"]):
        lb, ub = call["times"]
        # Scenario.stepForward: the active burn is handled (appended) again at every step (spec action Deliver)
        if cimp and cimp["first"] and lb < cimp["at"] <= ub:     # listed before the burn in the configuration
            agent.appendPropagateEvent(ScheduledECIImpulse(ScenarioTime(cimp["at"] * tau), cimp["dv"] * emb.vu * emb.u, agent.simulation_id))
        for p_ts, p_te, mult in parts:
            if burn["kind"] != "none" and p_ts <= ub and p_te > lb:
                agent.appendPropagateEvent(emb.thrust_event(burn["kind"], a * mult, p_ts * tau, p_te * tau, agent.simulation_id))
        if cimp and not cimp["first"] and lb < cimp["at"] <= ub:
            agent.appendPropagateEvent(ScheduledECIImpulse(ScenarioTime(cimp["at"] * tau), cimp["dv"] * emb.vu * emb.u, agent.simulation_id))
        if variant == "impulse" and lb < imp_tick <= ub:       # an impulse is handled once, in the step that contains it
            agent.appendPropagateEvent(ScheduledECIImpulse(ScenarioTime(imp_tick * tau), np.zeros(3), agent.simulation_id))
        reg = PropagateRegistration(agent)
        try:
            with guard(patience):
                sub = reg.generateSubmission()      # real prunePropagateEvents inside
                new = sub.dynamics.propagate(sub.init_time, sub.final_time, sub.init_eci,
                                             station_keeping=sub.station_keeping,
                                             scheduled_events=sub.scheduled_events, error_flags=sub.error_flags)
        except Hang:
            sig = "exact-law:burn-at-scenario-start-never-terminates" if burn["ts"] == 0 and k == 0 else \
                "exact-law:propagate-does-not-terminate"
            return (sig, f"Celestial.propagate did not return within {patience:g} s (step {k + 1}, {burn['kind']} burn "
                    f"[{burn['ts']},{burn['te']}) ticks of {tau} s)", {"step": k}), worst, k
        reg.processResults(PropagateResult(agent_id=sub.agent_id, final_time=sub.final_time, prev_state=sub.init_eci,
                                           final_eci=new))
        want_p2, want_v = call["outs"][0][0]
        p2, vv, off = emb.project(agent.eci_state)
        worst = max(worst, abs(vv - want_v) / max(1, abs(want_v)))
        if abs(float(agent.time) - ub * tau) > 1e-9:
            return ("exact-law:agent-time", f"agent time {float(agent.time)} after step {k}, expected {ub * tau}", {"step": k}), worst, k
        if off > 1e-6:
            return ("exact-law:thrust-direction", f"state left the line of motion by {off:.3g} spec units at step {k} "
                    f"(kind {burn['kind']})", {"step": k, "off": off}), worst, k
        if cimp and not K.close(vv, want_v):
            where = "start" if cimp["at"] == burn["ts"] else "end" if cimp["at"] == burn["te"] else "apart"
            miss = vv - want_v
            what = "impulse-not-applied" if cimp["dv"] and abs(miss + cimp["dv"]) < 1e-6 else \
                ("thrust-lost" if miss * a < 0 else "thrust-overrun")
            order = "impulse queued before the burn" if cimp["first"] else "burn queued before the impulse"
            return (f"exact-law:impulse-at-burn-{where}:{what}",
                    f"{burn['kind']} burn [{burn['ts']},{burn['te']}) ticks, Dt={dt}, impulse of {cimp['dv']} at tick {cimp['at']} "
                    f"({order}): velocity {vv:.9f} after step {k + 1}, spec says {want_v} (difference {miss / a:+.6f} ticks of thrust)",
                    {"step": k, "velocity": vv, "spec": want_v}), worst, k
        if two and not K.close(vv, want_v):
            return (f"exact-law:{two['name']}:thrust-differs-from-the-sum-of-the-burns",
                    f"{burn['kind']} burns {[f'[{q[0]},{q[1]}) x{q[2]}' for q in parts]} ticks of one satellite, Dt={dt}: velocity "
                    f"{vv:.9f} after step {k + 1}, the sum of the two burns' effects gives {want_v} "
                    f"({(vv - want_v) / a:+.6f} ticks of unit thrust)", {"step": k, "velocity": vv, "spec": want_v}), worst, k
        if not K.close(vv, want_v):
            on_obs = (vv - (v0 + g * ub)) / a          # observed thrust time (ticks) so far
            on_want = (want_v - (v0 + g * ub)) / a
            end_of_step = min(-(-burn["te"] // dt) * dt, ub)
            if burn["te"] % dt != 0 and abs(on_obs - (end_of_step - min(burn["ts"], end_of_step))) < 1e-6:
                sig = "exact-law:burn-end-not-detected-inside-step"          # D10
            elif burn["te"] == ub and burn["ts"] > lb and abs(on_obs - (on_want - (burn["te"] - burn["ts"]))) < 1e-6:
                sig = "exact-law:burn-inside-last-integrator-step-skipped"   # D10b
            else:
                sig = "exact-law:thrust-interval-mismatch"
            return (sig, f"{burn['kind']} burn [{burn['ts']},{burn['te']}) ticks, Dt={dt}: thrust was on for "
                    f"{on_obs:.6f} ticks after step {k + 1}, spec says {on_want:.0f} (velocity {vv:.9f} vs {want_v})",
                    {"step": k, "on_observed": on_obs, "on_spec": on_want}), worst, k
        if abs(p2 - want_p2) > max(1e-9 * max(1.0, abs(want_p2)), 8 * np.spacing(emb.R0 + abs(want_p2) * emb.pu) / emb.pu):
            return ("exact-law:position-mismatch", f"2*position {p2:.9f} vs spec {want_p2} after step {k + 1}",
                    {"step": k}), worst, k
    return None, worst, len(b["hist"])


def exact_replay(ctx: Ctx, behs, rng: random.Random, patience: float = 20.0, stop_at_first: bool = False,
                 variant: str = "") -> dict:
    agent = real_agent()
    stats = {"behaviours": 0, "steps": 0, "violations": 0, "max_rel_err": 0.0, "by_signature": {}}
    pre = f"exact-law:{variant}:" if variant else ""
    hangs = 0
    for i, b in enumerate(behs):
        methods = ("RK45", "DOP853") if not ctx.quick else (("RK45", "DOP853")[i % 2],)
        if (stop_at_first and stats["violations"]) or hangs >= 3:   # every further hang costs the full patience
            stats["aborted_early"] = True
            break
        for method in methods:
            tau = TAUS[(i // 2) % len(TAUS)]
            sub_seed = rng.getrandbits(32)
            try:
                bad, worst, steps = exact_one(agent, b, method, tau, random.Random(sub_seed), patience, variant)
                if bad and pre and ":impulse-at-burn-" not in bad[0] and not b.get("two"):
                    bad = (bad[0].replace("exact-law:", pre), f"[{variant} variant] " + bad[1], bad[2])
            except tlc.MachineryError:
                raise
            except Exception as ex:  # noqa: BLE001  - the real code raised on a legal input
                bad, worst, steps = (f"exact-law:exception:{type(ex).__name__}", f"{type(ex).__name__}: {ex}", {}), 0.0, 0
            K.flush_events()
            stats["behaviours"] += 1
            stats["steps"] += steps
            stats["max_rel_err"] = max(stats["max_rel_err"], worst if bad is None else 0.0)
            key = ("exact" + variant, tuple(b["law"]), b["dt"], b["nsteps"], b["burn"]["ts"], b["burn"]["te"], b["burn"]["kind"], method,
                   tuple(sorted(b.get("imp", {}).items())), str(b.get("two", {}).get("parts")))
            ctx.case(key, nontrivial=b["burn"]["kind"] != "none",
                     sample={"part": "exact", "law": b["law"], "dt": b["dt"], "nsteps": b["nsteps"], "burn": b["burn"],
                             "method": method, "tau_s": tau} if i % 701 == 3 else None)
            if bad:
                sig, what, detail = bad
                stats["violations"] += 1
                stats["by_signature"][sig] = stats["by_signature"].get(sig, 0) + 1
                hangs += "terminate" in sig
                ctx.violation(sig, "(a) exact law through the real propagate/ScheduledFiniteThrust/prune: " + what,
                              {"part": "exact", "variant": variant, "behaviour": b, "method": method, "tau_s": tau, "seed": sub_seed,
                               **detail})
    ctx.traces_validated += stats["behaviours"]
    return stats


def two_burn_behaviours(behs, rng: random.Random, n: int):
    """Two finite burns of ONE satellite whose intervals overlap (B nested inside A) or coincide (same interval, different
    acceleration).  The law is linear, so the exact states are sums of the spec's own behaviours:
        overlap        X = X_A + X_B - X_none          same interval   X = X_none + 3 (X_A - X_none)   (a and 2a)
    every number still comes from TLC (three behaviours with the same law, Dt, NSteps)."""
    idx = {}
    for b in behs:
        idx[(tuple(b["law"]), b["dt"], b["nsteps"], b["burn"]["kind"], b["burn"]["ts"], b["burn"]["te"])] = b
    out = {"overlapping-burns": [], "same-interval-burns": []}
    pool = [b for b in behs if b["burn"]["kind"] != "none" and b["burn"]["te"] - b["burn"]["ts"] >= 3]
    rng.shuffle(pool)
    for a_ in pool:
        base = (tuple(a_["law"]), a_["dt"], a_["nsteps"])
        none = idx.get((*base, "none", 0, 0))
        if none is None:
            continue
        ts, te, kind = a_["burn"]["ts"], a_["burn"]["te"], a_["burn"]["kind"]

        def combine(f, other=None):
            hist = []
            for j, call in enumerate(a_["hist"]):
                xa, x0 = call["outs"][0][0], none["hist"][j]["outs"][0][0]
                xb = other["hist"][j]["outs"][0][0] if other else None
                hist.append(dict(call, outs=[[[f(xa[c], x0[c], xb[c] if xb else 0) for c in range(2)]]]))
            return hist
        if len(out["overlapping-burns"]) < n:
            s2 = rng.randrange(ts + 1, te - 1)
            e2 = rng.randrange(s2 + 1, te)
            inner = idx.get((*base, kind, s2, e2))
            if inner is not None:
                out["overlapping-burns"].append(dict(a_, hist=combine(lambda xa, x0, xb: xa + xb - x0, inner),
                                                     two={"name": "overlapping-burns", "parts": [(ts, te, 1), (s2, e2, 1)]}))
        if len(out["same-interval-burns"]) < n:
            out["same-interval-burns"].append(dict(a_, hist=combine(lambda xa, x0, xb: x0 + 3 * (xa - x0)),
                                                   two={"name": "same-interval-burns", "parts": [(ts, te, 1), (ts, te, 2)]}))
        if all(len(v) >= n for v in out.values()):
            break
    return out


# ------------------------------------------------------------------ (b) real scenario + twin
def ntw_to_eci(state, acc):
    r, v = state[:3], state[3:]
    t_hat = v / np.linalg.norm(v)
    w_hat = np.cross(r, v)
    w_hat = w_hat / np.linalg.norm(w_hat)
    n_hat = np.cross(t_hat, w_hat)
    return acc[0] * n_hat + acc[1] * t_hat + acc[2] * w_hat


def own_thrust(ev: dict):
    """The driver's own reading of the documented thrust kinds (6-vector, acceleration first)."""
    z3 = np.zeros(3)
    if ev["kind"] == "eci":
        acc = np.array(ev["acc"])
        return lambda s: np.concatenate((acc, z3))
    if ev["kind"] == "ntw":
        acc = np.array(ev["acc"])
        return lambda s: np.concatenate((ntw_to_eci(s, acc), z3))
    if ev["kind"] == "spiral":          # in-track
        return lambda s: np.concatenate((ntw_to_eci(s, np.array([0.0, ev["mag"], 0.0])), z3))
    if ev["kind"] == "plane_change":    # cross-track, sign follows the hemisphere
        return lambda s: np.concatenate((ntw_to_eci(s, np.array([0.0, 0.0, ev["mag"] if s[2] >= 0 else -ev["mag"]])), z3))
    raise ValueError(ev["kind"])


def event_cfg(tid: int, start: datetime, ev: dict) -> dict:
    from .. import scenario_util as su
    d = {"scope": "agent_propagation", "scope_instance_id": tid, "planned": False,
         "start_time": su.iso(start + timedelta(seconds=ev["ts_s"])), "end_time": su.iso(start + timedelta(seconds=ev["te_s"]))}
    if ev["kind"] in ("eci", "ntw"):
        d.update(event_type="finite_burn", acc_vector=list(ev["acc"]), thrust_frame=ev["kind"])
    else:
        d.update(event_type="finite_maneuver", maneuver_mag=ev["mag"], maneuver_type=ev["kind"])
    return d


def twin_step(dyn, x, ta: float, tb: float, on_iv, thrust_fn):
    """Integrate [ta, tb] with scipy, restarting at the switch times; thrust on iff inside on_iv.

    The unthrusted derivative is the dynamics object's own (finite_thrust = None); the DRIVER adds its own thrust
    acceleration to the velocity derivative, so the way the simulator adds thrust is not trusted either."""
    from scipy.integrate import solve_ivp
    dyn.finite_thrust = None
    free = partial(dyn._differentialEquation, check_collision=True)

    def thrusted(t, y):
        d = np.array(free(t, y), dtype=float)
        d[3:] += thrust_fn(y)[:3]
        return d
    pts = [ta] + [s for s in on_iv if ta < s < tb] + [tb]
    for a, b in zip(pts[:-1], pts[1:]):
        mid = 0.5 * (a + b)
        sol = solve_ivp(thrusted if on_iv[0] <= mid < on_iv[1] else free, (a, b), x, method=dyn._method,
                        rtol=dyn.RELATIVE_TOL, atol=dyn.ABSOLUTE_TOL * np.ones(6))
        if not sol.success:
            raise tlc.MachineryError("twin integration failed: " + str(sol.message))
        x = sol.y[:, -1]
    return x


ORBITS = {"LEO": lambda r: dict(sma_km=r.uniform(6800, 7400), ecc=r.uniform(0.001, 0.02), inc_deg=r.uniform(1, 100)),
          "MEO": lambda r: dict(sma_km=r.uniform(16000, 28000), ecc=r.uniform(0.001, 0.4), inc_deg=r.uniform(1, 120)),
          "GEO": lambda r: dict(sma_km=r.uniform(42100, 42230), ecc=r.uniform(0.001, 0.01), inc_deg=r.uniform(1, 10))}


def scenario_one(ctx: Ctx, picks, dt: int, nsteps: int, rng: random.Random, stats: dict, exact_grid: bool = False):
    """One real scenario: three targets (LEO, MEO, GEO), one burn each.

    exact_grid: start at 00:00:00 / 12:00:00 and use a 675 s physics step - then step boundaries
    (multiples of 675 s = 1/128 day) are bit-exact in Julian dates and in scenario seconds, the only
    situation in which a configured end time EQUALS a step boundary in the simulator's floats.
    """
    from .. import scenario_util as su
    from resonaate.physics.time.stardate import JulianDate, datetimeToJulianDate
    if exact_grid:
        tick = 675.0 / dt
        start = datetime(2019, 1, 1) + timedelta(days=rng.randrange(0, 900), hours=rng.choice((0, 12)))
    else:
        tick = float(rng.choice(TICKS_B))
        start = datetime(2019, 1, 1) + timedelta(days=rng.randrange(0, 900), seconds=rng.randrange(0, 86400))
    step_s = int(round(dt * tick))
    classes = ["GEO", "MEO", "GEO"] if exact_grid else ["LEO", "MEO", "GEO"]
    rng.shuffle(classes)
    targets, events, evs = [], [], {}
    for j, (b, cls) in enumerate(zip(picks, classes)):
        tid = 90001 + j
        el = ORBITS[cls](rng)
        targets.append(su.target_cfg(tid, ta_deg=rng.uniform(0, 360), raan_deg=rng.uniform(0, 360), **el))
        kind = b["burn"]["kind"]
        if kind == "spiral" and stats["cases"] % 2:
            kind = "plane_change"
        ev = {"kind": kind, "ts": b["burn"]["ts"], "te": b["burn"]["te"], "ts_s": b["burn"]["ts"] * tick,
              "te_s": b["burn"]["te"] * tick, "cls": cls, "orbit": el, "exact_grid": exact_grid,
              "acc": [rng.uniform(-ACC_B, ACC_B) for _ in range(3)], "mag": rng.choice((-1, 1)) * rng.uniform(0.5, 1) * ACC_B}
        evs[tid] = ev
        events.append(event_cfg(tid, start, ev))
        stats["cases"] += 1
    cfg = su.base_config(start=start, step=step_s, n_steps=nsteps, n_targets=0, n_sensors=1, truth_only=True,
                         model="special_perturbations", extra_targets=targets, events=events)
    cfg["propagation"]["station_keeping"] = False
    app = su.build(cfg)
    jd0 = app.clock.julian_date_start
    twins = {}
    for tid, ev in evs.items():
        ag = app.target_agents[tid]
        # the configured interval in scenario seconds, as the public conversions represent it
        iv = tuple(float(JulianDate(datetimeToJulianDate(start + timedelta(seconds=s))).convertToScenarioTime(jd0))
                   for s in (ev["ts_s"], ev["te_s"]))
        if max(abs(iv[0] - ev["ts_s"]), abs(iv[1] - ev["te_s"])) > 1e-3:
            raise tlc.MachineryError(f"Julian-date representation of the burn interval off by > 1 ms: {iv} vs {ev}")
        ev["iv_s"] = iv
        # diagnostic twins (only used to NAME a failure): D10 = thrust to the end of the step that contains the end
        end_step = math.ceil(iv[1] / step_s - 1e-12) * step_s
        x0 = np.array(ag.eci_state, dtype=float)
        twins[tid] = {"main": [copy.deepcopy(ag.dynamics), x0.copy(), iv], "dead": False, "fn": own_thrust(ev),
                      "d10": [copy.deepcopy(ag.dynamics), x0.copy(), (iv[0], max(iv[1], float(end_step)))],
                      "skip": [copy.deepcopy(ag.dynamics), x0.copy(), (0.0, 0.0)]}
    base = {"start": su.iso(start), "tick_s": tick, "dt": dt, "nsteps": nsteps, "step_s": step_s}
    for k in range(nsteps):
        try:
            with guard(120.0):
                app.stepForward()
        except Hang:
            ctx.violation("scenario:step-does-not-terminate", f"(b) Scenario.stepForward did not return within 120 s at step {k}",
                          {"part": "scenario", **base, "events": evs, "targets": targets})
            stats["violations"] += 1
            stats["by_signature"]["scenario:step-does-not-terminate"] = stats["by_signature"].get("scenario:step-does-not-terminate", 0) + 1
            return
        t_now = (k + 1) * step_s
        for tid, ev in evs.items():
            tw = twins[tid]
            if tw["dead"]:
                continue
            z_before = tw["main"][1][2]
            for name in ("main", "d10", "skip"):
                dyn, x, iv = tw[name]
                tw[name][1] = twin_step(dyn, x, k * step_s, t_now, iv, tw["fn"])
            # a plane-change maneuver flips its thrust where the orbit crosses the equator: a discontinuity that two
            # integrations resolve differently - such a case is undecided from that step on (soundness rule 2)
            if ev["kind"] == "plane_change" and tw["d10"][2][0] < t_now and tw["d10"][2][1] > k * step_s and \
                    (z_before * tw["main"][1][2] <= 0 or min(abs(z_before), abs(tw["main"][1][2])) < 5.0):
                tw["dead"] = True
                stats["undecided_plane_change_at_equator"] += 1
                continue
            got = np.asarray(app.target_agents[tid].eci_state, dtype=float)
            tol_r = TOL_R + TOL_V * t_now

            def near(x, got=got, tol_r=tol_r):
                d = np.abs(got - x)
                return d[:3].max() <= tol_r and d[3:].max() <= TOL_V, d[:3].max(), d[3:].max()
            ok, dr, dv = near(tw["main"][1])
            if ok:
                stats["max_dr"], stats["max_dv"] = max(stats["max_dr"], dr), max(stats["max_dv"], dv)
                continue
            if near(tw["d10"][1])[0]:
                sig, why = "scenario:burn-end-not-detected-inside-step", " and equals the twin that thrusts to the end of the step"
            elif near(tw["skip"][1])[0]:
                sig, why = "scenario:burn-inside-last-integrator-step-skipped", " and equals the twin that never thrusts"
            else:
                sig, why = "scenario:truth-differs-from-twin", ""
            tw["dead"] = True
            stats["violations"] += 1
            stats["by_signature"][sig] = stats["by_signature"].get(sig, 0) + 1
            stats["by_class"][ev["cls"]] = stats["by_class"].get(ev["cls"], 0) + 1
            ctx.violation(sig, f"(b) SpecialPerturbations truth of a {ev['cls']} target, {ev['kind']} thrust over "
                          f"[{ev['ts_s']},{ev['te_s']}) s, step {step_s} s: after step {k + 1} the truth state differs from the "
                          f"twin (thrust only inside the interval) by {dr:.3g} km / {dv:.3g} km/s" + why,
                          {"part": "scenario", **base, "target": next(t for t in targets if t["id"] == tid), "event": ev,
                           "step": k, "dr_km": dr, "dv_kmps": dv})
    for tid, ev in evs.items():
        ctx.case(("sp", ev["cls"], dt, nsteps, ev["ts"], ev["te"], ev["kind"], tick, exact_grid), nontrivial=True,
                 sample={"part": "scenario", **base, "event": {k: v for k, v in ev.items() if k != "orbit"}}
                 if stats["cases"] % 37 == 0 else None)
    ctx.traces_validated += len(evs)
    stats["scenarios"] += 1
    stats["exact_grid_scenarios"] += int(exact_grid)
    stats["steps"] += nsteps * len(evs)


def primary_replay(ctx: Ctx, behs, rng: random.Random) -> dict:
    stats = {"scenarios": 0, "exact_grid_scenarios": 0, "cases": 0, "steps": 0, "violations": 0, "max_dr": 0.0, "max_dv": 0.0,
             "undecided_plane_change_at_equator": 0, "by_signature": {}, "by_class": {}, "categories": {}}
    groups: dict = {}
    for b in behs:
        if b["burn"]["kind"] != "none":
            groups.setdefault((b["dt"], b["nsteps"]), {}).setdefault(category(b), []).append(b)
    keys = sorted(groups)
    for g in groups.values():
        for lst in g.values():
            rng.shuffle(lst)
    n_scen = 30 if ctx.quick else 450
    cat_cursor: dict = {}

    def pick(key):
        cats = sorted(groups[key])
        c = cats[cat_cursor.get(key, 0) % len(cats)]
        cat_cursor[key] = cat_cursor.get(key, 0) + 1
        lst = groups[key][c]
        stats["categories"][str(c)] = stats["categories"].get(str(c), 0) + 1
        return lst[rng.randrange(len(lst))]

    for i in range(n_scen):
        key = keys[i % len(keys)]
        if stats["by_signature"].get("scenario:step-does-not-terminate", 0) >= 2:
            stats["aborted_after_hangs"] = True
            return stats
        scenario_one(ctx, [pick(key) for _ in range(3)], key[0], key[1], rng, stats)
    # bit-exact boundary stratum: short burns that END on a step boundary and start inside the same step (with a
    # 675 s step only high orbits cover such a burn with one integrator step, hence two GEO targets here)
    eg = {}
    for key in keys:
        cand = [b for lst in groups[key].values() for b in lst
                if b["burn"]["te"] % key[0] == 0 and b["burn"]["te"] - b["burn"]["ts"] == 1 and key[0] >= 3 and key[1] <= 2]
        if cand:
            eg[key] = cand
    egkeys = sorted(eg)
    for i in range(4 if ctx.quick else 40):
        key = egkeys[i % len(egkeys)]
        scenario_one(ctx, [eg[key][rng.randrange(len(eg[key]))] for _ in range(3)], key[0], key[1], rng, stats, exact_grid=True)
    return stats


# ------------------------------------------------------------------ entry points
def run(ctx: Ctx):
    rng = random.Random(ctx.seed * 104729 + 15)
    ctx.rule = ("TLC enumerates every (law, Dt, NSteps, t_start < t_end <= Dt*NSteps, kind) of Kinematics.tla (Mode steps) on a tick "
                "grid: burn inside one step, spanning several, starting/ending on a boundary. (a) every behaviour replayed through "
                "the exact law with seeded tick length / axis / integrator; (b) a stratified seeded sample (by alignment category) "
                "as real SpecialPerturbations scenarios with LEO, MEO and GEO targets and eci/ntw burns, spiral/plane-change "
                "maneuvers, plus a bit-exact stratum (675 s steps from 00:00/12:00, burn ending on the boundary). Non-trivial = a "
                "burn is present; distinct by (part, law or orbit class, Dt, NSteps, ts, te, kind, ...)")
    ctx.assumptions = [
        "burns starting exactly at scenario time 0 are explored only on the exact law, with 5 s of patience per call, and the stratum "
        "stops at its first failure (on the unchanged tree Celestial.propagate never returns for them - the mechanism of D3's hang)",
        "(a) exact law: position/velocity must equal the spec's integers within 1e-9 relative",
        f"(b) tolerance {TOL_R} km + {TOL_V} km/s * elapsed / {TOL_V} km/s instead of the nominal 1e-7 / 1e-10: after a terminal "
        "event the real driver restarts from solve_ivp's dense-output state, whose error at rtol 1e-10 was measured up to "
        "1.3e-9 km/s / 5.5e-7 km on the repaired tree; the smallest effect of a mis-timed switch explored (one tick >= 10 s at "
        ">= 1e-6 km/s^2) is 1e-5 km/s",
        "(b) the on-interval in scenario seconds is the configured datetimes passed through datetimeToJulianDate / "
        "convertToScenarioTime (checked to be within 1 ms of the nominal whole seconds); delivery windows are C01's concern",
        "(b) a plane-change maneuver whose orbit crosses the equator (|z| < 5 km or sign change) during a step that overlaps the "
        "burn is undecided from that step on: the thrust is discontinuous there and two integrations resolve it differently",
        "overlapping burns are not defined by the simulator (single finite_thrust slot); back-to-back burns (both queue orders), a zero "
        "impulse in the middle of a burn and a companion impulse at any tick strictly inside a step - including exactly the burn's "
        "start or end, listed before or after the burn - are explored on the exact law; an impulse ON a step boundary is C01's subject",
    ]
    res, behs = K.run_spec(ctx, "steps", "Kinematics.tla Mode=steps: all (law, Dt, NSteps, ts, te, kind); C15 invariants + behaviours",
                           invs=INV15, **spec_cfg(ctx))
    small = dict(invs=INV15, Horizon=8, StepLens="{2, 3, 4}", MaxSteps=3, Laws="LawsOne", Kinds="KindsOne")
    refuted = K.run_as_coded(ctx, "ascoded", ("ThrustExactlyInterval",), **small)
    refuted_b = K.run_as_coded(ctx, "ascoded_b", ("ThrustExactlyInterval",), deviation="EndMasksStart", **small)
    cov = K.run_coverage(ctx, "cov", [a for a in K.ACTIONS if a not in ("AppendEvent", "PrepEventsBulk", "DropEvents", "NeighbourCall", "PrepEventsNb")], invs=INV15,
                         Horizon=6, StepLens="{2, 3}", MaxSteps=3, Laws="LawsOne", Kinds="KindsOne", ImpChoice='"any"', ImpDvs="{1}")
    refuted_c = K.run_as_coded(ctx, "ascoded_c", ("ThrustExactlyInterval", "ImpulseNeverLost"), deviation="FirstRootOnly",
                               ImpChoice='"coincident"', ImpDvs="{1}", **small)
    ctx.extra["spec_mutants_killed"] = {"EndNeedsLanding(D10)": refuted, "EndMasksStart(D10b)": refuted_b,
                                        "FirstRootOnly(coincident roots)": refuted_c}
    ctx.extra["action_coverage"] = cov
    ctx.extra["behaviours"] = len(behs)
    ctx.extra["exact"] = exact_replay(ctx, behs, rng)
    # the same behaviours with a companion event in the agent's queue (the spec's numbers stay the oracle): every 3rd
    # (4th in quick) behaviour whose burn lasts at least two ticks
    long_burns = [b for b in behs if b["burn"]["kind"] != "none" and b["burn"]["te"] - b["burn"]["ts"] >= 2]
    ctx.extra["exact_zero_impulse_mid_burn"] = exact_replay(ctx, long_burns[::8 if ctx.quick else 4], rng, variant="impulse")
    ctx.extra["exact_back_to_back_burns"] = exact_replay(ctx, long_burns[1::8 if ctx.quick else 4], rng, variant="split")
    ctx.extra["exact_back_to_back_burns_reversed_queue"] = exact_replay(ctx, long_burns[5::8 if ctx.quick else 4], rng, variant="split-rev")
    # two burns of one satellite with overlapping / identical intervals: the C15 statement speaks of every scheduled burn,
    # whatever else is scheduled (sum of the accelerations); oracle = sums of the spec's behaviours (linear law)
    for name, lst in two_burn_behaviours(behs, rng, 40 if ctx.quick else 400).items():
        ctx.extra["exact_" + name.replace("-", "_")] = exact_replay(ctx, lst, rng, variant=name)
    # a companion impulse posed by the SPEC: at any tick strictly inside a step - in particular exactly at the burn's start
    # or end (two event roots at one stop) - listed before or after the burn; the spec's integers are the oracle
    _, with_imp = K.run_spec(ctx, "imp", "Kinematics.tla Mode=steps with a companion impulse (any tick inside a step, both queue orders)",
                             emit="BEHI", ImpChoice='"any"', ImpDvs="{1}" if ctx.quick else "{0, 1}",
                             **(small if ctx.quick else dict(small, Kinds="KindsBurn", Laws="LawsQuick")))
    with_imp = [b for b in with_imp if b["imp"]["at"] > 0]
    ctx.extra["exact_companion_impulse"] = exact_replay(ctx, with_imp, rng, variant="impulse-companion")
    ctx.extra["exact_companion_impulse"]["coincident_with_burn_start_or_end"] = sum(
        1 for b in with_imp if b["imp"]["at"] in (b["burn"]["ts"], b["burn"]["te"]))
    # burns that start at the scenario start itself (tick 0): a handful, short patience - on a tree where the restart
    # loop cannot leave scenario time 0 every one of them would hang
    _, zero = K.run_spec(ctx, "zero", "Kinematics.tla Mode=steps, burns starting at scenario time 0", invs=INV15, Horizon=6,
                         StepLens="{2, 3}", MaxSteps=2, Laws="LawsOne", Kinds="KindsBurn", FirstStart=0, OnlyFirstStart="TRUE",
                         WithNoBurn="FALSE")
    ctx.extra["exact_burn_at_scenario_start"] = exact_replay(ctx, zero, rng, patience=5.0, stop_at_first=True)
    ctx.extra["primary"] = primary_replay(ctx, [b for b in behs if b["law"] == behs[0]["law"]], rng)


def replay(ctx: Ctx, rp: dict):
    """Re-run one stored exact-law case; scenario cases re-run the whole check."""
    r = rp["replay"]
    if r.get("part") != "exact":
        return run(ctx)
    agent = real_agent()
    b = r["behaviour"]
    bad, _, _ = exact_one(agent, b, r["method"], r["tau_s"], random.Random(r["seed"]), variant=r.get("variant", ""))
    ctx.case(("replay", str(b["burn"]), b["dt"]))
    ctx.case(("replay2", r["method"]))
    if bad:
        ctx.violation(bad[0], bad[1], r)
