"""C17 - maneuver detectors compute their documented statistic over any history.

The decider is spec/Detectors.tla (exact integer / rational / BigNat arithmetic); it is bound
to the REAL classes StandardNis, SlidingNis, FadingMemoryNis in both directions.

1. spec -> impl, exhaustive: TLC enumerates every history over a small input alphabet
   (Detectors_<tier>.cfg), checks the spec-level theorems (documented statistic written over
   the whole history, window contents, MonotoneInLatest) and emits every finished history
   with the metric / dof / detection every call must report.  The driver walks the emitted
   histories as a trie (one real call per trie node, detector state carried by deepcopy),
   feeding residual vectors and innovation covariances whose quadratic form is exactly the
   posed NIS, and requires
       metric == mNum/mDen                      (1e-9 relative)
       detected == (metric >= chi2.isf(threshold, dofNum/dofDen))
   (bound from scipy by the driver; cases within 1e-9 of the bound are excluded), plus
   monotonicity of the real boolean in the latest NIS between sibling histories.
2. spec -> impl, long: the same for random long histories from ``tlc -simulate``
   (length 30/50, dimensions 1..8, windows 1..10, six fading factors).
3. impl -> spec: random runs of the real detectors, driven through the real
   SequentialFilter.checkManeuverDetection with a dimension that varies from step to step,
   are recorded and validated by TLC against TraceDetectors.tla (which reuses Step); the
   scaled-up twin of the last call checks the monotonicity clause on the real objects.
4. seam probe (driver side): inputs whose reported float metric equals the float bound bit
   for bit must be detections ("reaches" is >=, as Verdict in Detectors.tla states), inputs
   one representable value below must not.
5. scale invariance (clause nis-not-scale-invariant): half of all inputs of dimension >= 2 in 1-3
   are strongly correlated covariances in small / large measurement units (same posed NIS); the
   2x2 lattice of Detectors.tla (NisScaleInvariant, deviation OffDiagDropped refuted by TLC) is
   replayed into the real chiSquareQuadraticForm in five units; one history per detector is fed
   in five units and must report the same metric in each.
6. (thorough) spec-level theorems on the merged state space for deeper histories.

Decided exactly by TLC: the statistic, the window contents, the fading recursion, the dof
bookkeeping (all rational) and the comparison direction against a tabulated bound.  The
chi-square quantile itself is scipy's (trusted base), the float quadratic form is compared
with the exact NIS to 1e-9.
"""
from __future__ import annotations

import copy
import json
import math
import os
import random
import re
from concurrent.futures import ProcessPoolExecutor, ThreadPoolExecutor
from fractions import Fraction
from types import SimpleNamespace

import numpy as np

from .. import tlc
from ..core import Ctx

LEVEL = "model_checking"

ALPHAS_SMALL = [0.01, 0.05, 0.5]
ALPHAS_WIDE = [0.001, 0.01, 0.05, 0.1, 0.5, 0.9, 1e-18]
DELTAS_QUICK = [(1, 2), (4, 5)]
DELTAS_WIDE = [(1, 2), (4, 5), (1, 10), (9, 10), (1, 3), (2, 3)]     # = DeltasWide in Detectors.tla
BOUND_DEN = 10**8          # = BoundDen (Base^2) in Detectors.tla
MQ = 10**4                 # = MQ in TraceDetectors.tla
REL = 1e-9                 # metric tolerance and exclusion band around the chi-square bound
BASE = 10**4               # BigNat limb base
CLS = {"standard": "StandardNis", "sliding": "SlidingNis", "fading": "FadingMemoryNis"}


# --------------------------------------------------------------------------- chi-square table
def dof_lattice(max_len, max_dim, max_w, deltas):
    """Every dof the detectors can reach within the bounds (a superset is harmless; a dof the
    spec computes that is missing here makes TLC fail with NOBOUND -> machinery error)."""
    dofs = {Fraction(i) for i in range(1, max(max_dim * max(max_w, 1), max_dim) + 1)}
    ratios = {Fraction(td, t) for t in range(1, max_len + 1) for td in range(t, max_dim * t + 1)}
    for p, q in deltas:
        f = Fraction(q + p, q - p)
        dofs.update(r * f for r in ratios)
    return sorted(dofs)


def bound_table(alphas, dofs):
    from scipy.stats import chi2
    x = np.array([float(f) for f in dofs])
    out = []
    for a in alphas:
        b = chi2.isf(a, x)
        if not np.all(np.isfinite(b)) or b.min() <= 0:
            raise tlc.MachineryError("chi-square bound is not a positive finite number")
        out.append([[f.numerator, f.denominator, limbs(int(round(v * BOUND_DEN)))] for f, v in zip(dofs, b)])
    return out


_BOUND_CACHE: dict = {}


def bound(alpha, dn, dd):
    key = (alpha, dn, dd)
    v = _BOUND_CACHE.get(key)
    if v is None:
        from scipy.stats import chi2
        v = _BOUND_CACHE[key] = float(chi2.isf(alpha, dn / dd))
    return v


def big(lm):
    v = 0
    for x in reversed(lm):
        v = v * BASE + x
    return v


def limbs(v: int):
    out = []
    while v:
        out.append(v % BASE)
        v //= BASE
    return out


# --------------------------------------------------------------------------- real objects
def make_detector(kind, w, p, q, alpha):
    from resonaate.estimation.maneuver_detection import FadingMemoryNis, SlidingNis, StandardNis
    if kind == "standard":
        return StandardNis(alpha)
    if kind == "sliding":
        return SlidingNis(alpha, window_size=w)
    return FadingMemoryNis(alpha, delta=p / q)


SCALES = (1.0, 1e-3, 3e-5, 1e-6, 1e4)      # physical unit changes nu -> c nu, S -> c^2 S (NIS unchanged)
RHOS = (0.5, 0.7, 0.9, 0.95, 0.99)


def correlated_cov(rng, dim: int, rho=None):
    """Strongly correlated covariance D C D, C = (1 - rho) I + rho v v' with v in {-1, +1}^dim
    (so the correlations have both signs), or equicorrelation with a negative rho."""
    rho = RHOS[int(rng.integers(len(RHOS)))] if rho is None else rho
    if rng.random() < 0.25:
        corr = np.full((dim, dim), -0.9 * rho / (dim - 1))
        np.fill_diagonal(corr, 1.0)
    else:
        v = rng.choice((-1.0, 1.0), size=dim)
        corr = (1.0 - rho) * np.eye(dim) + rho * np.outer(v, v)
    sig = 1.0 + 2.0 * rng.random(dim)
    return corr * np.outer(sig, sig)


def _scale_to_nis(rng, s_mat, nis):
    """A residual off the principal axes of s_mat with r' s_mat^-1 r == nis (Cholesky solve)."""
    from scipy.linalg import cho_factor, cho_solve
    u = rng.normal(size=s_mat.shape[0])
    cf = cho_factor(s_mat)
    q0 = float(u @ cho_solve(cf, u))
    r = u * math.sqrt(nis / q0)
    got = float(r @ cho_solve(cf, r))          # NIS recomputed by the harness
    if abs(got - nis) > 2e-13 * max(1.0, nis):
        raise tlc.MachineryError(f"harness could not build an input with NIS {nis}: {got}")
    return r


def make_input(rng, nis: float, dim: int, dense: bool):
    """Residual (dim,) and positive-definite covariance (dim, dim) with r' S^-1 r == nis.

    Half of the inputs of dimension >= 2 (in either mode) are strongly correlated covariances
    (|rho| 0.5 .. 0.99, both signs) expressed in small or large measurement units
    (entries down to 1e-12 and up to 1e9): the statistic is invariant under nu -> c nu,
    S -> c^2 S, so the posed NIS is unchanged."""
    if dim >= 2 and rng.random() < 0.5:
        s_mat = correlated_cov(rng, dim)
        r = _scale_to_nis(rng, s_mat, nis)
        c = SCALES[int(rng.integers(len(SCALES)))]
        return r * c, s_mat * (c * c)
    if not dense:
        s = (0.25, 1.0, 4.0, 16.0)[int(rng.integers(4))]
        wts = rng.random(dim) + 0.05
        wts /= wts.sum()
        r = np.sqrt(nis * s * wts) * rng.choice((-1.0, 1.0), size=dim)
        return r, np.eye(dim) * s
    a = rng.normal(size=(dim, dim))
    scale = (0.01, 1.0, 25.0)[int(rng.integers(3))]
    s_mat = (a @ a.T + 0.5 * dim * np.eye(dim)) * scale
    return _scale_to_nis(rng, s_mat, nis), s_mat


def close(got, exp):
    try:
        got = float(got)
    except (TypeError, ValueError):
        return False
    return math.isfinite(got) and abs(got - exp) <= REL * abs(exp) + 1e-12


# --------------------------------------------------------------------------- spec -> impl
_GROUPS: dict = {}        # filled before the worker pool forks: (cfgkey, chunk) -> leaves


def _parse_hist(res):
    """HIST lines -> {cfgkey: [leaf]}, leaf = tuple of (n, d, num, den, dofN, dofD, dets, unds)
    with dets / unds listed per significance level."""
    groups: dict = {}
    n = 0
    for m in re.finditer(r'^"HIST .*"$', res.stdout, re.M):
        kind, w, p, q, hist = json.loads(json.loads(m.group(0))[5:])
        leaf = tuple((s[0], s[1], big(s[2]), big(s[3]), s[4], s[5], tuple(s[6]), tuple(s[7])) for s in hist)
        groups.setdefault((kind, w, p, q), []).append(leaf)
        n += 1
    return groups, n


def _replay_group(args):
    """Walk the histories of one detector configuration as a trie through the real class."""
    gkey, alphas, nis_den, dense, seed = args
    (kind, w, p, q), leaves = gkey[0], _GROUPS[gkey]
    na = len(alphas)
    rng = np.random.default_rng([seed, hash_key(gkey)])
    leaves = sorted(leaves, key=lambda lf: [(s[1], s[0]) for s in lf])
    # stack[j] = the real detectors (one per threshold) after j calls
    stack = [[make_detector(kind, w, p, q, alpha) for alpha in alphas]]
    sib: list = []                # sib[j] = (d, n, detections) of the last child taken at depth j
    prev: tuple = ()
    st = {"nodes": 0, "calls": 0, "det": 0, "nodet": 0, "excluded": 0, "mono_pairs": 0, "viol": [], "bad_spec": []}
    for leaf in leaves:
        inputs = tuple((s[0], s[1]) for s in leaf)
        c = 0
        while c < len(prev) and c < len(inputs) and prev[c] == inputs[c]:
            c += 1
        if c == len(inputs):
            continue                                   # duplicate history
        del stack[c + 1:]
        del sib[c + 1:]
        for j in range(c, len(inputs)):
            n, d, num, den, dn, dd, sdet, sund = leaf[j]
            if len(sdet) != na:
                raise tlc.MachineryError(f"history lists {len(sdet)} significance levels, harness has {na}")
            dets = copy.deepcopy(stack[j])
            nis = n / nis_den
            r, s_mat = make_input(rng, nis, d, dense)
            exp = float(Fraction(num, den))
            st["nodes"] += 1
            gots = []
            for ai, det in enumerate(dets):
                alpha = alphas[ai]
                got = bool(det(r, s_mat))
                gots.append(got)
                metric = det.metric
                st["calls"] += 1
                where = {"kind": kind, "w": w, "delta": [p, q], "threshold": alpha, "nis_den": nis_den,
                         "history": [list(x) for x in inputs[:j + 1]], "step": j + 1}
                if not close(metric, exp):
                    st["viol"].append((f"{kind}-metric", f"{CLS[kind]}.metric = {metric!r} but the documented statistic is "
                                       f"{num}/{den} = {exp!r} at call {j + 1}",
                                       dict(where, expected=[str(num), str(den)], got=repr(metric))))
                b = bound(alpha, dn, dd)
                if abs(exp - b) <= REL * max(1.0, b):
                    st["excluded"] += 1
                    continue
                want = exp >= b
                st["det" if want else "nodet"] += 1
                if not sund[ai] and bool(sdet[ai]) != want:
                    st["bad_spec"].append((where, sdet[ai], want, exp, b))
                if got != want:
                    st["viol"].append((f"{kind}-detect", f"{CLS[kind]} returned {got} but metric {exp:.9g} vs chi2.isf({alpha}, "
                                       f"{dn}/{dd}) = {b:.9g} means {want} at call {j + 1}",
                                       dict(where, dof=[dn, dd], bound=b, metric=exp, got=got)))
            # siblings: same prefix, same dimension, larger latest NIS
            if j < len(sib) and sib[j][0] == d and sib[j][1] < n:
                for ai in range(na):
                    st["mono_pairs"] += 1
                    if sib[j][2][ai] and not gots[ai]:
                        st["viol"].append((f"{kind}-not-monotone", f"{CLS[kind]}: latest NIS {sib[j][1]}/{nis_den} detected, "
                                           f"{n}/{nis_den} did not",
                                           {"kind": kind, "w": w, "delta": [p, q], "threshold": alphas[ai], "nis_den": nis_den,
                                            "history": [list(x) for x in inputs[:j + 1]], "step": j + 1, "smaller": sib[j][1]}))
            del sib[j:]
            sib.append((d, n, gots))
            stack.append(dets)
        prev = inputs
    return st


def hash_key(k):
    import hashlib
    return int.from_bytes(hashlib.blake2b(repr(k).encode(), digest_size=4).digest(), "big")


def replay_histories(ctx: Ctx, res, alphas, nis_den, dense, what, procs, expect_configs=None):
    groups, n_leaves = _parse_hist(res)
    if n_leaves == 0:
        raise tlc.MachineryError(f"{what}: TLC emitted no history")
    _GROUPS.clear()
    n_case = 0
    if expect_configs is not None and set(groups) != expect_configs:
        raise tlc.MachineryError(f"{what}: histories emitted for {len(groups)} detector configurations, expected {len(expect_configs)} "
                                 f"(missing {sorted(expect_configs - set(groups))[:5]})")
    for ckey, leaves in sorted(groups.items()):
        for lf in leaves:
            n_case += 1
            inputs = tuple((s[0], s[1]) for s in lf)
            ctx.case((ckey, nis_den, inputs), nontrivial=any(s[0] for s in lf),
                     sample={"config": ckey, "nis_den": nis_den, "history": inputs[:6],
                             "expected_last": {"metric": [str(lf[-1][2]), str(lf[-1][3])], "dof": [lf[-1][4], lf[-1][5]],
                                               "detect_per_threshold": lf[-1][6]}}
                     if n_case % 40009 == 1 else None)
        # split big groups by the dimension of the first call so that the pool stays busy
        if len(leaves) > 1500:
            parts: dict = {}
            for lf in leaves:
                parts.setdefault((lf[0][1], lf[0][0]), []).append(lf)
            for sub, ls in sorted(parts.items()):
                _GROUPS[(ckey, sub)] = ls
        else:
            _GROUPS[(ckey, None)] = leaves
    jobs = [(g, alphas, nis_den, dense, ctx.seed) for g in sorted(_GROUPS, key=repr)]
    if procs > 1:
        import multiprocessing as mp
        with ProcessPoolExecutor(procs, mp_context=mp.get_context("fork")) as ex:
            stats = list(ex.map(_replay_group, jobs, chunksize=1))
    else:
        stats = [_replay_group(j) for j in jobs]
    _GROUPS.clear()
    tot = {"nodes": 0, "calls": 0, "det": 0, "nodet": 0, "excluded": 0, "mono_pairs": 0}
    for st in stats:
        for k in tot:
            tot[k] += st[k]
        if st["bad_spec"]:
            raise tlc.MachineryError(f"{what}: spec detect flag disagrees with the float bound outside the band: {st['bad_spec'][:2]}")
        for sig, msg, rp in st["viol"]:
            ctx.violation(sig, msg, rp)
    if tot["det"] == 0 or tot["nodet"] == 0:
        raise tlc.MachineryError(f"{what}: detections are one-sided ({tot}); the inputs do not exercise the test")
    ctx.traces_validated += n_leaves
    ex = ctx.extra.setdefault("spec_to_impl", {})
    ex[what] = dict(tot, histories=n_leaves)
    return tot


def plan_exhaustive(ctx: Ctx):
    """[(label, run-TLC thunk, finish(res))] for the exhaustive spec -> impl configuration."""
    workers = 4 if ctx.quick else min(8, ctx.cpus)
    cfg_name = "Detectors_quick.cfg" if ctx.quick else "Detectors_thorough.cfg"
    cfg_text = (tlc.SPEC_DIR / cfg_name).read_text()
    nis_den = int(re.search(r"NisDen = (\d+)", cfg_text).group(1))
    max_len = int(re.search(r"MaxLen = (\d+)", cfg_text).group(1))
    table = json.dumps(bound_table(ALPHAS_SMALL, dof_lattice(max_len, 3, 4, DELTAS_QUICK)))
    runs = [None] if ctx.quick else ['{"standard", "sliding"}', '{"fading"}']
    plan = []
    for r, kinds in enumerate(runs):
        text = cfg_text if kinds is None else re.sub(r"Kinds = \{[^}]*\}", "Kinds = " + kinds, cfg_text)
        d = ctx.sub(f"exh{r}")
        (d / "bound.json").write_text(table)

        def go(text=text, d=d):
            return tlc.run_tlc("Detectors", text + "\n", d, workers=workers, env={"BOUND_FILE": "bound.json"},
                               timeout=3000, coverage=bool(os.environ.get("C17_COVERAGE")))

        def finish(res, r=r, kinds=kinds):
            tlc.require_ok(res, f"Detectors exhaustive {kinds or ''}")
            ctx.add_tlc(res, f"Detectors.tla exhaustive histories {kinds or 'all kinds'} (theorems + emitted expectations)")
            for inv, states in res.invariant_violations:
                raise tlc.MachineryError(f"Detectors.tla theorem {inv} fails at spec level:\n" + "\n".join(states[-1:]))
            if res.coverage:
                check_coverage(ctx, res)
            if r == 0:
                replay_qf2(ctx, res)
            # every Construct* / *Step action of the spec must have produced histories
            want = set()
            if kinds is None or "standard" in kinds:
                want.add(("standard", 0, 0, 1))
                want.update(("sliding", w, 0, 1) for w in (1, 2, 3, 4))
            if kinds is None or "fading" in kinds:
                want.update(("fading", 0, p, q) for p, q in DELTAS_QUICK)
            replay_histories(ctx, res, ALPHAS_SMALL, nis_den, dense=not ctx.quick, what=f"exhaustive{r}",
                             procs=1 if ctx.quick else min(8, ctx.cpus), expect_configs=want)
            res.stdout = ""

        plan.append((f"exhaustive{r}", go, finish))
    return plan


def check_coverage(ctx: Ctx, res):
    need = ["ConstructStandard", "ConstructSliding", "ConstructFading", "StandardStep", "SlidingStep", "FadingStep"]
    cov = {k.split("!")[-1]: v for k, v in res.coverage.items()}
    missing = [a for a in need if cov.get(a, (0, 0))[1] == 0]
    ctx.extra["action_coverage"] = {a: list(cov.get(a, (0, 0))) for a in need}
    if missing:
        raise tlc.MachineryError(f"Detectors.tla actions never taken: {missing}")


def plan_simulation(ctx: Ctx):
    cfg_name = "Detectors_sim_quick.cfg" if ctx.quick else "Detectors_sim_thorough.cfg"
    cfg_text = (tlc.SPEC_DIR / cfg_name).read_text()
    nis_den = int(re.search(r"NisDen = (\d+)", cfg_text).group(1))
    max_len = int(re.search(r"MaxLen = (\d+)", cfg_text).group(1))
    nalpha = int(re.search(r"NAlpha = (\d+)", cfg_text).group(1))
    alphas = ALPHAS_WIDE[:nalpha]
    table = json.dumps(bound_table(alphas, dof_lattice(max_len, 8, 10, DELTAS_WIDE)))
    nruns, num = (1, 30) if ctx.quick else (6, 100)
    plan = []
    for r in range(nruns):
        d = ctx.sub(f"sim{r}")
        (d / "bound.json").write_text(table)

        def go(r=r, d=d):
            # one worker per run: the behaviours of a run are then a function of the seed alone
            return tlc.run_tlc("Detectors", cfg_text, d, workers=1, env={"BOUND_FILE": "bound.json"}, timeout=3000,
                               simulate=f"num={num}", depth=max_len + 2, seed=ctx.seed * 1000 + r + 1)

        def finish(res, r=r):
            tlc.require_ok(res, f"Detectors simulation {r}")
            ctx.add_tlc(res, f"Detectors.tla -simulate num={num} depth={max_len + 2} (run {r})")
            for inv, states in res.invariant_violations:
                raise tlc.MachineryError(f"Detectors.tla theorem {inv} fails at spec level (simulation):\n" + "\n".join(states[-1:]))
            replay_histories(ctx, res, alphas, nis_den, dense=not ctx.quick or r % 2 == 0, what=f"simulate{r}",
                             procs=1 if ctx.quick else min(8, ctx.cpus))
            res.stdout = ""

        plan.append((f"simulate{r}", go, finish))
    return plan


# --------------------------------------------------------------------------- impl -> spec
def _filter_call(det, r, s_mat):
    """One filter update as sequential_filter.py does it: the REAL checkManeuverDetection on a stand-in."""
    from resonaate.estimation.sequential_filter import FilterFlag, SequentialFilter
    stub = SimpleNamespace(maneuver_detection=det, innovation=r, innov_cvr=s_mat, maneuver_detected=False,
                           flags=FilterFlag.NONE, maneuver_metric=None, adaptive_estimation=False,
                           initial_orbit_determination=False)
    SequentialFilter.checkManeuverDetection(stub)
    return bool(stub.maneuver_detected), int(FilterFlag.MANEUVER_DETECTION in stub.flags), stub.maneuver_metric


def quantise(metric):
    try:
        m = float(metric)
    except (TypeError, ValueError):
        return -1
    if not math.isfinite(m) or m < 0 or m * MQ >= 2**31 - 2:
        return -1
    return int(round(m * MQ))


def gen_traces(ctx: Ctx, rng: random.Random, nrng, count, nis_den, alphas, max_len, dense):
    traces, floats = [], []
    for t in range(count):
        kind = rng.choice(("standard", "sliding", "sliding", "fading", "fading"))
        w = rng.randint(1, 10) if kind == "sliding" else 0
        p, q = rng.choice(DELTAS_WIDE) if kind == "fading" else (0, 1)
        a = rng.randint(1, len(alphas))
        det = make_detector(kind, w, p, q, alphas[a - 1])
        length = rng.randint(1, max_len) if t % 7 else max_len
        # NIS per unit dimension drawn around where the chi-square bound of this threshold sits
        level = rng.choice((0.3, 1.0, 1.0, 1.6, 2.5)) * max(1.0, bound(alphas[a - 1], 6, 1) / 12.6)
        fixed_dim = rng.randint(1, 8) if rng.random() < 0.2 else None
        steps, mets = [], []
        twin = None
        for j in range(length):
            d = fixed_dim or rng.randint(1, 8)
            n = min(4000, int(round(nis_den * d * level * rng.expovariate(1.0))))
            if rng.random() < 0.05:
                n = min(4000, n * 6 + nis_den * d)
            r, s_mat = make_input(nrng, n / nis_den, d, dense)
            if j == length - 1:
                c = rng.choice((1, 2, 2, 3))
                n2 = n * c * c
                det2 = copy.deepcopy(det)
                got2, _, _ = _filter_call(det2, r * c, s_mat)
                twin = [n2, int(got2)]
            got, flag, fm = _filter_call(det, r, s_mat)
            if got and not (fm is det.metric or fm == det.metric):
                ctx.violation("filter-metric-not-detector-metric", "checkManeuverDetection stored a maneuver_metric that is not the detector's",
                              {"kind": kind, "step": j + 1})
            steps.append([n, d, int(got), quantise(det.metric), flag])
            mets.append(det.metric)
        traces.append({"kind": kind, "w": w, "p": p, "q": q, "a": a, "steps": steps, "twin": twin})
        floats.append(mets)
        ctx.case(("trace", kind, w, p, q, a, nis_den, tuple((s[0], s[1]) for s in steps)),
                 nontrivial=len({s[1] for s in steps}) > 1 or length == 1,
                 sample={"trace": {k: v for k, v in traces[-1].items() if k != "steps"}, "first_steps": steps[:4]} if t in (0, 1) else None)
    return traces, floats


def start_trace_validation(ctx: Ctx, traces, nis_den, alphas, tag, workers):
    """Write the recorded runs and return the thunk that runs TLC on them."""
    cfg = (tlc.SPEC_DIR / "TraceDetectors.cfg").read_text()
    cfg = re.sub(r"NisDen = \d+", f"NisDen = {nis_den}", cfg)
    d = ctx.sub(f"trace_{tag}")
    (d / "traces.json").write_text(json.dumps(traces))
    (d / "bound.json").write_text(json.dumps(bound_table(alphas, dof_lattice(50, 8, 10, DELTAS_WIDE))))
    return lambda: tlc.run_tlc("TraceDetectors", cfg + "\n", d, workers=workers, cont=True, timeout=3000,
                               env={"TRACE_FILE": "traces.json", "BOUND_FILE": "bound.json"})


def finish_trace_validation(ctx: Ctx, res, traces, floats, nis_den, alphas, tag):
    tlc.require_ok(res, f"TraceDetectors {tag}")
    ctx.add_tlc(res, f"trace validation of {len(traces)} recorded runs of the real detectors ({tag})")
    spec_level = {"TypeOK", "DetectIffReaches", "WindowIsLastW", "MemoryUntouched"}
    seen = set()
    for inv, states in res.invariant_violations:
        if inv in spec_level:
            raise tlc.MachineryError(f"Detectors.tla theorem {inv} fails during trace validation:\n" + "\n".join(states[-1:]))
        txt = "\n".join(states[-1:])
        mi = re.search(r"/\\ i = (-?\d+)", txt)
        mk = re.search(r"/\\ k = (\d+)", txt)
        if not mi or not mk or int(mi.group(1)) < 1:
            raise tlc.MachineryError(f"cannot map violation of {inv} to a trace:\n{txt}")
        i, k = int(mi.group(1)), int(mk.group(1))
        if (inv, i, k) in seen:
            continue
        seen.add((inv, i, k))
        tr = traces[i - 1]
        sig = {"DetectExplained": "trace-detect", "MetricExplained": "trace-metric", "FlagExplained": "trace-flag",
               "TwinExplained": "trace-twin-detect", "TwinMonotone": "trace-twin-not-monotone"}.get(inv, inv)
        at = k if inv in ("DetectExplained", "MetricExplained", "FlagExplained") else k + 1
        ctx.violation(f"{tr['kind']}-{sig}", f"recorded run of {CLS[tr['kind']]} is not a behaviour of Detectors.tla: {inv} fails at call {at}",
                      {"trace": {**tr, "steps": tr["steps"][:at]}, "threshold": alphas[tr["a"] - 1], "nis_den": nis_den,
                       "float_metrics": [repr(x) for x in floats[i - 1][:at]], "invariant": inv})
    total_steps = sum(len(t["steps"]) for t in traces)
    expected = 1 + 64 + len(traces) + total_steps
    if res.ok and res.distinct_states != expected:
        raise tlc.MachineryError(f"trace run {tag}: {res.distinct_states} states, expected {expected}")
    # fine comparison of the float metric with the exact rational TLC computed
    nfine = undecided = 0
    for i, k, num, den, dn, dd, und in res.tagged("TSTEP"):
        exp = float(Fraction(big(num), big(den)))
        got = floats[i - 1][k - 1]
        nfine += 1
        undecided += und
        if not close(got, exp):
            tr = traces[i - 1]
            ctx.violation(f"{tr['kind']}-trace-metric-fine", f"{CLS[tr['kind']]}.metric = {got!r}, exact statistic {exp!r} at call {k}",
                          {"trace": {**tr, "steps": tr["steps"][:k]}, "nis_den": nis_den, "expected": [str(big(num)), str(big(den))]})
    if res.ok and nfine != total_steps:
        raise tlc.MachineryError(f"trace run {tag}: {nfine} TSTEP lines for {total_steps} steps")
    ctx.traces_validated += len(traces)
    ex = ctx.extra.setdefault("impl_to_spec", {})
    ex[tag] = {"traces": len(traces), "steps": total_steps, "detections": sum(s[2] for t in traces for s in t["steps"]),
               "undecided_by_table": undecided, "twins_detected": sum(t["twin"][1] for t in traces)}
    res.stdout = ""


def validate_traces(ctx: Ctx, traces, floats, nis_den, alphas, tag, workers):
    res = start_trace_validation(ctx, traces, nis_den, alphas, tag, workers)()
    finish_trace_validation(ctx, res, traces, floats, nis_den, alphas, tag)


def plan_impl_to_spec(ctx: Ctx, rng):
    """Record runs of the real detectors now (main thread); TLC validates them later."""
    shards = [(4, 300, 30)] if ctx.quick else [(1, 1500, 50), (4, 1500, 50), (10, 1500, 50)]
    alphas = ALPHAS_WIDE
    plan = []
    for s, (nis_den, count, max_len) in enumerate(shards):
        nrng = np.random.default_rng([ctx.seed, 17, s])
        traces, floats = gen_traces(ctx, rng, nrng, count, nis_den, alphas, max_len, dense=True)
        tag = f"den{nis_den}"
        go = start_trace_validation(ctx, traces, nis_den, alphas, tag, workers=4 if ctx.quick else min(8, ctx.cpus))

        def finish(res, traces=traces, floats=floats, nis_den=nis_den, tag=tag):
            finish_trace_validation(ctx, res, traces, floats, nis_den, alphas, tag)

        plan.append((f"traces_{tag}", go, finish))
    return plan


def boundary_probe(ctx: Ctx):
    """The seam itself: 'reaches' means >=.  Detectors.tla's Verdict is det = (bound <= metric); on the
    rational lattice equality with the transcendental bound never occurs, so the driver looks for inputs
    whose REPORTED float metric equals the float bound bit for bit (first call of the standard / sliding
    detector, dof = dimension) and for inputs one representable value below it."""
    from scipy.stats import chi2
    st = {"equal": 0, "below": 0}
    for kind in ("standard", "sliding"):
        for alpha in (0.05, 0.01, 0.1, 0.5, 0.2, 0.001, 0.3, 0.9):
            for d in (1, 2, 3, 6):
                b = float(chi2.isf(alpha, d))
                targets = {"equal": b, "below": float(np.nextafter(b, 0.0))}
                x0 = math.sqrt(b)
                cands = [x0]
                for _ in range(6):
                    cands = [float(np.nextafter(cands[0], 0.0)), *cands, float(np.nextafter(cands[-1], np.inf))]
                for what, target in targets.items():
                    for x in cands:
                        r = np.zeros(d)
                        r[-1] = x
                        det = make_detector(kind, 3, 0, 1, alpha)
                        got = bool(det(r, np.eye(d)))
                        if det.metric is None or float(det.metric) != target:
                            continue
                        st[what] += 1
                        ctx.case(("boundary", kind, alpha, d, what))
                        if got != (what == "equal"):
                            ctx.violation(f"{kind}-boundary-{what}", f"{CLS[kind]} reported metric {det.metric!r} with chi2.isf({alpha}, {d}) = {b!r} "
                                          f"and returned {got}", {"boundary": {"kind": kind, "threshold": alpha, "dim": d, "x": x, "what": what}})
                        break
    ctx.extra["boundary_probe"] = st
    if st["equal"] < 5:
        raise tlc.MachineryError(f"boundary probe found only {st['equal']} inputs whose metric equals the bound exactly")


def scale_probe(ctx: Ctx):
    """Clause nis-not-scale-invariant, on the real detectors: one short history (dimension changing
    2..6, strongly correlated covariances, innovations off the principal axes) is fed to fresh
    detectors in several measurement units; every reported metric must be the same in all units
    (and equal to the statistic of the posed NIS values, which are exact at unit scale)."""
    rng = np.random.default_rng([ctx.seed, 4242])
    n = 0
    for kind, w, p, q in (("standard", 0, 0, 1), ("sliding", 3, 0, 1), ("fading", 0, 3, 5)):
        for rho in RHOS:
            dims = [int(x) for x in rng.permutation([2, 3, 4, 5, 6])]
            hist = []
            for d in dims:
                s_mat = correlated_cov(rng, d, rho)
                nis = float(rng.integers(1, 6 * d))
                hist.append((nis, _scale_to_nis(rng, s_mat, nis), s_mat))
            ref = None
            for c in SCALES:
                det = make_detector(kind, w, p, q, 0.05)
                mets, dets = [], []
                for nis, r, s_mat in hist:
                    dets.append(bool(det(r * c, s_mat * (c * c))))
                    mets.append(float(det.metric) if det.metric is not None else float("nan"))
                n += 1
                ctx.case(("scale", kind, rho, tuple(dims), c))
                if ref is None:
                    ref = (mets, dets)
                    continue
                bad = [j for j in range(len(hist)) if not close(mets[j], ref[0][j]) or dets[j] != ref[1][j]]
                if bad:
                    j = bad[0]
                    ctx.violation(f"{kind}-nis-not-scale-invariant",
                                  f"{CLS[kind]}: the same history in units scaled by {c:g} reports metric {mets[j]!r} at call {j + 1} "
                                  f"instead of {ref[0][j]!r} (rho {rho}, dim {dims[j]})",
                                  {"scale": {"kind": kind, "w": w, "delta": [p, q], "rho": rho, "dims": dims, "c": c, "call": j + 1,
                                             "residual": (hist[j][1] * c).tolist(), "covariance": (hist[j][2] * c * c).tolist(),
                                             "posed_nis": hist[j][0]}})
    ctx.extra["scale_probe_runs"] = n


def replay_qf2(ctx: Ctx, res):
    """spec -> impl for the quadratic form itself: every point of the 2x2 lattice of Detectors.tla (exact
    rational value from TLC) through the real chiSquareQuadraticForm in five measurement units."""
    from resonaate.physics.statistics import chiSquareQuadraticForm
    pts = res.tagged("QF2")
    if len(pts) < 1000:
        raise tlc.MachineryError(f"Detectors.tla emitted only {len(pts)} QF2 lattice points")
    n = 0
    for nu, cov, (qn, qd) in pts:
        exp = qn / qd
        ctx.case(("qf2", tuple(nu), tuple(cov)), nontrivial=cov[1] != 0 and nu[0] * nu[1] != 0)
        ok_unit = None
        for c in SCALES:
            r = np.array(nu, dtype=float) * c
            s_mat = np.array([[cov[0], cov[1]], [cov[1], cov[2]]], dtype=float) * (c * c)
            got = chiSquareQuadraticForm(r, s_mat)
            n += 1
            good = close(got, exp)
            if ok_unit is None:
                ok_unit = good
            if not good:
                sig = "quadratic-form-not-scale-invariant" if ok_unit else "quadratic-form-value"
                ctx.violation(sig, f"chiSquareQuadraticForm = {got!r} for nu = {nu}, S = {cov} in units scaled by {c:g}; exact value {qn}/{qd}",
                              {"qf2": {"nu": nu, "S": cov, "c": c, "expected": [qn, qd], "got": repr(got)}})
                break
    ctx.traces_validated += len(pts)
    ctx.extra["qf2_lattice"] = {"points": len(pts), "real_evaluations": n}


def plan_deep(ctx: Ctx):
    """Spec-level theorems over deeper histories on the merged state space (thorough only)."""
    cfg_text = (tlc.SPEC_DIR / "Detectors_deep.cfg").read_text()
    table = json.dumps(bound_table(ALPHAS_SMALL, dof_lattice(6, 3, 4, DELTAS_QUICK)))
    variants = [("standard+sliding, length 6", cfg_text),
                ("fading, length 4", re.sub(r"MaxLen = \d+", "MaxLen = 4", re.sub(r"Kinds = \{[^}]*\}", 'Kinds = {"fading"}', cfg_text)))]
    plan = []
    for r, (what, text) in enumerate(variants):
        d = ctx.sub(f"deep{r}")
        (d / "bound.json").write_text(table)

        def go(text=text, d=d):
            return tlc.run_tlc("Detectors", text + "\n", d, workers=min(8, ctx.cpus), env={"BOUND_FILE": "bound.json"}, timeout=3000)

        def finish(res, what=what):
            tlc.require_ok(res, f"Detectors deep {what}")
            ctx.add_tlc(res, f"Detectors.tla spec-level theorems, merged states ({what})")
            for inv, states in res.invariant_violations:
                raise tlc.MachineryError(f"Detectors.tla theorem {inv} fails at spec level:\n" + "\n".join(states[-1:]))

        plan.append((f"deep{r}", go, finish))
    return plan


def run(ctx: Ctx):
    import time
    from .. import sched
    sched.install()
    import resonaate.estimation.maneuver_detection  # noqa: F401  (import before the pool forks)
    import resonaate.estimation.sequential_filter  # noqa: F401
    rng = random.Random(ctx.seed * 7919 + 1717)
    ctx.rule = ("spec->impl: every history TLC enumerates (alphabet and lengths in Detectors_<tier>.cfg: NIS numerators x dimensions, "
                "windows 1..4, delta 1/2 and 4/5, 3 thresholds) and every -simulate history (length 30/50, dims 1..8, windows 1..10, "
                "6 deltas, 5-6 thresholds); one case per (detector config, history), each replayed at every threshold; "
                "non-trivial = some NIS non-zero. "
                "impl->spec: random runs of the real detectors through checkManeuverDetection, per-step dimension 1..8, "
                "NIS = n/NisDen drawn around the chi-square bound; non-trivial = dimension varies within the run")
    ctx.assumptions = [
        "chi-square bound: scipy.stats.chi2.isf evaluated by the harness at the spec's exact dof (trusted base; the detector reaches the same library)",
        f"float metric equals the exact rational statistic to {REL} relative (+1e-12 absolute)",
        f"steps whose exact statistic is within {REL} (relative to max(1, bound)) of the bound are excluded from the detect comparison",
        f"inside TLC the bound is round(bound*{BOUND_DEN})/{BOUND_DEN}; statistics within 10/{BOUND_DEN} of it are undecided (both answers accepted) "
        f"and the recorded metric is matched to 1/{MQ} (the driver then matches it to {REL} against the rational TLC prints)",
        "fading-memory dof uses the running average dimension over the whole run, as the code documents (DESIGN.md 7-5)",
        "inputs are residual vectors / covariances whose quadratic form equals the posed NIS to 2e-13 relative (identity-scaled, dense positive definite, "
        "or strongly correlated |rho| 0.5..0.99 in units scaled by 1, 1e-3, 3e-5, 1e-6, 1e4; cond < 1e4)",
    ]
    # TLC runs are sub-processes started from a small thread pool; everything that touches ctx
    # or the real detectors happens in this thread, in a fixed order.
    phases = ctx.extra.setdefault("phase_wall_s", {})
    t0 = time.time()
    with ThreadPoolExecutor(3 if ctx.quick else 4) as ex:
        plan = plan_exhaustive(ctx) + plan_simulation(ctx)
        futs = [(label, ex.submit(go), finish) for label, go, finish in plan]
        boundary_probe(ctx)
        scale_probe(ctx)
        more = plan_impl_to_spec(ctx, rng)
        phases["record_real_runs"] = round(time.time() - t0, 1)
        if not ctx.quick:
            more += plan_deep(ctx)
        futs += [(label, ex.submit(go), finish) for label, go, finish in more]
        results = []
        for label, fut, finish in futs:
            results.append((label, fut.result(), finish))
            phases[f"tlc_done_{label}"] = round(time.time() - t0, 1)
            if ctx.quick:                     # single-process replay: overlap it with the remaining TLC runs
                t1 = time.time()
                finish(results[-1][1])
                phases[f"finish_{label}"] = round(time.time() - t1, 1)
    if not ctx.quick:                         # worker pool forks only after every TLC thread has ended
        for label, res, finish in results:
            t1 = time.time()
            finish(res)
            phases[f"finish_{label}"] = round(time.time() - t1, 1)


def replay(ctx: Ctx, rp: dict):
    """Re-run one stored failing input against the current tree."""
    from .. import sched
    sched.install()
    r = rp["replay"]
    if "boundary" in r or "scale" in r:
        boundary_probe(ctx)
        scale_probe(ctx)
        ctx.traces_validated += 1
        return
    if "qf2" in r:
        from resonaate.physics.statistics import chiSquareQuadraticForm
        x = r["qf2"]
        ctx.case(("replay", json.dumps(x)))
        ctx.case(("replay2", "qf2"))
        ctx.traces_validated += 1
        for c in SCALES:
            got = chiSquareQuadraticForm(np.array(x["nu"], dtype=float) * c,
                                         np.array([[x["S"][0], x["S"][1]], [x["S"][1], x["S"][2]]], dtype=float) * (c * c))
            if not close(got, x["expected"][0] / x["expected"][1]):
                ctx.violation(rp.get("signature", "quadratic-form-value"), f"stored lattice point still wrong in units scaled by {c:g}", r)
                break
        return
    if "trace" in r:
        tr = r["trace"]
        nis_den = r.get("nis_den", 4)
        alphas = ALPHAS_WIDE
        det = make_detector(tr["kind"], tr["w"], tr["p"], tr["q"], alphas[tr["a"] - 1])
        nrng = np.random.default_rng([ctx.seed, 99])
        steps, mets = [], []
        twin = None                 # the stored steps may be a prefix of the recorded run: make a fresh twin
        for j, s in enumerate(tr["steps"]):
            rr, s_mat = make_input(nrng, s[0] / nis_den, s[1], True)
            if j == len(tr["steps"]) - 1:
                got2, _, _ = _filter_call(copy.deepcopy(det), rr * 2.0, s_mat)
                twin = [4 * s[0], int(got2)]
            got, flag, _ = _filter_call(det, rr, s_mat)
            steps.append([s[0], s[1], int(got), quantise(det.metric), flag])
            mets.append(det.metric)
        new = dict(tr, steps=steps, twin=twin)
        ctx.case(("replay", json.dumps(new)))
        ctx.case(("replay2", tr["kind"]))
        validate_traces(ctx, [new], [mets], nis_den, alphas, "replay", workers=2)
        return
    if "history" in r:
        kind, w, (p, q), alpha, nis_den = r["kind"], r["w"], r["delta"], r["threshold"], r.get("nis_den", 1)
        hist = [tuple(x) for x in r["history"]]
        table = bound_table([alpha], dof_lattice(len(hist), max(d for _, d in hist), max(w, 1), [(p, q)] if kind == "fading" else []))
        cfg = (f'SPECIFICATION TraceSpec\nCONSTANTS Kinds = {{"{kind}"}} Windows = {{1}} NAlpha = 1 Bank = FALSE NisVals = {{0}} NisDen = {nis_den} '
               f'Dims = {{1}} MaxLen = 50 FadeLen = 50 Trim = FALSE KeepHist = FALSE\nCONSTANT Deltas <- DeltasQuick\n'
               'INVARIANT DetectExplained\nINVARIANT MetricExplained\nINVARIANT EmitT\n')
        det = make_detector(kind, w, p, q, alpha)
        nrng = np.random.default_rng([ctx.seed, 98])
        steps, mets = [], []
        for n, d in hist:
            rr, s_mat = make_input(nrng, n / nis_den, d, True)
            got, flag, _ = _filter_call(det, rr, s_mat)
            steps.append([n, d, int(got), quantise(det.metric), flag])
            mets.append(det.metric)
        tr = {"kind": kind, "w": w, "p": p, "q": q, "a": 1, "steps": steps, "twin": [steps[-1][0], steps[-1][2]]}
        dd = ctx.sub("replay")
        (dd / "traces.json").write_text(json.dumps([tr]))
        (dd / "bound.json").write_text(json.dumps(table))
        res = tlc.require_ok(tlc.run_tlc("TraceDetectors", cfg, dd, workers=1, cont=True, timeout=600,
                                         env={"TRACE_FILE": "traces.json", "BOUND_FILE": "bound.json"}))
        ctx.add_tlc(res, "replay of one stored history")
        ctx.case(("replay", kind, w, p, q, alpha, tuple(hist)))
        ctx.case(("replay2", kind))
        ctx.traces_validated += 1
        for inv, _states in res.invariant_violations:
            ctx.violation(rp.get("signature", f"{kind}-{inv}"), f"stored history still violates {inv}", r)
        for i, k, num, den, _dn, _dd, _und in res.tagged("TSTEP"):
            if not close(mets[k - 1], float(Fraction(big(num), big(den)))):
                ctx.violation(rp.get("signature", f"{kind}-metric"), f"stored history: metric differs at call {k}", r)
        return
    return run(ctx)
