"""Shared machinery of the G01 driver (spec/KeyValueStore.tla).

* projection real value <-> abstract value ``{"t","a","l","m"}`` (the spec's value records), tokens for atoms
  (database paths, serialized EventRecords, PolarMotion / PrecessionNutation objects), record names;
* read-back / installation of the actor's dictionary (the stand-in keeps the actor object in-process);
* ``Recorder``: a wrapper put around ``KeyValueStore.submitTransaction`` FROM OUTSIDE that logs every transaction
  (class -> name, key, argument projection, reply or error projection, dictionary afterwards) together with the
  call it belongs to (found on the Python stack: setDBPath / clearDBPath / getDBConnection / pushEvent /
  logAndFlushEvents / CachedReductionParams.build) and whether that call completed with it;
* ``ClientThreads``: every client of a behaviour is a Python thread that runs the REAL call; the wrapper parks the
  thread in front of each transaction and the driver grants exactly one transaction at a time, so an interleaving of
  transactions chosen by TLC (or by a seeded scheduler) is reproduced exactly and deterministically.
"""
from __future__ import annotations

import json
import logging
import sys
import threading
import time
from datetime import datetime
from enum import Enum

import numpy as np

from .. import sched, tlc

sched.install()
logging.disable(logging.CRITICAL)

from resonaate.data import db_connection as dbc  # noqa: E402
from resonaate.dynamics.integration_events import event_stack as es  # noqa: E402
from resonaate.parallel.key_value_store import KeyValueStore as KVS  # noqa: E402
from resonaate.parallel.key_value_store import cache_transactions as ct  # noqa: E402
from resonaate.parallel.key_value_store.append_transaction import AppendTransaction  # noqa: E402
from resonaate.parallel.key_value_store.dump_transaction import DumpTransaction  # noqa: E402
from resonaate.parallel.key_value_store.flush_transaction import FlushTransaction  # noqa: E402
from resonaate.parallel.key_value_store.get_transaction import GetTransaction  # noqa: E402
from resonaate.parallel.key_value_store.pop_transaction import PopTransaction  # noqa: E402
from resonaate.parallel.key_value_store.set_transaction import SetTransaction  # noqa: E402
from resonaate.physics.transforms import reductions as red  # noqa: E402

FIXED_KEYS = ["db_path", "event_stack", "fk5_polar_motion", "fk5_prec_nut"]
PERFORMER = 7
ABSENT = {"t": "absent", "a": "", "l": [], "m": 0}
NONE = {"t": "none", "a": "", "l": [], "m": 0}
NOARG = {"v": NONE, "i": 0, "r": "", "clear": False, "m": 0}
TX_NAME = {SetTransaction: "set", GetTransaction: "get", AppendTransaction: "append", PopTransaction: "pop",
           FlushTransaction: "flush", DumpTransaction: "dump", dbc.ExclusiveSet: "xset", dbc._GetDBConnection: "getconn",
           ct.InitCache: "init", ct.CachePut: "put", ct.CacheGrab: "grab"}
# the calls of the users of the store, recognised by (file, function) on the Python stack
CALLS = {("db_connection.py", "setDBPath"): "setDBPath", ("db_connection.py", "clearDBPath"): "clearDBPath",
         ("db_connection.py", "getDBConnection"): "getDBConnection", ("event_stack.py", "pushEvent"): "pushEvent",
         ("event_stack.py", "logAndFlushEvents"): "logAndFlush", ("reductions.py", "build"): "reduction"}
MULTI = ("logAndFlush", "reduction")
# instants of the reduction protocol: spec record names <-> real datetimes
TIMES = {("d1", "m1"): datetime(2018, 12, 1, 12, 0, 17), ("d1", "m2"): datetime(2018, 12, 1, 12, 1, 43),
         ("d2", "m3"): datetime(2018, 12, 2, 0, 0, 5)}


def atom(a):
    return {"t": "atom", "a": a, "l": [], "m": 0}


class Tokens:
    """Atoms / record names of the spec <-> real Python values."""

    def __init__(self, scratch):
        self.paths = {"p1": "sqlite://", "p2": f"sqlite:///{scratch}/g01_p2.sqlite3"}
        self.rpaths = {v: k for k, v in self.paths.items()}
        self.rec = {}
        self.pm, self.pn = {}, {}
        for (d, m), t in TIMES.items():
            self.rec[d] = t.date().isoformat()
            tm = t.replace(second=0, microsecond=0)
            self.rec[m] = tm.isoformat()
        self.rrec = {v: k for k, v in self.rec.items()}
        self._strings = {}

    def candidates(self):
        """Independently computed PolarMotion / PrecessionNutation objects for every record name."""
        if self.pm:
            return
        from datetime import timedelta
        for (d, m), t in TIMES.items():
            eops = red.getEarthOrientationParameters(t.date())
            self.pm[d] = red.PolarMotion(eops.x_p, eops.y_p)
            tm = t.replace(second=0, microsecond=0)
            self.pn[m] = red.PrecessionNutation(tm + timedelta(seconds=30), eops.delta_atomic_time, eops.d_delta_psi,
                                                eops.d_delta_eps)
        for fam, attr in ((self.pm, "rot_w"), (self.pn, "rot_pn")):
            ks = sorted(fam)
            for i, a in enumerate(ks):
                for b in ks[i + 1:]:
                    if np.array_equal(getattr(fam[a], attr), getattr(fam[b], attr)):
                        raise tlc.MachineryError(f"reduction candidates {a} and {b} are indistinguishable")

    def real(self, a: str):
        if a in self.paths:
            return self.paths[a]
        if a.startswith("pm:"):
            self.candidates()
            return self.pm[a[3:]]
        if a.startswith("pn:"):
            self.candidates()
            return self.pn[a[3:]]
        if a in self._strings:
            return self._strings[a]
        return es.EventRecord(a, PERFORMER).serialize()

    def token(self, x) -> str:
        if isinstance(x, str):
            if x in self.rpaths:
                return self.rpaths[x]
            try:
                d = json.loads(x)
                if isinstance(d, dict) and set(d) == {"event_type", "performer"}:
                    tok = d["event_type"] if d["performer"] == PERFORMER else f"ev:{d['event_type']}:{d['performer']}"
                    if es.EventRecord(d["event_type"], d["performer"]).serialize() == x:
                        if d["performer"] != PERFORMER:
                            self._strings[tok] = x
                        return tok
            except ValueError:
                pass
            tok = "str:" + x
            self._strings[tok] = x
            return tok
        if isinstance(x, red.PolarMotion):
            self.candidates()
            for d, c in self.pm.items():
                if np.array_equal(c.rot_w, x.rot_w):
                    return "pm:" + d
            return "pm:?"
        if isinstance(x, red.PrecessionNutation):
            self.candidates()
            for m, c in self.pn.items():
                if np.array_equal(c.rot_pn, x.rot_pn) and c.eq_equinox == x.eq_equinox:
                    return "pn:" + m
            return "pn:?"
        raise tlc.MachineryError(f"no abstract value for {type(x).__name__}: {x!r:.80}")

    def rec_real(self, r):
        return self.rec.get(r, r)

    def rec_token(self, s):
        return self.rrec.get(s, s)


# ------------------------------------------------------------------ the actor's dictionary
def plain_key(k):
    """reductions.py addresses its caches with str-valued Enum members."""
    return k.value if isinstance(k, Enum) else k


def actor_dict() -> dict:
    return KVS.getClient()._handle._obj._key_value_store


def proj_value(x, tok: Tokens):
    """(abstract value, undecided) - undecided when two cache stamps tie (the recency order is then not observable)."""
    if x is None:
        return NONE, False
    if isinstance(x, ct.Cache):
        names = list(x._contents)
        if set(names) != set(x._last_accessed):
            return {"t": "cache", "a": "corrupt-stamps", "l": [], "m": x.max_size}, False
        stamps = [x._last_accessed[n] for n in names]
        order = sorted(names, key=lambda n: x._last_accessed[n])
        return ({"t": "cache", "a": "", "m": x.max_size, "l": [[tok.rec_token(n), tok.token(x._contents[n])] for n in order]},
                len(set(stamps)) != len(stamps))
    if isinstance(x, list):
        return {"t": "list", "a": "", "l": [tok.token(e) for e in x], "m": 0}, False
    return atom(tok.token(x)), False


def proj_store(tok: Tokens, keys=None):
    d = actor_dict()
    out, undecided = {}, False
    for k, v in d.items():
        out[plain_key(k)], u = proj_value(v, tok)
        undecided |= u
    for k in keys or ():
        out.setdefault(k, ABSENT)
    return out, undecided


def norm_store(s) -> dict:
    """Spec store as printed by Compact() (absent keys omitted; an empty function prints as [])."""
    return dict(s) if isinstance(s, dict) else {}


def install_store(spec_store: dict, tok: Tokens) -> None:
    d = actor_dict()
    d.clear()
    for k, v in norm_store(spec_store).items():
        if v["t"] == "none":
            d[k] = None
        elif v["t"] == "atom":
            d[k] = tok.real(v["a"])
        elif v["t"] == "list":
            d[k] = [tok.real(a) for a in v["l"]]
        elif v["t"] == "cache":
            c = ct.Cache(k, max_size=v["m"])
            base = time.time_ns() - 1_000_000 * (len(v["l"]) + 1)
            for i, (r, a) in enumerate(v["l"]):
                c._contents[tok.rec_real(r)] = tok.real(a)
                c._last_accessed[tok.rec_real(r)] = base + 1000 * i
            d[k] = c
        else:
            raise tlc.MachineryError(f"cannot install {v}")


# ------------------------------------------------------------------ recorder
class _Abort(BaseException):
    """Unwinds a parked client thread at the end of a behaviour."""


class Runaway(RuntimeError):
    """One call issued an absurd number of transactions (e.g. a flush loop that never empties the stack)."""


class _Shim:
    """Stands in for the `logging` module inside event_stack.py: captures what logAndFlushEvents reports."""

    def __init__(self):
        self.lines = threading.local()

    def getLogger(self, name=None):  # noqa: N802
        return self

    def info(self, msg, *a, **k):
        getattr(self.lines, "buf", []).append(("info", msg))

    def debug(self, msg, *a, **k):
        getattr(self.lines, "buf", []).append(("debug", msg))

    warning = error = info


class Recorder:
    """Wraps KeyValueStore.submitTransaction (and the multi-transaction entry points) from outside."""

    def __init__(self, tok: Tokens, keys=None):
        self.tok = tok
        self.keys = list(keys or FIXED_KEYS)
        self.records = []
        self.local = threading.local()
        self.gate = None          # ClientThreads when client threads are used
        self.client_of = None     # callable -> client name for unthreaded recording
        self._orig = None
        self.reports = []         # (client, [popped payload tokens], reported {event_type: [performers]})
        self.results = []         # (client, op, outcome, result object) of completed multi-transaction calls
        self.with_store = True
        self.clear_objects = False

    # -- installation
    def install(self):
        rec = self
        self._orig = KVS.__dict__["submitTransaction"]
        orig = self._orig.__func__

        def submit(cls, transaction):
            return rec._submit(lambda: orig(cls, transaction), transaction)

        KVS.submitTransaction = classmethod(submit)
        self._orig_flush = es.EventStack.__dict__["logAndFlushEvents"]
        self._orig_build = red.CachedReductionParams.__dict__["build"]
        self._orig_set = dbc.setDBPath
        self._orig_logging = es.logging
        self.shim = _Shim()
        es.logging = self.shim

        def flush(cls):
            return rec._call("logAndFlush", lambda: rec._orig_flush.__func__(cls))

        def build(cls, utc_date, eops=None):
            return rec._call("reduction", lambda: rec._orig_build.__func__(cls, utc_date, eops))

        def set_db_path(path):
            return rec._call("setDBPath", lambda: rec._orig_set(path))

        es.EventStack.logAndFlushEvents = classmethod(flush)
        red.CachedReductionParams.build = classmethod(build)
        import resonaate.data as rdata
        dbc.setDBPath = set_db_path
        rdata.setDBPath = set_db_path
        return self

    def uninstall(self):
        import resonaate.data as rdata
        KVS.submitTransaction = self._orig
        es.EventStack.logAndFlushEvents = self._orig_flush
        red.CachedReductionParams.build = self._orig_build
        dbc.setDBPath = self._orig_set
        rdata.setDBPath = self._orig_set
        es.logging = self._orig_logging

    # -- a wrapped entry point: notes completion and outcome of the call on its last transaction
    def _call(self, op, fn):
        st = self.local
        outer = getattr(st, "call", None)
        st.call = {"op": op, "recs": []}
        if op == "logAndFlush":
            self.shim.lines.buf = []
        outcome, result = "ok", None
        try:
            result = fn()
            return result
        except _Abort:
            outcome = "aborted"
            raise
        except Exception as ex:  # noqa: BLE001
            outcome = type(ex).__name__
            raise
        finally:
            call = st.call
            st.call = outer
            if call["recs"] and outcome != "aborted":
                call["recs"][-1]["done"] = True
                call["recs"][-1]["opres"] = outcome
            if outcome != "aborted":
                who = call["recs"][-1]["c"] if call["recs"] else self._client()
                if op == "logAndFlush":
                    popped = [r["res"]["v"]["a"] for r in call["recs"] if r["res"]["k"] == "value" and r["res"]["v"]["t"] == "atom"]
                    self.reports.append((who, popped, list(self.shim.lines.buf), outcome))
                self.results.append((who, op, outcome, result, getattr(st, "loc", {"d": "", "m": ""})))

    def _client(self):
        c = getattr(self.local, "client", None)
        if c is not None:
            return c
        return self.client_of() if self.client_of else "main"

    def _op_from_stack(self):
        f = sys._getframe(3)
        while f is not None:
            key = (f.f_code.co_filename.rsplit("/", 1)[-1], f.f_code.co_name)
            if key in CALLS:
                return CALLS[key]
            f = f.f_back
        return None

    def _arg(self, t, name):
        tok = self.tok
        a = dict(NOARG)
        if name in ("set", "xset"):
            a["v"], _ = proj_value(t.request_payload, tok)
        elif name == "append":
            a["v"] = atom(tok.token(t.request_payload))
        elif name == "pop":
            a["i"] = int(t.index)
        elif name == "init":
            a["clear"], a["m"] = bool(t.clear_existing), int(t.max_size)
        elif name == "put":
            a["r"], a["v"] = tok.rec_token(t.record_name), atom(tok.token(t.record_value))
        elif name == "grab":
            a["r"] = tok.rec_token(t.record_name)
        return a

    def _reply(self, t, name, value, error):
        tok = self.tok
        if error is not None:
            return {"k": "error", "v": NONE, "e": type(error).__name__}
        if name == "flush":
            return {"k": "empty" if value == {} else "nonempty", "v": NONE, "e": ""}
        if name == "dump":
            return {"k": "dumped" if value is None else "bad", "v": NONE, "e": ""}
        if name == "init":
            ok = value == {"cache_name": t.cache_name, "clear_existing": t.clear_existing, "max_size": t.max_size}
            return {"k": "echo" if ok else "bad-echo", "v": NONE, "e": ""}
        if name == "put":
            ok = (isinstance(value, dict) and set(value) == {"cache_name", "record_name", "record_value"}
                  and value["cache_name"] == t.cache_name and value["record_name"] == t.record_name
                  and proj_value(value["record_value"], tok)[0] == proj_value(t.record_value, tok)[0])
            return {"k": "echo" if ok else "bad-echo", "v": NONE, "e": ""}
        if name == "getconn":
            # the reply is the shared database interface of the path that is set; identify it by its engine URL,
            # and the documented sharing (same path -> same instance) by object identity
            url = str(value.engine.url) if hasattr(value, "engine") else repr(value)
            seen = self.__dict__.setdefault("_dbs", {})
            if seen.setdefault(url, value) is not value:
                return {"k": "value", "v": atom("second-instance-of:" + tok.token(url)), "e": ""}
            return {"k": "value", "v": atom(tok.token(url)), "e": ""}
        return {"k": "value", "v": proj_value(value, tok)[0], "e": ""}

    def _submit(self, run, t):
        name = TX_NAME.get(type(t))
        if name is None:
            raise tlc.MachineryError(f"unknown transaction class {type(t).__name__}")
        st = self.local
        call = getattr(st, "call", None)
        op = call["op"] if call else (self._op_from_stack() or name)
        if call is not None and len(call["recs"]) > 5000:
            raise Runaway(f"{op}: more than 5000 transactions in one call")
        if self.gate is not None and getattr(st, "ctx", None) is not None:
            self.gate.park(st.ctx)          # wait until the driver grants this client one transaction
        key = plain_key(t.key) if t.key is not None else ""
        arg = self._arg(t, name)
        value, error = None, None
        try:
            value = run()
        except _Abort:
            raise
        except Exception as ex:  # noqa: BLE001
            error = ex
        rec = {"c": self._client(), "op": op, "tx": name, "key": key, "arg": arg, "res": self._reply(t, name, value, error),
               "done": op not in MULTI, "opres": "", "loc": getattr(st, "loc", {"d": "", "m": ""})}
        if op not in MULTI:
            rec["opres"] = "ok" if error is None else type(error).__name__
        if self.with_store:
            rec["store"], rec["undecided"] = proj_store(self.tok, self.keys)
        if call is not None:
            call["recs"].append(rec)
        self.records.append(rec)
        if self.clear_objects and len(sched._OBJECTS) > 2000:
            sched._OBJECTS.clear()      # (never while a scenario holds references to pending job results)
        if error is not None:
            raise error
        return value


# ------------------------------------------------------------------ client threads
class _Ctx:
    def __init__(self, name):
        self.name = name
        self.go = threading.Semaphore(0)
        self.parked = threading.Semaphore(0)
        self.abort = False
        self.finished = False
        self.outcome = None
        self.thread = None


class ClientThreads:
    """One Python thread per client call; exactly one thread runs at any time."""

    def __init__(self, recorder: Recorder):
        self.rec = recorder
        recorder.gate = self
        self.active = {}

    def park(self, ctx):
        ctx.parked.release()
        ctx.go.acquire()
        if ctx.abort:
            raise _Abort()

    def busy(self, c):
        return c in self.active and not self.active[c].finished

    def start(self, c, fn, loc=None):
        """Begin call fn() as client c; returns when it stands in front of its first transaction."""
        ctx = _Ctx(c)
        rec = self.rec

        def body():
            rec.local.client = c
            rec.local.ctx = ctx
            rec.local.loc = loc or {"d": "", "m": ""}
            try:
                fn()
                ctx.outcome = "ok"
            except _Abort:
                ctx.outcome = "aborted"
            except Exception as ex:  # noqa: BLE001
                ctx.outcome = type(ex).__name__
            finally:
                ctx.finished = True
                ctx.parked.release()

        ctx.thread = threading.Thread(target=body, daemon=True)
        self.active[c] = ctx
        ctx.thread.start()
        if not ctx.parked.acquire(timeout=60):
            raise tlc.MachineryError(f"client {c} did not reach a transaction")
        return ctx

    def step(self, c):
        """Grant client c one transaction; returns (record, call finished?, outcome)."""
        ctx = self.active[c]
        n = len(self.rec.records)
        ctx.go.release()
        if not ctx.parked.acquire(timeout=60):
            raise tlc.MachineryError(f"client {c} hangs inside a transaction")
        recs = self.rec.records[n:]
        if ctx.finished:
            ctx.thread.join()
            del self.active[c]
        return (recs[0] if recs else None), ctx.finished, ctx.outcome, len(recs)

    def abort_all(self):
        for c, ctx in list(self.active.items()):
            if not ctx.finished:
                ctx.abort = True
                ctx.go.release()
                ctx.parked.acquire(timeout=60)
            ctx.thread.join(timeout=60)
            del self.active[c]


# ------------------------------------------------------------------ spec call -> real call
def make_call(tok: Tokens, op: str, key: str, arg: dict, loc: dict, scratch):
    """The real call for one `last` record of the spec (arguments mapped through the tokens)."""
    a = arg
    if op == "set":
        v = a["v"]
        val = None if v["t"] == "none" else tok.real(v["a"]) if v["t"] == "atom" else [tok.real(x) for x in v["l"]]
        return lambda: KVS.setValue(key, val)
    if op == "get":
        return lambda: KVS.getValue(key)
    if op == "append":
        return lambda: KVS.appendValue(key, tok.real(a["v"]["a"]))
    if op == "pop":
        return lambda: KVS.popValue(key, a["i"])
    if op == "flush":
        return lambda: KVS.flush()
    if op == "dump":
        return lambda: KVS.dump(str(scratch / "dump.json"))
    if op == "xset":
        return lambda: KVS.submitTransaction(dbc.ExclusiveSet(key, tok.real(a["v"]["a"])))
    if op == "init":
        return lambda: KVS.initCache(key, a["clear"], a["m"])
    if op == "put":
        return lambda: KVS.cachePut(key, tok.rec_real(a["r"]), tok.real(a["v"]["a"]))
    if op == "grab":
        return lambda: KVS.cacheGrab(key, tok.rec_real(a["r"]))
    if op == "setDBPath":
        return lambda: dbc.setDBPath(tok.real(a["v"]["a"]))
    if op == "clearDBPath":
        return lambda: dbc.clearDBPath()
    if op == "getDBConnection":
        return lambda: dbc.getDBConnection()
    if op == "pushEvent":
        return lambda: es.EventStack.pushEvent(es.EventRecord(a["v"]["a"], PERFORMER))
    if op == "logAndFlush":
        return lambda: es.EventStack.logAndFlushEvents()
    if op == "reduction":
        t = TIMES[(loc["d"], loc["m"])]
        return lambda: red.CachedReductionParams.build(t)
    raise tlc.MachineryError(f"no real call for {op}")


def check_report(popped, lines):
    """What logAndFlushEvents reports (per event type: count and performers) against what it popped."""
    want = {}
    for p in popped:
        want.setdefault(p, []).append(PERFORMER)
    got_n, got_p, cur = {}, {}, None
    for lvl, msg in lines:
        if lvl == "info" and msg.endswith(" performed.") and " events of type " in msg:
            n, _, rest = msg.partition(" events of type ")
            cur = rest[: -len(" performed.")]
            got_n[cur] = int(n)
        elif lvl == "debug" and msg.startswith("Performers: ") and cur is not None:
            got_p[cur] = json.loads(msg[len("Performers: "):])
    return got_n == {k: len(v) for k, v in want.items()} and got_p == want
