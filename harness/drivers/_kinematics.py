"""Shared machinery of the C03 / C15 drivers (spec/Kinematics.tla).

* cfg text + TLC runs of Kinematics.tla (behaviours, spec-level theorems, the as-coded
  deviation, action coverage);
* `ExactLaw`: a `Celestial` subclass whose derivative is a constant acceleration plus
  `self.finite_thrust` (added the way SpecialPerturbations._differentialEquation adds it),
  so that the REAL Celestial.propagate / propagateBulk / _prepEvents / _applyEvents and
  the REAL ScheduledFiniteBurn / ScheduledFiniteManeuver are exercised while the result is
  known exactly (RK45 and DOP853 integrate a quadratic to rounding);
* embedding of the spec's one-coordinate integer states into 6-vectors and back.
"""
from __future__ import annotations

import json
import math
import random
from functools import partial

import numpy as np

from .. import sched, tlc

sched.install()

from resonaate.dynamics.celestial import Celestial  # noqa: E402
from resonaate.dynamics.integration_events.finite_thrust import (  # noqa: E402
    ScheduledFiniteBurn, ScheduledFiniteManeuver, eciBurn, ntwBurn, planeChangeThrust, spiralThrust)
from resonaate.physics.time.stardate import ScenarioTime  # noqa: E402

ALL_INVS = ("ThrustExactlyInterval", "DeliveredDv", "ExactAtBoundaries", "Semigroup", "BulkConsistent",
            "StepwiseEqualsRun", "QueueClean", "ImpulseNeverLost")
ACTIONS = ("PoseLaw", "PoseGrid", "PoseBurn", "PoseImp", "ApplyImpulse", "AppendEvent", "Deliver", "DropEvents", "NeighbourCall", "PrepEventsNb", "Prune", "PrepEvents", "PrepEventsBulk",
           "Integrate", "StartThrust", "EndThrust", "Finish")


# ------------------------------------------------------------------ TLC side
def cfg_text(invs=ALL_INVS, emit: str = "", props=("OutputsImmutable",), **kw) -> str:
    d = dict(Mode='"steps"', Horizon=12, StepLens="{1, 2, 3, 4, 6}", MaxSteps=4, Ks="{1}", MaxInterior=0,
             MaxCalls=0, Laws="LawsQuick", Kinds="KindsBurn", BurnChoice='"closed"', WithNoBurn="TRUE",
             FirstStart=1, OnlyFirstStart="FALSE", EndNeedsLanding="FALSE", EndMasksStart="FALSE", CallerMayDrop="FALSE", CallerMayNeighbour="FALSE", StaleThrust="FALSE", ImpChoice='"none"', ImpDvs="{0, 1}", FirstRootOnly="FALSE", Layouts="LayoutsC", EmitTag=f'"{emit}"')
    d.update(kw)
    lines = ["SPECIFICATION Spec", "CONSTANTS"]
    for k, v in d.items():
        lines.append(f"  {k} <- {v}" if k in ("Laws", "Kinds", "Layouts") else f"  {k} = {v}")
    lines += [f"INVARIANT {i}" for i in invs]
    lines += [f"PROPERTY {q}" for q in props]
    if emit:
        lines.append("INVARIANT Emit")
    return "\n".join(lines) + "\n"


def run_spec(ctx, name: str, purpose: str, *, emit: str = "BEH", workers=None, **kw):
    """Exhaustive run; spec-level invariants must hold (else the SPEC is wrong: exit 2)."""
    res = tlc.run_tlc("Kinematics", cfg_text(emit=emit, **kw), ctx.sub(name), workers=workers or ctx.cpus,
                      timeout=3000)
    tlc.require_ok(res, name)
    ctx.add_tlc(res, purpose)
    for inv, states in res.invariant_violations + res.property_violations:
        raise tlc.MachineryError(f"Kinematics.tla theorem {inv} fails at spec level ({name}):\n" + "\n".join(states[-1:]))
    if not res.ok:
        raise tlc.MachineryError(f"TLC run {name} not ok:\n" + res.stdout[-1500:])
    # TLC's workers print in a schedule-dependent order: sort, so that a seed fixes every derived choice
    behs = sorted(res.tagged(emit), key=lambda b: json.dumps(b, sort_keys=True)) if emit else []
    if emit and not behs:
        raise tlc.MachineryError(f"Kinematics.tla ({name}) emitted no behaviour")
    return res, behs


def run_as_coded(ctx, name: str, must_refute, deviation: str = "EndNeedsLanding", **kw) -> dict:
    """Spec mutant: a named deviation (the code as it stands: D10, D10b) must be refuted by TLC."""
    res = tlc.run_tlc("Kinematics", cfg_text(emit="", **{deviation: "TRUE"}, **kw), ctx.sub(name),
                      workers=max(2, ctx.cpus // 2), cont=True, timeout=3000)
    tlc.require_ok(res, name)
    ctx.add_tlc(res, f"Kinematics.tla with the as-coded deviation {deviation}: properties must be refuted")
    counts: dict = {}
    for inv, _ in res.invariant_violations:
        counts[inv] = counts.get(inv, 0) + 1
    for inv in must_refute:
        if not counts.get(inv):
            raise tlc.MachineryError(f"as-coded deviation not refuted for {inv}: the spec cannot see {deviation} ({counts})")
    return counts


def run_coverage(ctx, name: str, needed, **kw) -> dict:
    res = tlc.run_tlc("Kinematics", cfg_text(emit="", **kw), ctx.sub(name), workers=2, coverage=True, timeout=3000)
    tlc.require_ok(res, name)
    ctx.add_tlc(res, "Kinematics.tla action coverage")
    cov = {a: res.coverage.get(f"Kinematics!{a}", (0, 0))[1] for a in ACTIONS}
    dead = [a for a in needed if not cov.get(a)]
    if dead:
        raise tlc.MachineryError(f"Kinematics.tla actions never taken in {name}: {dead}")
    return cov


# ------------------------------------------------------------------ exact law
class ExactLaw(Celestial):
    """Constant acceleration `g_vec` plus the active finite thrust; integrated exactly."""

    def __init__(self, g_vec, method: str = "RK45"):
        super().__init__(method=method)
        self.g_vec = np.asarray(g_vec, dtype=float)

    def _differentialEquation(self, time, state, check_collision: bool = True):
        step = int(state.shape[0] / 6)
        half = int(state.shape[0] / 2)
        derivative = np.empty_like(state, dtype=float)
        for jj in range(step):
            r_eci = state[jj: jj + half: step]
            v_eci = state[jj + half:: step]
            acc = self.g_vec.copy()
            # same shape as SpecialPerturbations._differentialEquation
            if self.finite_thrust:
                acc = acc + self.finite_thrust(np.concatenate((r_eci, v_eci)))[:3]
            derivative[jj: jj + half: step] = v_eci
            derivative[jj + half:: step] = acc
        return derivative


def triad(rng: random.Random):
    """Seeded right-handed orthonormal triad (u, n, w): motion along u, offset along n."""
    while True:
        a = np.array([rng.gauss(0, 1) for _ in range(3)])
        b = np.array([rng.gauss(0, 1) for _ in range(3)])
        if np.linalg.norm(a) > 0.3 and np.linalg.norm(np.cross(a, b)) > 0.3:
            break
    u = a / np.linalg.norm(a)
    n = b - (b @ u) * u
    n /= np.linalg.norm(n)
    return u, n, np.cross(u, n)


class Embed:
    """spec column <<p2, v>>  <->  6-vector:  r = R0 n + (p2/2) alpha tau^2 u,  v = v alpha tau u."""

    R0 = 1.0

    def __init__(self, rng: random.Random, tau: float, alpha: float):
        self.u, self.n, self.w = triad(rng)
        self.tau, self.alpha = tau, alpha
        self.pu = 0.5 * alpha * tau * tau
        self.vu = alpha * tau

    def state(self, col) -> np.ndarray:
        return np.concatenate((self.R0 * self.n + col[0] * self.pu * self.u, col[1] * self.vu * self.u))

    def batch(self, cols) -> np.ndarray:
        return np.stack([self.state(c) for c in cols], axis=1)

    def project(self, x):
        """(p2, v, transverse residual in spec units) of a 6-vector."""
        r = np.asarray(x[:3], dtype=float) - self.R0 * self.n
        v = np.asarray(x[3:], dtype=float)
        p2, vv = (r @ self.u) / self.pu, (v @ self.u) / self.vu
        off = max(np.linalg.norm(r - (r @ self.u) * self.u) / self.pu, np.linalg.norm(v - (v @ self.u) * self.u) / self.vu)
        return p2, vv, off

    def thrust_event(self, kind: str, a: int, ts: float, te: float, agent_id: int = 1):
        """A REAL scheduled finite thrust of acceleration a*alpha along u."""
        acc = a * self.alpha
        if kind == "eci":
            return ScheduledFiniteBurn(ScenarioTime(ts), ScenarioTime(te), partial(eciBurn, acc_vector=acc * self.u), agent_id)
        if kind == "ntw":   # in-track: u is the velocity direction for the whole motion (v > 0)
            return ScheduledFiniteBurn(ScenarioTime(ts), ScenarioTime(te),
                                       partial(ntwBurn, acc_vector=np.array([0.0, acc, 0.0])), agent_id)
        if kind == "spiral":
            return ScheduledFiniteManeuver(ScenarioTime(ts), ScenarioTime(te), partial(spiralThrust, magnitude=acc), agent_id)
        raise ValueError(kind)


_PUSHED = [0]
EVENT_LOG_LIMIT = 400


def bound_event_log() -> None:
    """Harness-side cap on the simulator's EventStack (a log of "thrust on/off" records kept in a key-value actor).

    Every thrust callback pushes a record; the stand-in's object store keeps a pickle of every transaction result, so
    the memory grows quadratically with the number of records between two flushes.  A tree on which the restart loop
    never leaves an event time (a hang, caught by the SIGALRM guard) would push millions of records and get the check
    OOM-killed instead of reported.  Only the LOG is capped (records beyond the limit are dropped until the next flush);
    what is integrated is untouched."""
    from resonaate.dynamics.integration_events.event_stack import EventStack
    if getattr(EventStack, "_verif_bounded", False):
        return
    push, flush = EventStack.pushEvent.__func__, EventStack.logAndFlushEvents.__func__

    def push_bounded(cls, event_record):
        _PUSHED[0] += 1
        if _PUSHED[0] <= EVENT_LOG_LIMIT:
            push(cls, event_record)

    def flush_reset(cls):
        _PUSHED[0] = 0
        return flush(cls)

    EventStack.pushEvent = classmethod(push_bounded)
    EventStack.logAndFlushEvents = classmethod(flush_reset)
    EventStack._verif_bounded = True


def flush_events() -> None:
    """The Scenario flushes the EventStack at every step; replays that call the dynamics directly must do the same."""
    from resonaate.dynamics.integration_events.event_stack import EventStack
    EventStack.logAndFlushEvents()
    sched._OBJECTS.clear()


bound_event_log()


def close(got: float, want: float, tol: float = 1e-9) -> bool:
    return abs(got - want) <= tol * max(1.0, abs(want))


# ------------------------------------------------------------------ independent helpers
from resonaate.physics.bodies import Earth as _Earth  # noqa: E402

MU = float(_Earth.mu)  # km^3/s^2: the simulator's own constant (trusted input, not a computed result)


def coe_to_eci(a, e, inc, raan, argp, ta, mu=MU) -> np.ndarray:
    """Classical elements (radians) -> ECI state; textbook perifocal rotation (driver-side, independent)."""
    p = a * (1 - e * e)
    r = p / (1 + e * math.cos(ta))
    rp = np.array([r * math.cos(ta), r * math.sin(ta), 0.0])
    vp = math.sqrt(mu / p) * np.array([-math.sin(ta), e + math.cos(ta), 0.0])
    cO, sO, ci, si, cw, sw = math.cos(raan), math.sin(raan), math.cos(inc), math.sin(inc), math.cos(argp), math.sin(argp)
    rot = np.array([[cO * cw - sO * sw * ci, -cO * sw - sO * cw * ci, sO * si],
                    [sO * cw + cO * sw * ci, -sO * sw + cO * cw * ci, -cO * si],
                    [sw * si, cw * si, ci]])
    return np.concatenate((rot @ rp, rot @ vp))


def kepler_independent(x0, tof, mu=MU) -> np.ndarray:
    """Independent closed-form two-body propagation for ELLIPTIC orbits (f and g series in
    the eccentric-anomaly difference, Newton on Kepler's equation in dE)."""
    r0v, v0v = np.asarray(x0[:3], float), np.asarray(x0[3:], float)
    r0 = np.linalg.norm(r0v)
    a = 1.0 / (2.0 / r0 - (v0v @ v0v) / mu)
    n = math.sqrt(mu / a ** 3)
    sig0 = (r0v @ v0v) / math.sqrt(mu)
    dm = n * tof
    de = dm
    for _ in range(60):
        f_ = de - (1 - r0 / a) * math.sin(de) + sig0 / math.sqrt(a) * (1 - math.cos(de)) - dm
        fp = 1 - (1 - r0 / a) * math.cos(de) + sig0 / math.sqrt(a) * math.sin(de)
        step = f_ / fp
        de -= step
        if abs(step) < 1e-15 * max(1.0, abs(de)):
            break
    r = a + (r0 - a) * math.cos(de) + sig0 * math.sqrt(a) * math.sin(de)
    f = 1 - a / r0 * (1 - math.cos(de))
    g = tof - (de - math.sin(de)) / n
    fd = -math.sqrt(mu * a) / (r * r0) * math.sin(de)
    gd = 1 - a / r * (1 - math.cos(de))
    return np.concatenate((f * r0v + g * v0v, fd * r0v + gd * v0v))
