"""C19 - imported ephemerides / observations are used faithfully; the importer stays read-only.

1. TLC checks Importer.tla exhaustively over EVERY importer database over two scenario agents and
   unrelated agents (every set of Epoch rows: all present, a hole across all agents, every other
   epoch, a database that ends early; every set of ephemeris rows hanging on them; every
   realtime/imported mix; an agent joining mid-run) and over EVERY engine partition of two
   sensors / two targets with every observation set (cross-engine observations, shared targets):
   ImportFaithful, NoStaleState (a gap must raise), ObsReachFilter (exactly once),
   RunContinues (only MissingEphemerisError stops a run), ImporterReadOnly (rows and schema).
   The observation table is a BAG (a row may be stored twice: delivered once, the run goes on);
   the importer file has the full schema or only the tables an importer reads; the database may
   hold records at instants that are NOT scenario epochs (inside the wall-clock second of a
   scenario epoch, before / after it, or between steps: never used, never masking a gap); sensors
   may share IDENTICAL coordinates (still two observations).  Nine named deviations must each
   yield a counterexample: CountBasedCheck (D9), SkipEpochWithoutRow, LoadEveryEngine (D28),
   LoadOnlyOwnTargets, MatchWholeSecond, DedupIgnoresSensor, CrashOnDuplicate, KeepDuplicates,
   CreateMissingTables; plus FreezeRoster (a sensor joins / leaves an engine after its first import:
   an observation reaches the filter iff its sensor is in an engine AT THAT EPOCH) and
   StampCachedEpoch (OutputFaithful: the truth rows written to the OUTPUT database are one per
   agent and completed step, at that step's epoch, carrying the state held).
2. impl -> spec: a real realtime run produces a source database; importer databases are DERIVED
   from it with plain sqlite3 (exact copy; supersets with unrelated agents; subsets with a gap
   at a chosen epoch for a chosen registered agent, with and without unrelated extras; epochs
   removed ALTOGETHER - Epoch row and every record hanging on it: a hole, every other epoch, the
   tail of the run, everything; thinned observation rows; observation rows stored twice under a
   new primary key; every table an importer never reads DROPPED + VACUUM; Epoch / ephemeris /
   observation rows at instants that are not scenario epochs - x.000 and x.625 for a scenario that
   starts at x.250, half a step earlier - copied from the rows of the scenario epoch with an
   offset state) and the REAL scenario (whole-second or fractional-second start; sensors a few
   hundred metres apart or at identical coordinates) is run against
   each (targets imported / sensors imported / both; imported observations; one engine, two
   engines with the partition of the source run or ANOTHER one, so that the database holds
   observations whose sensor and target belong to different engines).  Per step the driver logs
   which database record each imported agent's state is bit-equal to, whether
   MissingEphemerisError was raised, what every engine loaded, the observations handed to every
   EstUpdate job, and the SHA-256 and the schema objects (sqlite_master) of the importer file before
   the run, after the scenario has been built and after the run; TLC validates the traces
   against TraceImporter.tla and names the formula a rejected trace breaks.  Roster variants call the
   public Scenario.addSensor / removeSensor between two steps; after every run the truth rows of the
   run's output database are read with plain SQL (agent, epoch index of the row's Julian date, importer
   record the state is bit-equal to) and validated as the trace's Output record.
"""
from __future__ import annotations

import hashlib
import json
import os
import random
import shutil
import sqlite3
import tempfile
from concurrent.futures import ProcessPoolExecutor

from .. import tlc
from ..core import Ctx

LEVEL = "model_checking"
UNRELATED = [77701, 77702, 77703]
READ_TABLES = ("epochs", "agents", "truth_ephemerides", "observations")     # what an importer run reads


class _Abandon(Exception):
    pass


def _sha(path):
    return hashlib.sha256(open(path, "rb").read()).hexdigest()


def _partition(cfg, how):
    """Split the single engine of `cfg` into two tasking engines (sensors are partitioned, targets may be shared)."""
    import copy as _copy
    eng = cfg["engines"][0]
    e2 = _copy.deepcopy(eng)
    e2["unique_id"] = eng["unique_id"] + 1
    T, S = eng["targets"], eng["sensors"]
    if how == "split":        # disjoint networks
        (t1, t2) = (T[:1], T[1:])
    elif how == "swapped":    # the same sensor halves, the targets exchanged
        (t1, t2) = (T[1:], T[:1])
    elif how == "shared":     # the first engine tracks everything, the second one shares the later targets
        (t1, t2) = (T[:], T[1:])
    else:
        raise ValueError(how)
    e2["targets"], e2["sensors"] = _copy.deepcopy(t2), S[2:]
    eng["targets"], eng["sensors"] = _copy.deepcopy(t1), S[:2]
    cfg["engines"] = [eng, e2]


def _base_cfg(fam, importer=False, mode=None, partition="family"):
    from harness import scenario_util as su
    # minimal_init.json: one target (ISS) and sensors at shared sites (RTS MMW / RTS TRADEX are ~200 m apart, the MSSS
    # telescopes ~100 m); the greedy policy makes several sensors observe the same target at the same epoch, so the
    # importer's duplicate filter sees near-coincident but distinct observations
    from datetime import timedelta as _td
    start = su.parse_iso(fam["start"]) + _td(milliseconds=fam.get("start_ms", 0))      # scenario epochs may carry fractional seconds
    cfg = su.base_config(start=start, step=fam["step"], n_steps=fam["nsteps"], n_targets=1, n_sensors=fam["ns"],
                         decision="MyopicNaiveGreedyDecision", model="two_body", seed=3, template="minimal_init.json",
                         extra_targets=[su.target_cfg(50001 + i, sma_km=7100.0 + 200 * i, inc_deg=30.0 + 15 * i, ta_deg=40.0 * i)
                                        for i in range(fam["nt"] - 1)])
    # sensors with IDENTICAL coordinates (two sensors of one facility configured with the same latitude / longitude / altitude)
    for i, j in fam.get("colocate", []):
        import copy as _copy
        ss = cfg["engines"][0]["sensors"]
        ss[j]["state"], ss[j]["platform"] = _copy.deepcopy(ss[i]["state"]), _copy.deepcopy(ss[i]["platform"])
    # several tasking engines: each loads imported observations in its own assess(); the run that reads the importer
    # database may partition the agents differently from the run that produced it
    if partition == "family":
        partition = fam.get("src_partition")
    if partition:
        _partition(cfg, partition)
    if fam.get("add_at"):
        # a target joins the scenario mid-run (public target_addition event) in the source run AND in every variant
        from harness.drivers import c01
        _ecfg, _meta = c01.build_case({"start": fam["start"], "step": fam["step"], "nsteps": fam["nsteps"], "seed": 1,
                                       "events": [{"kind": "addTarget", "t0": (fam["add_at"] - 1) * fam["step"] + 1}]})
        ev = _ecfg["events"][0]
        ev["tasking_engine_id"] = cfg["engines"][0]["unique_id"]
        cfg["events"] = [ev]
    if importer:
        cfg["propagation"]["target_realtime_propagation"] = "t" not in mode
        cfg["propagation"]["sensor_realtime_propagation"] = "s" not in mode
        cfg.setdefault("observation", {})["realtime_observation"] = "o" not in mode
    return cfg


def _make_source(fam, path):
    """A real realtime run whose output database becomes the importer source."""
    import numpy as np
    from harness import scenario_util as su
    import random as _r

    from harness import tracer
    cfg = _base_cfg(fam)
    np.random.seed(1)
    # table-driven sensing so that the source run certainly produces observations (real Observation rows)
    tracer.install_table_env()
    app = su.build(cfg, db_path=su.file_db_url(path))
    tracer.start(app, tracer.TableEnv(_r.Random(5), p_vis=1.0, p_slew=1.0, p_hit=0.85, serendipity=False))
    try:
        su.run_for(app, fam["nsteps"] * fam["step"])
    finally:
        tracer.stop()
    from resonaate.data import clearDBPath
    clearDBPath()
    return cfg


def _derive(src, dst, var, fam):
    """Derive an importer database with plain sqlite3."""
    shutil.copy(src, dst)
    con = sqlite3.connect(dst)
    cur = con.cursor()
    jds = [r[0] for r in cur.execute("SELECT julian_date FROM epochs ORDER BY julian_date")]
    # records at epochs that are NOT scenario epochs, copied (with a recognisable offset of the state) from the records of
    # scenario epoch j: "before" / "after" = inside the same wall-clock second as epoch j (the scenario starts on a fractional
    # second), "mid" = half a step earlier.  Made from the pristine copy: a later gap at epoch j leaves its second populated.
    foreign = {}
    if var.get("foreign"):
        from datetime import datetime, timedelta
        ms = fam.get("start_ms", 0)
        shift = {"before": -ms / 1000.0, "after": (1000 - ms) / 2000.0, "mid": -fam["step"] / 2.0}
        ecols = "agent_id, pos_x_km, pos_y_km, pos_z_km, vel_x_km_p_sec, vel_y_km_p_sec, vel_z_km_p_sec"
        ocols = ", ".join(c[1] for c in cur.execute("PRAGMA table_info(observations)").fetchall() if c[1] not in ("id", "julian_date"))
        stamps = dict(cur.execute("SELECT julian_date, timestampISO FROM epochs").fetchall())
        for n, side in enumerate(var["foreign"]):
            for j, jd in enumerate(jds):
                if shift[side] == 0 or (side == "mid" and j == 0):
                    continue
                when = datetime.fromisoformat(stamps[jd]) + timedelta(seconds=shift[side])
                fjd = jd + shift[side] / 86400.0
                cur.execute("INSERT INTO epochs (julian_date, timestampISO) VALUES (?, ?)", (fjd, when.isoformat(timespec="microseconds")))
                cur.execute(f"INSERT INTO truth_ephemerides (julian_date, {ecols}) SELECT ?, {ecols.replace('pos_x_km', 'pos_x_km + ' + str(0.125 * (n + 1)), 1)} "
                            "FROM truth_ephemerides WHERE julian_date = ?", (fjd, jd))
                cur.execute(f"INSERT INTO observations (julian_date, {ocols}) SELECT ?, {ocols} FROM observations WHERE julian_date = ?", (fjd, jd))
                foreign[fjd] = (j, side)
    for n, uid in enumerate(UNRELATED[:var.get("extras", 0)]):
        cur.execute("INSERT INTO agents (unique_id, name) VALUES (?, ?)", (uid, f"unrelated{n}"))
        for j, jd in enumerate(jds):
            if var.get("extras_gap") is not None and j == var["extras_gap"]:
                continue
            cur.execute("INSERT INTO truth_ephemerides (julian_date, agent_id, pos_x_km, pos_y_km, pos_z_km, vel_x_km_p_sec, "
                        "vel_y_km_p_sec, vel_z_km_p_sec) VALUES (?,?,?,?,?,?,?,?)", (jd, uid, 7000.0 + n, 0.0, 0.0, 0.0, 7.5, 0.0))
    for aid, j in var.get("gaps", []):
        cur.execute("DELETE FROM truth_ephemerides WHERE agent_id = ? AND julian_date = ?", (aid, jds[j]))
    # epochs absent ALTOGETHER: the Epoch row and every record of any table hanging on it
    if var.get("drop_epochs"):
        tables = [r[0] for r in cur.execute("SELECT name FROM sqlite_master WHERE type = 'table' AND name != 'epochs'").fetchall()]
        tables = [t for t in tables if any(c[1] == "julian_date" for c in cur.execute(f"PRAGMA table_info({t})").fetchall())]
        for j in var["drop_epochs"]:
            for t in tables:
                cur.execute(f"DELETE FROM {t} WHERE julian_date = ?", (jds[j],))
            cur.execute("DELETE FROM epochs WHERE julian_date = ?", (jds[j],))
    if var.get("drop_obs"):
        rows = [r[0] for r in cur.execute("SELECT id FROM observations ORDER BY id")]
        for i, rid in enumerate(rows):
            if i % var["drop_obs"] == 0:
                cur.execute("DELETE FROM observations WHERE id = ?", (rid,))
    # stored observations one of whose components is EXACTLY 0.0 (due north, on the horizon, no range rate): a legal
    # measurement that must reach its target's filter like any other (seed C19/14: rows tested by truthiness)
    if var.get("zero_obs"):
        rows = [r for r in cur.execute("SELECT id, range_rate_km_p_sec FROM observations ORDER BY id")]
        for i, (rid, rr) in enumerate(rows):
            if i % var["zero_obs"] == 0:
                col = ("azimuth_rad", "elevation_rad", "range_rate_km_p_sec" if rr is not None else "azimuth_rad")[(i // var["zero_obs"]) % 3]
                cur.execute(f"UPDATE observations SET {col} = 0.0 WHERE id = ?", (rid,))
    # observation rows stored TWICE (same sensor, target, epoch, values; a new primary key): e.g. a run imported twice
    if var.get("dup_obs"):
        cols = [c[1] for c in cur.execute("PRAGMA table_info(observations)").fetchall() if c[1] != "id"]
        rows = [r[0] for r in cur.execute("SELECT id FROM observations ORDER BY id")]
        for i, rid in enumerate(rows):
            if i % var["dup_obs"] == 0:
                cur.execute(f"INSERT INTO observations ({', '.join(cols)}) SELECT {', '.join(cols)} FROM observations WHERE id = ?", (rid,))
    con.commit()
    # a database written by a tool that only stores what an importer reads: every other table of the data model is dropped
    if var.get("drop_tables"):
        keep = set(READ_TABLES) - ({"observations"} if var["drop_tables"] == "unused+observations" else set())
        for (t,) in cur.execute("SELECT name FROM sqlite_master WHERE type = 'table'").fetchall():
            if t not in keep and not t.startswith("sqlite_"):
                cur.execute(f"DROP TABLE {t}")
        con.commit()
        con.execute("VACUUM")
    con.close()
    return foreign


def _schema(path):
    """Every schema object of the SQLite file (type, name, table, SQL text)."""
    con = sqlite3.connect(f"file:{path}?mode=ro", uri=True)
    try:
        return sorted((str(r[0]), str(r[1]), str(r[2]), str(r[3])) for r in con.execute("SELECT type, name, tbl_name, sql FROM sqlite_master"))
    finally:
        con.close()


def _epoch_keys(path):
    con = sqlite3.connect(path)
    jds = [r[0] for r in con.execute("SELECT julian_date FROM epochs ORDER BY julian_date")]
    con.close()
    return jds


def _importer_tables(path, src_jds, foreign=None):
    """(rows {(agent, k): 6-tuple}, obs [(k, t, s)], epochs [k], frows {(agent, j, side): 6-tuple}) read with plain sqlite3;
    k = step index in the SOURCE run; `foreign` maps the Julian dates that are not scenario epochs to (j, side)."""
    foreign = foreign or {}
    con = sqlite3.connect(path)
    cur = con.cursor()
    kof = {jd: i for i, jd in enumerate(src_jds)}
    epochs = sorted(kof[r[0]] for r in cur.execute("SELECT julian_date FROM epochs") if r[0] not in foreign)
    rows, frows = {}, {}
    for r in cur.execute("SELECT julian_date, agent_id, pos_x_km, pos_y_km, pos_z_km, vel_x_km_p_sec, vel_y_km_p_sec, vel_z_km_p_sec "
                         "FROM truth_ephemerides"):
        if r[0] in foreign:
            frows[(int(r[1]),) + foreign[r[0]]] = tuple(float(x) for x in r[2:])
        else:
            rows[(int(r[1]), kof[r[0]])] = tuple(float(x) for x in r[2:])
    obs = []
    if cur.execute("SELECT count(*) FROM sqlite_master WHERE type = 'table' AND name = 'observations'").fetchone()[0]:
        obs = [(kof[r[0]], int(r[1]), int(r[2])) for r in cur.execute("SELECT julian_date, target_id, sensor_id FROM observations")
               if r[0] not in foreign]
    con.close()
    return rows, obs, epochs, frows


def _run_variant(fam, var, src, workdir):
    import numpy as np
    from harness import scenario_util as su
    from harness import sched
    from resonaate.common.exceptions import MissingEphemerisError
    from resonaate.dynamics.importer import EphemerisImporter
    from resonaate.parallel import estimate_update as eu
    from resonaate.tasking.engine.centralized_engine import CentralizedTaskingEngine
    dst = os.path.join(workdir, f"imp_{var['name']}.sqlite3")
    foreign = _derive(src, dst, var, fam)
    src_jds = _epoch_keys(src)
    rows, obs, epochs, frows = _importer_tables(dst, src_jds, foreign)
    step_of = {jd: i for i, jd in enumerate(src_jds)}
    before, schema_before = _sha(dst), _schema(dst)
    from collections import Counter
    n_obs = Counter(o for o in obs if o[0] >= 1)
    cfg = _base_cfg(fam, importer=True, mode=var["mode"], partition=var.get("partition", "family"))
    tids = list(dict.fromkeys(t["id"] for e in cfg["engines"] for t in e["targets"]))
    sids = [s["id"] for e in cfg["engines"] for s in e["sensors"]]
    engines = [[int(e["unique_id"]), [s["id"] for s in e["sensors"]], [t["id"] for t in e["targets"]]] for e in cfg["engines"]]
    # sensors with identical configured coordinates share a site number
    sites = {s["id"]: json.dumps([s["platform"], s["state"]], sort_keys=True) for e in cfg["engines"] for s in e["sensors"]}
    born = {}
    if fam.get("add_at"):
        from harness.drivers import c01
        tids = tids + [c01.NEW_TARGET_ID]
        born[c01.NEW_TARGET_ID] = fam["add_at"]
        engines[0][2].append(c01.NEW_TARGET_ID)       # the addition event names the first engine
    # a sensor that joins its engine (Scenario.addSensor) / leaves it (removeSensor) between two steps: the run is built
    # without it / with it, the importer database comes from a source run in which it existed throughout
    gone, late = {}, None
    if var.get("roster"):
        import copy as _copy
        what, idx, at = var["roster"]
        eng_cfg = next(e for e in cfg["engines"] if any(s_["id"] == sids[idx] for s_ in e["sensors"]))
        late = {"what": what, "id": sids[idx], "at": at, "engine": int(eng_cfg["unique_id"]),
                "cfg": _copy.deepcopy(next(s_ for s_ in eng_cfg["sensors"] if s_["id"] == sids[idx]))}
        if what == "add":
            born[sids[idx]] = at
            eng_cfg["sensors"] = [s_ for s_ in eng_cfg["sensors"] if s_["id"] != sids[idx]]
        else:
            gone[sids[idx]] = at
    imported = (tids if "t" in var["mode"] else []) + (sids if "s" in var["mode"] else [])
    A = lambda i: f"a{i}"  # noqa: E731
    # the observation table only matters when observations are imported
    trace = [{"ev": "Config", "agents": [A(i) for i in tids + sids], "imported": [A(i) for i in imported],
              "targets": [A(i) for i in tids],
              "epochs": [k for k in epochs if k >= 1],
              "rows": sorted([A(a), k] for (a, k) in rows if k >= 1),
              "obs": sorted([k, A(t), A(s)] for (k, t, s) in n_obs),
              "dup": sorted([k, A(t), A(s)] for (k, t, s), n in n_obs.items() if n > 1),
              "schema": "minimal" if var.get("drop_tables") else "full",
              "near": sorted([A(a), j, side] for (a, j, side) in frows if j >= 1),
              "sites": [[A(i), min(n for n, j in enumerate(sids) if sites[j] == sites[i])] for i in sids],
              "engines": [[e, [A(i) for i in ss], [A(i) for i in tt]] for e, ss, tt in engines],
              "nsteps": fam["nsteps"], "born": [[A(i), born.get(i, 0)] for i in tids + sids],
              "gone": [[A(i), gone.get(i, fam["nsteps"] + 1)] for i in tids + sids]}]
    state = {"k": 0, "raised": False, "updates": {}}
    orig_import = EphemerisImporter.importEphemerides
    orig_gen = eu.EstUpdateRegistration.generateSubmission
    orig_load = CentralizedTaskingEngine.loadImportedObservations

    def kof(o):
        jd = float(o.julian_date)
        if jd in step_of:
            return step_of[jd]
        if jd in foreign:
            return 1000 + foreign[jd][0]          # an observation of an epoch that is not a scenario epoch
        return int(round((float(o.julian_date) - float(state["app"].clock.julian_date_start)) * 86400.0 / fam["step"]))

    def load(self, datetime_epoch):
        res = orig_load(self, datetime_epoch)
        trace.append({"ev": "EngineLoad", "engine": int(self.unique_id), "loaded": sorted([kof(o), A(o.target_id), A(o.sensor_id)] for o in res)})
        return res

    def held_proj(app):
        out = []
        for aid, ag in list(app.target_agents.items()) + list(app.sensor_agents.items()):
            if aid not in imported:
                continue          # realtime agents are merged later in the step (propagation jobs)
            cur = tuple(float(x) for x in np.asarray(ag.eci_state, float).ravel())
            match = [k for (a, k), v in rows.items() if a == aid and v == cur]
            # the agent's derived Earth-fixed state must belong to the same epoch as the imported inertial state
            derived_ok = True
            if hasattr(ag, "ecef_state"):
                from datetime import timedelta
                from resonaate.physics.transforms.methods import eci2ecef
                auth = state["app"].clock.datetime_start + timedelta(seconds=state["k"] * fam["step"])
                want = eci2ecef(np.asarray(ag.eci_state, float), auth)
                derived_ok = bool(np.linalg.norm(np.asarray(ag.ecef_state, float)[:3] - want[:3]) < 1e-3)
            fmatch = [j for (a, j, side), v in frows.items() if a == aid and v == cur]
            if match:
                out.append([A(aid), "import", max(match), derived_ok])
            elif fmatch:
                out.append([A(aid), "foreign", max(fmatch), derived_ok])     # the record of an epoch that is not a scenario epoch
            else:
                out.append([A(aid), "init" if state["k"] == 0 else "unknown", 0, derived_ok])
        return out

    def imp(self, datetime_epoch):
        try:
            res = orig_import(self, datetime_epoch)
        except MissingEphemerisError:
            state["raised"] = True
            trace.append({"ev": "ImportMissing"})
            raise
        trace.append({"ev": "ImportOk", "held": held_proj(state["app"])})
        return res

    def gen(self):
        sub = orig_gen(self)
        state["updates"][self._registrant.simulation_id] = [
            [kof(o), A(o.target_id), A(o.sensor_id)] for o in self._observations if getattr(o, "id", None) is not None]
        # (observations loaded from the importer database carry their primary key; those made in this run do not)
        return sub

    EphemerisImporter.importEphemerides = imp
    eu.EstUpdateRegistration.generateSubmission = gen
    CentralizedTaskingEngine.loadImportedObservations = load
    crashed = None
    try:
        np.random.seed(2)
        try:
            app = su.build(cfg, importer_db_path=su.file_db_url(dst))
        except Exception as ex:  # noqa: BLE001
            crashed = f"{type(ex).__name__}: {ex}"[:300]
            trace.append({"ev": "Crash", "error": crashed})
            raise _Abandon from None
        # every ImporterDatabase object of the run exists now (engines, ephemeris importer)
        trace.append({"ev": "Open", "unchanged": _sha(dst) == before, "schema_unchanged": _schema(dst) == schema_before})
        state["app"] = app
        sched.set_chooser(None)
        orig_step = app.stepForward

        def step():
            if late and state["k"] + 1 == late["at"]:
                # public API, between two steps
                if late["what"] == "add":
                    app.addSensor(late["cfg"], late["engine"])
                else:
                    app.removeSensor(late["id"], late["engine"])
            state["k"] += 1
            state["updates"] = {}
            trace.append({"ev": "BeginStep", "k": state["k"]})
            if not imported:
                trace.append({"ev": "SkipImport"})     # configuration: nothing is imported, no importer object exists
            orig_step()
            trace.append({"ev": "LoadObs", "reached": [[A(t), sorted(state["updates"].get(t, []))] for t in tids]})
            trace.append({"ev": "EndStep"})

        app.stepForward = step
        try:
            su.run_for(app, fam["nsteps"] * fam["step"])
        except MissingEphemerisError:
            pass
        except Exception as ex:  # noqa: BLE001
            crashed = f"{type(ex).__name__}: {ex}"[:300]
            trace.append({"ev": "Crash", "error": crashed})
        if crashed is None:
            # what the run wrote to its OUTPUT database (plain SQL): truth rows by (agent, epoch index of the row's own Julian
            # date); an imported agent's row is matched to the importer record it is bit-equal to
            from resonaate.data import getDBConnection
            jd0 = float(app.clock.julian_date_start)
            with getDBConnection().engine.connect() as con_:
                written = con_.exec_driver_sql("SELECT julian_date, agent_id, pos_x_km, pos_y_km, pos_z_km, vel_x_km_p_sec, vel_y_km_p_sec, "
                                               "vel_z_km_p_sec FROM truth_ephemerides").fetchall()
            out_rows, n_initial = [], 0
            for r in written:
                x = (float(r[0]) - jd0) * 86400.0 / fam["step"]
                stamp = int(round(x)) if abs(x - round(x)) < 1e-3 else -1          # -1: not an epoch of the run
                if stamp == 0:
                    n_initial += 1
                    continue
                aid, cur = int(r[1]), tuple(float(v) for v in r[2:])
                if aid in imported:
                    m = [k for (a, k), v in rows.items() if a == aid and (v == cur or max(abs(p - q) for p, q in zip(v, cur)) < 1e-9)]
                    out_rows.append([A(aid), stamp, "import", max(m)] if m else [A(aid), stamp, "unknown", 0])
                else:
                    out_rows.append([A(aid), stamp, "realtime", stamp])
            trace.append({"ev": "Output", "rows": sorted(out_rows), "initial_rows": n_initial})
    except _Abandon:
        pass
    finally:
        EphemerisImporter.importEphemerides = orig_import
        eu.EstUpdateRegistration.generateSubmission = orig_gen
        CentralizedTaskingEngine.loadImportedObservations = orig_load
        try:
            from resonaate.data import clearDBPath
            clearDBPath()
        except Exception:  # noqa: BLE001
            pass
    schema_after = _schema(dst)
    trace.append({"ev": "EndRun", "unchanged": _sha(dst) == before, "schema_unchanged": schema_after == schema_before,
                  "created": sorted(f"{t} {n}" for t, n, _, _ in set(schema_after) - set(schema_before))[:40]})
    return {"variant": var, "trace": trace, "crashed": crashed}


def _run_family(fam):
    workdir = tempfile.mkdtemp(prefix="verif_c19_")
    try:
        src = os.path.join(workdir, "source.sqlite3")
        cfg = _make_source(fam, src)
        tids = [t["id"] for e in cfg["engines"] for t in e["targets"]]
        sids = [s["id"] for e in cfg["engines"] for s in e["sensors"]]
        out = []
        for var in fam["variants"]:
            v = dict(var)
            # symbolic gap targets -> real ids
            from harness.drivers import c01 as _c01
            v["gaps"] = [(_c01.NEW_TARGET_ID if kind == "added" else (tids if kind == "t" else sids)[idx], j)
                         for kind, idx, j in var.get("gaps", [])]
            out.append(_run_variant(fam, v, src, workdir))
        return {"family": {k: v for k, v in fam.items() if k != "variants"}, "runs": out}
    finally:
        shutil.rmtree(workdir, ignore_errors=True)


def _run_mc(name, workdir, workers, coverage):
    from pathlib import Path
    return tlc.run_tlc("MCImporter", name, Path(workdir), workers=workers, timeout=3000, coverage=coverage)


def _positions(res):
    """Per trace: the furthest line TLC reached and, if it is stuck there, the formula the next record breaks (Why)."""
    reached, why = {}, {}
    for t_id, pos, end, reason in res.tuples("AT"):
        if pos > reached.get(t_id, 0):
            reached[t_id], why[t_id] = pos, None
        if pos == reached[t_id] and reason not in ("ok", "end", "out-of-order") and not why[t_id]:
            why[t_id] = reason
    return reached, why


def make_families(ctx: Ctx, rng):
    fams = []
    specs = [("2018-12-01T12:00:00", 60, 3), ("2019-12-31T23:58:07", 300, 3)]
    if not ctx.quick:
        specs += [("2020-02-29T23:59:30", 7, 4), ("2021-06-15T03:17:41", 120, 4), ("2018-12-01T12:00:59", 60, 5)]
    for start, step, n in specs:
        variants = []
        for mode in ("t", "s", "ts", "tso", "o"):
            variants.append({"name": f"exact_{mode}", "mode": mode})
            variants.append({"name": f"superset_{mode}", "mode": mode, "extras": 2})
        # gaps: every (imported agent kind, epoch), with and without unrelated extras (D9: extras mask the gap)
        for j in range(1, n + 1):
            for kind, mode in (("t", "t"), ("s", "s"), ("t", "ts"), ("s", "tso")):
                if ctx.quick and (j + len(kind) + len(mode)) % 2:
                    continue
                variants.append({"name": f"gap_{kind}{j}_{mode}", "mode": mode, "gaps": [[kind, 0, j]]})
                variants.append({"name": f"gap_{kind}{j}_{mode}_extras", "mode": mode, "gaps": [[kind, 0, j]], "extras": 2})
                variants.append({"name": f"gap_{kind}{j}_{mode}_extra1", "mode": mode, "gaps": [[kind, -1, j]], "extras": 1})
        variants.append({"name": "thin_obs", "mode": "tso", "drop_obs": 2})
        variants.append({"name": "thin_obs3_extras", "mode": "o", "drop_obs": 3, "extras": 1})
        variants.append({"name": "extras_gap", "mode": "ts", "extras": 2, "extras_gap": 2})
        # observation rows stored twice: the duplicate is dropped, the run goes on
        variants.append({"name": "dup_obs_tso", "mode": "tso", "dup_obs": 2})
        variants.append({"name": "zero_obs_o", "mode": "o", "zero_obs": 2})
        variants.append({"name": "zero_obs_tso", "mode": "tso", "zero_obs": 1})
        variants.append({"name": "dup_obs3_t_extras", "mode": "t", "dup_obs": 3, "extras": 1})
        # importer files that hold only the tables an importer reads (the last one not even an observation table)
        variants.append({"name": "minimal_ts", "mode": "ts", "drop_tables": "unused"})
        variants.append({"name": "minimal_o_extras", "mode": "o", "drop_tables": "unused", "extras": 1})
        variants.append({"name": "minimal_gap_t2_t", "mode": "t", "drop_tables": "unused", "gaps": [["t", 0, 2]]})
        variants.append({"name": "minimal_noobs_t", "mode": "t", "drop_tables": "unused+observations"})
        # an epoch absent ALTOGETHER (no Epoch row, no record of any agent): a hole in the middle, the tail
        variants.append({"name": "hole2_ts_extras", "mode": "ts", "drop_epochs": [2], "extras": 1})
        variants.append({"name": f"ends{n - 1}_t", "mode": "t", "drop_epochs": [n]})
        fams.append({"start": start, "step": step, "nsteps": n, "nt": 2, "ns": 4, "variants": variants})
    # importer databases in which whole epochs are absent: a hole across all agents, a database sampled every other
    # step only, a database that ends before the scenario does, an empty one - by mode, with / without unrelated agents
    specs = [("2018-12-01T12:00:00", 60, 4)]
    if not ctx.quick:
        specs += [("2019-12-31T23:50:07", 300, 5), ("2020-02-29T23:59:30", 7, 6)]
    for start, step, n in specs:
        shapes = [(f"hole{j}", [j]) for j in range(1, n)]
        shapes += [("coarse_odd", [j for j in range(1, n + 1) if j % 2 == 0]), ("coarse_even", [j for j in range(1, n + 1) if j % 2 == 1])]
        shapes += [(f"ends{j - 1}", list(range(j, n + 1))) for j in range(1, n + 1)]
        variants = []
        for i, (sname, drop) in enumerate(shapes):
            modes = ("t", "s", "ts", "tso", "o")
            for m, mode in enumerate(modes):
                if ctx.quick and (i + m) % 3 and not (mode == "o" and sname == "coarse_odd"):
                    continue
                variants.append({"name": f"{sname}_{mode}", "mode": mode, "drop_epochs": drop, "extras": (i + m) % 2})
        # a hole across all agents PLUS a gap for one agent at a later epoch; a hole in a database that tracks a superset
        variants.append({"name": "hole2_gap3_ts", "mode": "ts", "drop_epochs": [2], "gaps": [["t", 0, 3]]})
        variants.append({"name": "gap1_hole3_t", "mode": "t", "drop_epochs": [3], "gaps": [["t", 0, 1]], "extras": 2})
        fams.append({"start": start, "step": step, "nsteps": n, "nt": 2, "ns": 4, "variants": variants})
    # scenario epochs with FRACTIONAL seconds (start x.250, whole-second steps) against importer databases that also hold
    # records at instants that are not scenario epochs: inside the same wall-clock second (x.000 before, x.625 after), half a
    # step earlier; with gaps / holes at the real epochs whose second stays populated; a database holding ONLY the others
    specs = [("2018-12-01T12:00:00", 250, 60, 4)] + ([] if ctx.quick else [("2019-12-31T23:58:07", 500, 300, 4), ("2020-02-29T23:59:30", 750, 7, 5)])
    for start, ms, step, n in specs:
        variants = [{"name": "sub_exact_ts", "mode": "ts"},
                    {"name": "sub_before_t", "mode": "t", "foreign": ["before"]},
                    {"name": "sub_before_tso", "mode": "tso", "foreign": ["before"], "extras": 1},
                    {"name": "sub_after_s", "mode": "s", "foreign": ["after"]},
                    {"name": "sub_all_o", "mode": "o", "foreign": ["before", "after", "mid"]},
                    {"name": "sub_before_gap_t3_t", "mode": "t", "foreign": ["before"], "gaps": [["t", 0, 3]]},
                    {"name": "sub_before_gap_t2_ts_extras", "mode": "ts", "foreign": ["before"], "gaps": [["t", -1, 2]], "extras": 2},
                    {"name": "sub_after_gap_s2_s", "mode": "s", "foreign": ["after"], "gaps": [["s", 0, 2]]},
                    {"name": "sub_mid_gap_t2_t", "mode": "t", "foreign": ["mid"], "gaps": [["t", 0, 2]]},
                    {"name": "sub_both_hole2_ts", "mode": "ts", "foreign": ["before", "after"], "drop_epochs": [2]},
                    {"name": "sub_only_foreign_t", "mode": "t", "foreign": ["before"], "drop_epochs": list(range(1, n + 1))}]
        if not ctx.quick:
            variants += [{"name": f"sub_{side}_gap_{kind}{j}_{mode}", "mode": mode, "foreign": [side], "gaps": [[kind, 0, j]]}
                         for side in ("before", "after") for j in range(1, n + 1) for kind, mode in (("t", "ts"), ("s", "tso"))]
        fams.append({"start": start, "start_ms": ms, "step": step, "nsteps": n, "nt": 2, "ns": 4, "variants": variants})
    # two sensors with IDENTICAL coordinates observing the same target at the same epoch: two observations, both must arrive
    # (one engine: sensors 0 and 1 share a site; two engines: sensors 0 and 2, one per engine, and sensors 0 and 1 in one engine)
    fams.append({"start": "2018-12-01T12:00:00", "step": 60, "nsteps": 3, "nt": 2, "ns": 4, "colocate": [[0, 1]],
                 "variants": [{"name": "colo_exact_o", "mode": "o"}, {"name": "colo_exact_tso", "mode": "tso"},
                              {"name": "colo_thin_obs3_ts", "mode": "ts", "drop_obs": 3},
                              {"name": "colo_split_o", "mode": "o", "partition": "split"}]})
    fams.append({"start": "2018-12-01T12:00:00", "step": 60, "nsteps": 3, "nt": 2, "ns": 4, "colocate": [[0, 2]], "src_partition": "split",
                 "variants": [{"name": "colo2eng_exact_o", "mode": "o"}, {"name": "colo2eng_shared_tso", "mode": "tso", "partition": "shared"},
                              {"name": "colo2eng_one_engine_o", "mode": "o", "partition": None}]})
    # an engine's sensor roster changes after its first import: a sensor joins (Scenario.addSensor) / leaves (removeSensor)
    # between two steps; the database holds observations by that sensor before and after the change
    fams.append({"start": "2018-12-01T12:00:00", "step": 60, "nsteps": 4, "nt": 2, "ns": 4, "roster": True,
                 "variants": [{"name": "roster_add2_tso", "mode": "tso", "roster": ["add", 3, 2]},
                              {"name": "roster_add3_o_split", "mode": "o", "partition": "split", "roster": ["add", 1, 3]},
                              {"name": "roster_add3_ts_shared_extras", "mode": "ts", "partition": "shared", "roster": ["add", 3, 3], "extras": 1},
                              {"name": "roster_remove3_tso", "mode": "tso", "roster": ["remove", 3, 3]},
                              {"name": "roster_remove2_o_split", "mode": "o", "partition": "split", "roster": ["remove", 0, 2]}]})
    # a target added mid-run by an event while targets are imported: it must be registered with the importer as well
    fams.append({"start": "2018-12-01T12:00:00", "step": 60, "nsteps": 4, "nt": 1, "ns": 2, "add_at": 2,
                 "variants": [{"name": "exact_t_added", "mode": "t"}, {"name": "superset_ts_added", "mode": "ts", "extras": 2},
                              {"name": "gap_added_last", "mode": "t", "gaps": [["added", 0, 4]], "extras": 1}]})
    # two engines (disjoint networks) importing observations; the last variant reads the database with the targets exchanged
    fams.append({"start": "2018-12-01T12:00:00", "step": 60, "nsteps": 3, "nt": 2, "ns": 4, "src_partition": "split",
                 "variants": [{"name": "exact_tso_2eng", "mode": "tso"}, {"name": "exact_o_2eng", "mode": "o"},
                              {"name": "superset_ts_2eng", "mode": "ts", "extras": 1},
                              {"name": "exact_o_2eng_swapped", "mode": "o", "partition": "swapped"},
                              {"name": "dup_obs_o_2eng", "mode": "o", "dup_obs": 2},
                              {"name": "minimal_tso_2eng", "mode": "tso", "drop_tables": "unused"}]})
    # a database produced by a ONE-engine run, read by two-engine scenarios: it holds observations whose sensor and target
    # now belong to different engines (disjoint networks either way round; a target shared by both engines)
    specs = [("2018-12-01T12:00:00", 60, 3)] + ([] if ctx.quick else [("2019-12-31T23:58:07", 300, 4)])
    for start, step, n in specs:
        variants = [{"name": f"xeng_{part}_{mode}", "mode": mode, "partition": part}
                    for part in ("split", "swapped", "shared") for mode in (("o", "tso") if part != "shared" or not ctx.quick else ("o",))]
        variants.append({"name": "xeng_split_thin_obs", "mode": "o", "partition": "split", "drop_obs": 3, "extras": 1})
        variants.append({"name": "xeng_swapped_hole2_o", "mode": "o", "partition": "swapped", "drop_epochs": [2]})
        variants.append({"name": "xeng_split_dup_obs_o", "mode": "o", "partition": "split", "dup_obs": 2})
        variants.append({"name": "xeng_shared_dup_obs3_tso", "mode": "tso", "partition": "shared", "dup_obs": 3})
        fams.append({"start": start, "step": step, "nsteps": n, "nt": 2, "ns": 4, "cross_engine": True, "variants": variants})
    return fams


def run(ctx: Ctx):
    rng = random.Random(ctx.seed + 1919)
    ctx.rule = ("one case = one real run against one derived importer database (mode t/s/o = targets / sensors / observations "
                "imported; exact, superset, gap at (agent, epoch) with or without unrelated extras, whole epochs absent from the database "
                "- hole / every other epoch / tail / all -, thinned observations, observation rows stored twice, importer files holding "
                "only the tables an importer reads, records at instants that are not scenario epochs (fractional-second start), "
                "sensors with identical coordinates; one engine, two engines partitioned as in the "
                "source run or differently: cross-engine observations, shared targets); "
                "non-trivial = anything but the exact copy; distinct by (family, variant)")
    ctx.assumptions = ["importer databases are derived from a real output database with plain sqlite3",
                       "an epoch is 'absent' when its Epoch row and every record hanging on it are deleted (dangling records without "
                       "an Epoch row are not posed: the statement does not say whether they are records of that epoch)",
                       "which engine carries an imported observation to the filter is not bound, only that it arrives exactly once",
                       "a duplicated observation row is an exact copy of a stored row under a new primary key; it must reach the filter "
                       "once (the code's documented intent: 'Dropped duplicate observation') and must not stop the run",
                       "the importer database is consistent with its own foreign keys (an observation whose sensor or target has no "
                       "row in the agents table is not posed)",
                       "an agent's state is matched to importer rows by exact float equality of all six components"]
    # the designed specification must hold over the whole configuration space (with full action coverage); each named
    # deviation must be refuted by the invariant that states the clause it breaks
    mc = [("MCImporter_designed.cfg" if ctx.quick else "MCImporter_designed_thorough.cfg", set()),
          ("MCImporter_coded.cfg", {"ImportFaithful", "NoStaleState"}),
          ("MCImporter_skipepoch.cfg", {"ImportFaithful", "NoStaleState"}),
          ("MCImporter_everyengine.cfg", {"ObsReachFilter"}),
          ("MCImporter_owntargets.cfg", {"ObsReachFilter"}),
          ("MCImporter_wholesecond.cfg", {"ImportFaithful", "NoStaleState"}),
          ("MCImporter_dedupsite.cfg", {"ObsReachFilter"}),
          ("MCImporter_freezeroster.cfg", {"ObsReachFilter"}),
          ("MCImporter_stampcached.cfg", {"OutputFaithful"}),
          ("MCImporter_crashdup.cfg", {"RunContinues"}),
          ("MCImporter_keepdup.cfg", {"ObsReachFilter"}),
          ("MCImporter_createtables.cfg", {"ImporterReadOnly"})]
    fams = make_families(ctx, rng)
    w = max(2, ctx.cpus // 4)
    dirs = {name: ctx.sub(name[:-4]) for name, _ in mc}
    # TLC runs and scenario families share one process pool (no threads in this process: forking a process that runs
    # threads can dead-lock the children); the long jobs go first
    with ProcessPoolExecutor(max_workers=min(ctx.cpus, len(fams) + len(mc), 15)) as ex:
        # the deviation runs are small (they stop at the first counterexample): two workers each
        futs = [ex.submit(_run_mc, name, str(dirs[name]), 2 if expect else (max(4, ctx.cpus // 2) if ctx.quick else ctx.cpus), not expect)
                for name, expect in mc]
        results = list(ex.map(_run_family, sorted(fams, key=lambda f: -len(f["variants"]))))
        tlc_results = [f.result() for f in futs]
    for (name, expect), res in zip(mc, tlc_results):
        res = tlc.require_ok(res)
        ctx.add_tlc(res, f"Importer.tla exhaustive over all importer databases / engine partitions ({name})")
        viol = {v[0] for v in res.invariant_violations} | {v[0] for v in res.property_violations}
        if (expect and not (viol and viol <= expect)) or (not expect and viol):
            raise tlc.MachineryError(f"{name}: expected violation of {sorted(expect) or 'nothing'}, got {sorted(viol)}")
        if not expect:
            actions = ("OpenImporter", "BeginStep", "ImportOk", "SkipImport", "ImportMissing", "LoadObsSome", "UpdateFilters", "EndStep")
            taken = {a: res.coverage.get(f"Importer!{a}", (0, 0))[0] for a in actions}
            ctx.extra["spec_action_coverage"] = taken
            if not all(taken.values()):
                raise tlc.MachineryError(f"{name}: an action of Importer.tla is never taken: {taken}")
    ctx.extra["spec_mutants_killed"] = len(mc) - 1
    traces, owners = [], []
    for r in results:
        for run_ in r["runs"]:
            traces.append(run_["trace"])
            owners.append((r["family"], run_))
    d = ctx.sub("traceimporter")
    (d / "traces.json").write_text(json.dumps(traces))
    res = tlc.require_ok(tlc.run_tlc("TraceImporter", "TraceImporter.cfg", d, workers=min(ctx.cpus, 8), cont=True,
                                     env={"TRACE_FILE": "traces.json"}, timeout=1800))
    ctx.add_tlc(res, f"TraceImporter.tla: {len(traces)} recorded runs")
    if res.property_violations:
        raise tlc.MachineryError("ImporterReadOnly violated inside the trace spec (the spec never changes impdb)")
    reached, why = _positions(res)
    missing = [i + 1 for i in range(len(traces)) if (i + 1) not in reached]
    if missing:
        raise tlc.MachineryError(f"traces {missing[:5]} have no initial state in TraceImporter.tla (configuration not well-formed): "
                                 f"{json.dumps(traces[missing[0] - 1][0])[:400]}")
    inv = {}
    import re
    for name, states in res.invariant_violations:
        if name == "Accept":
            continue
        m = re.findall(r"/\\ tid = (\d+)", "\n".join(states))
        if m:
            inv.setdefault(int(m[-1]), name)
    n_raise = n_absent_raise = n_cross = n_cross_runs = n_dup_once = n_minimal = n_late = n_left = 0
    for i, (fam, run_) in enumerate(owners):
        var = run_["variant"]
        ctx.case((json.dumps(fam, sort_keys=True), var["name"]), nontrivial=not var["name"].startswith("exact"),
                 sample={"family": fam, "variant": var, "trace_head": run_["trace"][1:5]} if len(ctx.samples) < 4 and "gap" in var["name"] else None)
        ctx.traces_validated += 1
        raised = any(e["ev"] == "ImportMissing" for e in run_["trace"])
        n_raise += raised
        n_absent_raise += bool(raised and var.get("drop_epochs"))
        c0 = run_["trace"][0]
        eng_of = {s_: e for e, ss, _ in c0["engines"] for s_ in ss}
        tracks = {e: set(tt) for e, _, tt in c0["engines"]}
        cross = {(k_, t_, s_) for k_, t_, s_ in map(tuple, c0["obs"]) if t_ not in tracks[eng_of[s_]]}
        delivered = {tuple(o) for e in run_["trace"] if e["ev"] == "LoadObs" for _, lst in e["reached"] for o in lst}
        n_cross += len(cross & delivered)
        n_cross_runs += bool(cross & delivered)
        n_dup_once += len({tuple(o) for o in c0["dup"]} & delivered)
        born_ = dict(map(tuple, c0["born"]))
        gone_ = dict(map(tuple, c0["gone"]))
        n_late += len({o for o in delivered if born_.get(o[2], 0) > 1})
        n_left += len({(k_, t_, s_) for k_, t_, s_ in map(tuple, c0["obs"]) if k_ >= gone_.get(s_, 99)} - delivered)
        n_minimal += c0["schema"] == "minimal"
        pos = reached[i + 1]
        ok = pos == len(traces[i]) + 1 and (i + 1) not in inv
        if not ok:
            ev = traces[i][pos - 1] if pos <= len(traces[i]) else {}
            kind = "absent-epoch" if var.get("drop_epochs") else "gap" if var.get("gaps") else ("thinobs" if var.get("drop_obs") else "complete")
            kind = ("roster-change+" if var.get("roster") else "") + kind
            kind = ("subsecond-epochs+" if c0["near"] or fam.get("start_ms") else "") + ("colocated-sensors+" if fam.get("colocate") else "") + kind
            kind = ("dup-obs+" if c0["dup"] else "") + ("minimal-schema+" if var.get("drop_tables") else "") + kind
            if len(c0["engines"]) > 1:
                kind += "+cross-engine-obs" if cross else "+several-engines"
            extras = "with-unrelated" if var.get("extras") else "no-unrelated"
            reason = why.get(i + 1)
            what = inv.get(i + 1) or reason or ("crash" if ev.get("ev") == "Crash" else f"unexplained-{ev.get('ev', 'end')}")
            sig = f"importer:{kind}:{extras}:{what}"
            ctx.violation(sig, f"{sig}: variant {json.dumps(var)} of family {json.dumps(fam)} at trace line {pos}: {json.dumps(ev)[:300]}",
                          {"family": dict(fam, variants=[{k: v for k, v in var.items()}]), "trace": traces[i]})
    ctx.extra["runs_that_raised_missing_ephemeris"] = n_raise
    ctx.extra["runs_that_raised_at_an_epoch_absent_from_the_importer"] = n_absent_raise
    ctx.extra["cross_engine_observations_delivered"] = n_cross
    ctx.extra["runs_with_cross_engine_observations_delivered"] = n_cross_runs
    ctx.extra["observations_stored_twice_that_were_delivered"] = n_dup_once
    ctx.extra["runs_against_an_importer_file_with_only_the_tables_an_importer_reads"] = n_minimal
    if n_raise == 0:
        raise tlc.MachineryError("no derived database made the run raise MissingEphemerisError (gap derivation ineffective)")
    ctx.extra["observations_delivered_of_a_sensor_that_joined_after_the_first_import"] = n_late
    ctx.extra["stored_observations_of_a_sensor_after_it_left_that_were_not_delivered"] = n_left
    if not [v for v in ctx.violations if "colocated" not in v["signature"]] and (n_late == 0 or n_left == 0):
        raise tlc.MachineryError(f"vacuous: observations of a late-joining sensor delivered = {n_late}, of a removed sensor withheld = {n_left}")
    if not ctx.violations and (n_absent_raise == 0 or n_cross == 0 or n_dup_once == 0 or n_minimal == 0):
        raise tlc.MachineryError(f"vacuous: runs raising at an absent epoch = {n_absent_raise}, cross-engine observations delivered = {n_cross}, "
                                 f"stored-twice observations delivered = {n_dup_once}, minimal-schema runs = {n_minimal}")


def replay(ctx: Ctx, rp: dict):
    fam = rp["replay"]["family"]
    # the stored variant has real ids in gaps; convert back is not possible -> rerun the whole family description
    name = fam["variants"][0]["name"]
    same = lambda f: all(f.get(k_) == fam.get(k_) for k_ in set(f) | set(fam) if k_ != "variants")  # noqa: E731
    fams = [f for f in make_families(ctx, random.Random(0)) if same(f) and any(v["name"] == name for v in f["variants"])]
    if not fams:
        raise tlc.MachineryError(f"replay: no family of tier {ctx.tier} has the variant {name} (try the tier the replay file was written by)")
    for f in fams:
        f["variants"] = [v for v in f["variants"] if v["name"] == name]
    r = _run_family(fams[0])
    traces = [x["trace"] for x in r["runs"]]
    d = ctx.sub("traceimporter")
    (d / "traces.json").write_text(json.dumps(traces))
    res = tlc.require_ok(tlc.run_tlc("TraceImporter", "TraceImporter.cfg", d, workers=1, cont=True, env={"TRACE_FILE": "traces.json"}))
    ctx.add_tlc(res, "replay")
    pos = max([t[1] for t in res.tuples("AT")] or [1])
    _, why = _positions(res)
    ctx.case(("replay", name))
    ctx.case(("replay-done",))
    if pos != len(traces[0]) + 1 or any(n != "Accept" for n, _ in res.invariant_violations):
        ctx.violation("importer:replay", f"variant {name} still not a behaviour of Importer.tla ({why.get(1)})", {"family": fam})
