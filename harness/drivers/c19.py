"""C19 - imported ephemerides / observations are used faithfully; the importer stays read-only.

1. TLC checks Importer.tla exhaustively over EVERY importer row set (two scenario agents, two
   unrelated agents, two epochs, every realtime/imported mix, every observation set):
   ImportFaithful, NoStaleState (a gap must raise), ObsReachFilter, ImporterReadOnly; the
   as-coded count-based completeness check (D9) must yield a counterexample.
2. impl -> spec: a real realtime run produces a source database; importer databases are DERIVED
   from it with plain sqlite3 (exact copy; supersets with unrelated agents; subsets with a gap
   at a chosen epoch for a chosen registered agent, with and without unrelated extras; thinned
   observation rows) and the REAL scenario is run against each (targets imported / sensors
   imported / both; imported observations).  Per step the driver logs which database record
   each imported agent's state is bit-equal to, whether MissingEphemerisError was raised, the
   observations handed to every EstUpdate job, and the SHA-256 of the importer file before and
   after; TLC validates the traces against TraceImporter.tla.
"""
from __future__ import annotations

import hashlib
import json
import os
import random
import shutil
import sqlite3
import tempfile
from concurrent.futures import ProcessPoolExecutor

from .. import tlc
from ..core import Ctx

LEVEL = "model_checking"
UNRELATED = [77701, 77702, 77703]


def _sha(path):
    return hashlib.sha256(open(path, "rb").read()).hexdigest()


def _base_cfg(fam, importer=False, mode=None):
    from harness import scenario_util as su
    # minimal_init.json: one target (ISS) and sensors at shared sites (RTS MMW / RTS TRADEX are ~200 m apart, the MSSS
    # telescopes ~100 m); the greedy policy makes several sensors observe the same target at the same epoch, so the
    # importer's duplicate filter sees near-coincident but distinct observations
    cfg = su.base_config(start=fam["start"], step=fam["step"], n_steps=fam["nsteps"], n_targets=1, n_sensors=fam["ns"],
                         decision="MyopicNaiveGreedyDecision", model="two_body", seed=3, template="minimal_init.json",
                         extra_targets=[su.target_cfg(50001 + i, sma_km=7100.0 + 200 * i, inc_deg=30.0 + 15 * i, ta_deg=40.0 * i)
                                        for i in range(fam["nt"] - 1)])
    if fam.get("two_engines"):
        # two tasking engines with disjoint networks: each loads imported observations in its own assess()
        import copy as _copy
        eng = cfg["engines"][0]
        e2 = _copy.deepcopy(eng)
        e2["unique_id"] = eng["unique_id"] + 1
        e2["targets"], e2["sensors"] = eng["targets"][1:], eng["sensors"][2:]
        eng["targets"], eng["sensors"] = eng["targets"][:1], eng["sensors"][:2]
        cfg["engines"] = [eng, e2]
    if fam.get("add_at"):
        # a target joins the scenario mid-run (public target_addition event) in the source run AND in every variant
        from harness.drivers import c01
        _ecfg, _meta = c01.build_case({"start": fam["start"], "step": fam["step"], "nsteps": fam["nsteps"], "seed": 1,
                                       "events": [{"kind": "addTarget", "t0": (fam["add_at"] - 1) * fam["step"] + 1}]})
        ev = _ecfg["events"][0]
        ev["tasking_engine_id"] = cfg["engines"][0]["unique_id"]
        cfg["events"] = [ev]
    if importer:
        cfg["propagation"]["target_realtime_propagation"] = "t" not in mode
        cfg["propagation"]["sensor_realtime_propagation"] = "s" not in mode
        cfg.setdefault("observation", {})["realtime_observation"] = "o" not in mode
    return cfg


def _make_source(fam, path):
    """A real realtime run whose output database becomes the importer source."""
    import numpy as np
    from harness import scenario_util as su
    import random as _r

    from harness import tracer
    cfg = _base_cfg(fam)
    np.random.seed(1)
    # table-driven sensing so that the source run certainly produces observations (real Observation rows)
    tracer.install_table_env()
    app = su.build(cfg, db_path=su.file_db_url(path))
    tracer.start(app, tracer.TableEnv(_r.Random(5), p_vis=1.0, p_slew=1.0, p_hit=0.85, serendipity=False))
    try:
        su.run_for(app, fam["nsteps"] * fam["step"])
    finally:
        tracer.stop()
    from resonaate.data import clearDBPath
    clearDBPath()
    return cfg


def _derive(src, dst, var, fam):
    """Derive an importer database with plain sqlite3."""
    shutil.copy(src, dst)
    con = sqlite3.connect(dst)
    cur = con.cursor()
    jds = [r[0] for r in cur.execute("SELECT julian_date FROM epochs ORDER BY julian_date")]
    for n, uid in enumerate(UNRELATED[:var.get("extras", 0)]):
        cur.execute("INSERT INTO agents (unique_id, name) VALUES (?, ?)", (uid, f"unrelated{n}"))
        for j, jd in enumerate(jds):
            if var.get("extras_gap") is not None and j == var["extras_gap"]:
                continue
            cur.execute("INSERT INTO truth_ephemerides (julian_date, agent_id, pos_x_km, pos_y_km, pos_z_km, vel_x_km_p_sec, "
                        "vel_y_km_p_sec, vel_z_km_p_sec) VALUES (?,?,?,?,?,?,?,?)", (jd, uid, 7000.0 + n, 0.0, 0.0, 0.0, 7.5, 0.0))
    for aid, j in var.get("gaps", []):
        cur.execute("DELETE FROM truth_ephemerides WHERE agent_id = ? AND julian_date = ?", (aid, jds[j]))
    if var.get("drop_obs"):
        rows = [r[0] for r in cur.execute("SELECT id FROM observations ORDER BY id")]
        for i, rid in enumerate(rows):
            if i % var["drop_obs"] == 0:
                cur.execute("DELETE FROM observations WHERE id = ?", (rid,))
    con.commit()
    con.close()


def _importer_tables(path, fam):
    """(rows {(agent, k): 6-tuple}, obs [(k, t, s)]) read with plain sqlite3."""
    con = sqlite3.connect(path)
    cur = con.cursor()
    jds = [r[0] for r in cur.execute("SELECT julian_date FROM epochs ORDER BY julian_date")]
    kof = {jd: i for i, jd in enumerate(jds)}
    rows = {}
    for r in cur.execute("SELECT julian_date, agent_id, pos_x_km, pos_y_km, pos_z_km, vel_x_km_p_sec, vel_y_km_p_sec, vel_z_km_p_sec "
                         "FROM truth_ephemerides"):
        rows[(int(r[1]), kof[r[0]])] = tuple(float(x) for x in r[2:])
    obs = [(kof[r[0]], int(r[1]), int(r[2])) for r in cur.execute("SELECT julian_date, target_id, sensor_id FROM observations")]
    con.close()
    return rows, obs


def _run_variant(fam, var, src, workdir):
    import numpy as np
    from harness import scenario_util as su
    from harness import sched
    from resonaate.common.exceptions import MissingEphemerisError
    from resonaate.dynamics.importer import EphemerisImporter
    from resonaate.parallel import estimate_update as eu
    dst = os.path.join(workdir, f"imp_{var['name']}.sqlite3")
    _derive(src, dst, var, fam)
    rows, obs = _importer_tables(dst, fam)
    before = _sha(dst)
    cfg = _base_cfg(fam, importer=True, mode=var["mode"])
    tids = [t["id"] for e in cfg["engines"] for t in e["targets"]]
    sids = [s["id"] for e in cfg["engines"] for s in e["sensors"]]
    born = {}
    if fam.get("add_at"):
        from harness.drivers import c01
        tids = tids + [c01.NEW_TARGET_ID]
        born[c01.NEW_TARGET_ID] = fam["add_at"]
    imported = (tids if "t" in var["mode"] else []) + (sids if "s" in var["mode"] else [])
    A = lambda i: f"a{i}"  # noqa: E731
    # the observation table only matters when observations are imported
    trace = [{"ev": "Config", "agents": [A(i) for i in tids + sids], "imported": [A(i) for i in imported],
              "targets": [A(i) for i in tids],
              "rows": sorted([A(a), k] for (a, k) in rows if k >= 1),
              "obs": sorted([k, A(t), A(s)] for (k, t, s) in obs if k >= 1),
              "nsteps": fam["nsteps"], "born": [[A(i), born.get(i, 0)] for i in tids + sids]}]
    state = {"k": 0, "raised": False, "updates": {}}
    orig_import = EphemerisImporter.importEphemerides
    orig_gen = eu.EstUpdateRegistration.generateSubmission

    def held_proj(app):
        out = []
        for aid, ag in list(app.target_agents.items()) + list(app.sensor_agents.items()):
            if aid not in imported:
                continue          # realtime agents are merged later in the step (propagation jobs)
            cur = tuple(float(x) for x in np.asarray(ag.eci_state, float).ravel())
            match = [k for (a, k), v in rows.items() if a == aid and v == cur]
            # the agent's derived Earth-fixed state must belong to the same epoch as the imported inertial state
            derived_ok = True
            if hasattr(ag, "ecef_state"):
                from datetime import timedelta
                from resonaate.physics.transforms.methods import eci2ecef
                auth = state["app"].clock.datetime_start + timedelta(seconds=state["k"] * fam["step"])
                want = eci2ecef(np.asarray(ag.eci_state, float), auth)
                derived_ok = bool(np.linalg.norm(np.asarray(ag.ecef_state, float)[:3] - want[:3]) < 1e-3)
            if match:
                out.append([A(aid), "import", max(match), derived_ok])
            else:
                out.append([A(aid), "init" if state["k"] == 0 else "unknown", 0, derived_ok])
        return out

    def imp(self, datetime_epoch):
        try:
            res = orig_import(self, datetime_epoch)
        except MissingEphemerisError:
            state["raised"] = True
            trace.append({"ev": "ImportMissing"})
            raise
        trace.append({"ev": "ImportOk", "held": held_proj(state["app"])})
        return res

    def gen(self):
        sub = orig_gen(self)
        state["updates"][self._registrant.simulation_id] = [
            [int(round((float(o.julian_date) - float(state["app"].clock.julian_date_start)) * 86400.0 / fam["step"])),
             A(o.target_id), A(o.sensor_id)] for o in self._observations if getattr(o, "id", None) is not None]
        # (observations loaded from the importer database carry their primary key; those made in this run do not)
        return sub

    EphemerisImporter.importEphemerides = imp
    eu.EstUpdateRegistration.generateSubmission = gen
    crashed = None
    try:
        np.random.seed(2)
        app = su.build(cfg, importer_db_path=su.file_db_url(dst))
        state["app"] = app
        sched.set_chooser(None)
        orig_step = app.stepForward

        def step():
            state["k"] += 1
            state["updates"] = {}
            trace.append({"ev": "BeginStep", "k": state["k"]})
            if not imported:
                trace.append({"ev": "SkipImport"})     # configuration: nothing is imported, no importer object exists
            orig_step()
            trace.append({"ev": "LoadObs", "reached": [[A(t), sorted(state["updates"].get(t, []))] for t in tids]})
            trace.append({"ev": "EndStep"})

        app.stepForward = step
        try:
            su.run_for(app, fam["nsteps"] * fam["step"])
        except MissingEphemerisError:
            pass
        except Exception as ex:  # noqa: BLE001
            crashed = f"{type(ex).__name__}: {ex}"[:300]
            trace.append({"ev": "Crash", "error": crashed})
    finally:
        EphemerisImporter.importEphemerides = orig_import
        eu.EstUpdateRegistration.generateSubmission = orig_gen
        try:
            from resonaate.data import clearDBPath
            clearDBPath()
        except Exception:  # noqa: BLE001
            pass
    trace.append({"ev": "EndRun", "unchanged": _sha(dst) == before})
    return {"variant": var, "trace": trace, "crashed": crashed}


def _run_family(fam):
    workdir = tempfile.mkdtemp(prefix="verif_c19_")
    try:
        src = os.path.join(workdir, "source.sqlite3")
        cfg = _make_source(fam, src)
        tids = [t["id"] for e in cfg["engines"] for t in e["targets"]]
        sids = [s["id"] for e in cfg["engines"] for s in e["sensors"]]
        out = []
        for var in fam["variants"]:
            v = dict(var)
            # symbolic gap targets -> real ids
            from harness.drivers import c01 as _c01
            v["gaps"] = [(_c01.NEW_TARGET_ID if kind == "added" else (tids if kind == "t" else sids)[idx], j)
                         for kind, idx, j in var.get("gaps", [])]
            out.append(_run_variant(fam, v, src, workdir))
        return {"family": {k: v for k, v in fam.items() if k != "variants"}, "runs": out}
    finally:
        shutil.rmtree(workdir, ignore_errors=True)


def make_families(ctx: Ctx, rng):
    fams = []
    specs = [("2018-12-01T12:00:00", 60, 3), ("2019-12-31T23:58:07", 300, 3)]
    if not ctx.quick:
        specs += [("2020-02-29T23:59:30", 7, 4), ("2021-06-15T03:17:41", 120, 4), ("2018-12-01T12:00:59", 60, 5)]
    for start, step, n in specs:
        variants = []
        for mode in ("t", "s", "ts", "tso", "o"):
            variants.append({"name": f"exact_{mode}", "mode": mode})
            variants.append({"name": f"superset_{mode}", "mode": mode, "extras": 2})
        # gaps: every (imported agent kind, epoch), with and without unrelated extras (D9: extras mask the gap)
        for j in range(1, n + 1):
            for kind, mode in (("t", "t"), ("s", "s"), ("t", "ts"), ("s", "tso")):
                if ctx.quick and (j + len(kind) + len(mode)) % 2:
                    continue
                variants.append({"name": f"gap_{kind}{j}_{mode}", "mode": mode, "gaps": [[kind, 0, j]]})
                variants.append({"name": f"gap_{kind}{j}_{mode}_extras", "mode": mode, "gaps": [[kind, 0, j]], "extras": 2})
                variants.append({"name": f"gap_{kind}{j}_{mode}_extra1", "mode": mode, "gaps": [[kind, -1, j]], "extras": 1})
        variants.append({"name": "thin_obs", "mode": "tso", "drop_obs": 2})
        variants.append({"name": "thin_obs3_extras", "mode": "o", "drop_obs": 3, "extras": 1})
        variants.append({"name": "extras_gap", "mode": "ts", "extras": 2, "extras_gap": 2})
        fams.append({"start": start, "step": step, "nsteps": n, "nt": 2, "ns": 4, "variants": variants})
    # a target added mid-run by an event while targets are imported: it must be registered with the importer as well
    fams.append({"start": "2018-12-01T12:00:00", "step": 60, "nsteps": 4, "nt": 1, "ns": 2, "add_at": 2,
                 "variants": [{"name": "exact_t_added", "mode": "t"}, {"name": "superset_ts_added", "mode": "ts", "extras": 2},
                              {"name": "gap_added_last", "mode": "t", "gaps": [["added", 0, 4]], "extras": 1}]})
    # two engines (disjoint networks) importing observations
    fams.append({"start": "2018-12-01T12:00:00", "step": 60, "nsteps": 3, "nt": 2, "ns": 4, "two_engines": True,
                 "variants": [{"name": "exact_tso_2eng", "mode": "tso"}, {"name": "exact_o_2eng", "mode": "o"},
                              {"name": "superset_ts_2eng", "mode": "ts", "extras": 1}]})
    return fams


def run(ctx: Ctx):
    rng = random.Random(ctx.seed + 1919)
    ctx.rule = ("one case = one real run against one derived importer database (mode t/s/o = targets / sensors / observations "
                "imported; exact, superset, gap at (agent, epoch) with or without unrelated extras, thinned observations); "
                "non-trivial = anything but the exact copy; distinct by (family, variant)")
    ctx.assumptions = ["importer databases are derived from a real output database with plain sqlite3",
                       "an agent's state is matched to importer rows by exact float equality of all six components"]
    for name, expect in (("MCImporter_designed.cfg", False), ("MCImporter_coded.cfg", True)):
        res = tlc.require_ok(tlc.run_tlc("MCImporter", name, ctx.sub(name[:-4]), workers=ctx.cpus, timeout=1800))
        ctx.add_tlc(res, f"Importer.tla exhaustive over all importer row sets ({name})")
        viol = [v[0] for v in res.invariant_violations] + [v[0] for v in res.property_violations]
        if bool(viol) != expect:
            raise tlc.MachineryError(f"{name}: expected violation={expect}, got {viol}")
    ctx.extra["spec_mutants_killed"] = 1
    fams = make_families(ctx, rng)
    with ProcessPoolExecutor(max_workers=min(ctx.cpus, len(fams), 8)) as ex:
        results = list(ex.map(_run_family, fams))
    traces, owners = [], []
    for r in results:
        for run_ in r["runs"]:
            traces.append(run_["trace"])
            owners.append((r["family"], run_))
    d = ctx.sub("traceimporter")
    (d / "traces.json").write_text(json.dumps(traces))
    res = tlc.require_ok(tlc.run_tlc("TraceImporter", "TraceImporter.cfg", d, workers=min(ctx.cpus, 8), cont=True,
                                     env={"TRACE_FILE": "traces.json"}, timeout=1800))
    ctx.add_tlc(res, f"TraceImporter.tla: {len(traces)} recorded runs")
    if res.property_violations:
        raise tlc.MachineryError("ImporterReadOnly violated inside the trace spec (the spec never changes impdb)")
    reached = {}
    for t_id, pos, end in res.tuples("AT"):
        reached[t_id] = max(reached.get(t_id, 0), pos)
    inv = {}
    import re
    for name, states in res.invariant_violations:
        if name == "Accept":
            continue
        m = re.findall(r"/\\ tid = (\d+)", "\n".join(states))
        if m:
            inv.setdefault(int(m[-1]), name)
    n_raise = 0
    for i, (fam, run_) in enumerate(owners):
        var = run_["variant"]
        ctx.case((json.dumps(fam, sort_keys=True), var["name"]), nontrivial=not var["name"].startswith("exact"),
                 sample={"family": fam, "variant": var, "trace_head": run_["trace"][1:5]} if len(ctx.samples) < 4 and "gap" in var["name"] else None)
        ctx.traces_validated += 1
        n_raise += any(e["ev"] == "ImportMissing" for e in run_["trace"])
        pos = reached.get(i + 1, 2)
        ok = pos == len(traces[i]) + 1 and (i + 1) not in inv
        if not ok:
            ev = traces[i][pos - 1] if pos <= len(traces[i]) else {}
            kind = "gap" if var.get("gaps") else ("thinobs" if var.get("drop_obs") else "complete")
            extras = "with-unrelated" if var.get("extras") else "no-unrelated"
            what = inv.get(i + 1) or ("crash" if ev.get("ev") == "Crash" else f"unexplained-{ev.get('ev', 'end')}")
            sig = f"importer:{kind}:{extras}:{what}"
            ctx.violation(sig, f"{sig}: variant {json.dumps(var)} of family {json.dumps(fam)} at trace line {pos}: {json.dumps(ev)[:300]}",
                          {"family": dict(fam, variants=[{k: v for k, v in var.items()}]), "trace": traces[i]})
    ctx.extra["runs_that_raised_missing_ephemeris"] = n_raise
    if n_raise == 0:
        raise tlc.MachineryError("no derived database made the run raise MissingEphemerisError (gap derivation ineffective)")


def replay(ctx: Ctx, rp: dict):
    fam = rp["replay"]["family"]
    # the stored variant has real ids in gaps; convert back is not possible -> rerun the whole family description
    fams = [f for f in make_families(ctx, random.Random(0)) if f["start"] == fam["start"] and f["step"] == fam["step"]]
    name = fam["variants"][0]["name"]
    for f in fams:
        f["variants"] = [v for v in f["variants"] if v["name"] == name]
    r = _run_family(fams[0])
    traces = [x["trace"] for x in r["runs"]]
    d = ctx.sub("traceimporter")
    (d / "traces.json").write_text(json.dumps(traces))
    res = tlc.require_ok(tlc.run_tlc("TraceImporter", "TraceImporter.cfg", d, workers=1, cont=True, env={"TRACE_FILE": "traces.json"}))
    ctx.add_tlc(res, "replay")
    pos = max([t[1] for t in res.tuples("AT")] or [1])
    ctx.case(("replay", name))
    ctx.case(("replay-done",))
    if pos != len(traces[0]) + 1 or any(n != "Accept" for n, _ in res.invariant_violations):
        ctx.violation("importer:replay", f"variant {name} still not a behaviour of Importer.tla", {"family": fam})
