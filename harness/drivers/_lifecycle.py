"""Recorder of the estimate-agent life-cycle (EstimateLifecycle.tla / TraceEstimateLifecycle.tla).

Wrappers installed FROM OUTSIDE on the method boundaries of the real classes; nothing in /repo is
edited.  One event per specification action, emitted when the method returns:

  driver process            EstPredictRegistration.processResults   -> Predict
                            first asyncUpdateEstimate body of a step -> PutEstimates (ray.put snapshot taken)
                            EstUpdateRegistration.processResults    -> CompleteUpdate
                            Scenario.stepForward / saveDatabaseOutput -> BeginStep / SaveOutput / SkipOutput
  update job (runs in-process under the stand-in, on the un-pickled COPY of the agent)
                            outermost nominal_filter.update          -> UpdateNoObs | UpdateObs | AdaptiveStep
                            EstimateAgent._handleManeuverDetection   -> RecordManeuver
                            EstimateAgent._handleIOD                 -> BeginIOD, IODStep
                            EstimateAgent._beginAdaptiveEstimation   -> BeginAdaptive
                            EstimateAgent._handleMMAE                -> CloseAdaptive
                            asyncUpdateEstimate return value         -> WorkerReturn

Floats never leave this module: times become step indices (round(t / dt)), flags become lists of
names, filters become "seq" | "mmae".
"""
from __future__ import annotations

import functools

_REC = [None]
_INSTALLED = [False]
NONE = -1          # iod_start_time is None
OFFGRID = -2       # a time that is not a step epoch


def T(i):
    return f"t{i}"


class LifeRecorder:
    def __init__(self, app):
        self.app = app
        self.dt = float(app.clock.dt_step)
        self.jd0 = float(app.clock.julian_date_start)
        self.events: list[dict] = []
        self.k = 0
        self.saved = True          # the initial save belongs to step 0
        self.put_emitted = False
        self.in_agent_update = 0   # depth of EstimateAgent._update (suppresses nested filter updates)
        self.filter_depth = 0
        self.errors: list[str] = []

    def emit(self, ev, **kw):
        kw["ev"] = ev
        self.events.append(kw)

    def idx(self, t):
        """scenario time -> step index; OFFGRID when it is not a step epoch (to 1 ms)."""
        if t is None:
            return NONE
        q = float(t) / self.dt
        return int(round(q)) if abs(q - round(q)) * self.dt < 1e-3 else OFFGRID

    def jidx(self, jd):
        q = (float(jd) - self.jd0) * 86400.0 / self.dt
        return int(round(q)) if abs(q - round(q)) * self.dt < 1e-2 else OFFGRID     # Julian dates resolve ~1e-5 s

    def pend(self, agent):
        return [self.jidx(m.julian_date) for m in agent._detected_maneuvers]  # noqa: SLF001

    def fproj(self, f):
        """Projection of a filter object: kind, flag names, epoch index, maneuver_detected."""
        from resonaate.estimation.adaptive.adaptive_filter import AdaptiveFilter
        from resonaate.estimation.sequential_filter import FilterFlag
        names = {FilterFlag.MANEUVER_DETECTION: "MD", FilterFlag.ADAPTIVE_ESTIMATION_START: "START",
                 FilterFlag.ADAPTIVE_ESTIMATION_CLOSE: "CLOSE", FilterFlag.INITIAL_ORBIT_DETERMINATION_START: "IODSTART"}
        mm = isinstance(f, AdaptiveFilter)
        d = {"kind": "mmae" if mm else "seq", "flags": sorted(n for fl, n in names.items() if fl in f.flags),
             "ftime": self.idx(f.time), "fdet": bool(f.maneuver_detected)}
        if mm:
            d["orig"] = self.idx(f._original_filter.time)  # noqa: SLF001   epoch of the frozen nominal filter
        return d


def rec():
    return _REC[0]


def start(app):
    install()
    _REC[0] = LifeRecorder(app)
    return _REC[0]


def stop():
    r = _REC[0]
    _REC[0] = None
    return r


def _wrap(cls, name, before=None, after=None, on_error=None):
    orig = getattr(cls, name)

    @functools.wraps(orig)
    def w(self, *a, **k):
        r = _REC[0]
        tok = before(r, self, a, k) if (r is not None and before) else None
        try:
            res = orig(self, *a, **k)
        except Exception as ex:  # noqa: BLE001
            if r is not None and on_error:
                on_error(r, self, a, k, ex, tok)
            raise
        if r is not None and after:
            after(r, self, a, k, res, tok)
        return res

    setattr(cls, name, w)


def install():
    if _INSTALLED[0]:
        return
    _INSTALLED[0] = True
    from harness import sched
    from resonaate.agents.estimate_agent import EstimateAgent
    from resonaate.estimation.adaptive.adaptive_filter import AdaptiveFilter
    from resonaate.estimation.adaptive.gpb1 import GeneralizedPseudoBayesian1
    from resonaate.estimation.adaptive.smm import StaticMultipleModel
    from resonaate.estimation.kalman.unscented_kalman_filter import UnscentedKalmanFilter
    from resonaate.estimation.sequential_filter import FilterFlag
    from resonaate.parallel import estimate_prediction as ep
    from resonaate.parallel import estimate_update as eu
    from resonaate.scenario.scenario import Scenario

    def in_update_job():
        return bool(sched.CURRENT_JOB) and sched.CURRENT_JOB[-1] == "asyncUpdateEstimate"

    # ---- driver side: step, predict merge, update merge, output ---------------------------------
    def before_step(r, self, a, k):
        if not r.saved:
            r.emit("SkipOutput")
        r.k += 1
        r.saved = False
        r.put_emitted = False
        r.emit("BeginStep", k=r.k)

    _wrap(Scenario, "stepForward", before_step, None)

    def after_predict(r, self, a, k, res, tok):
        ag = self._registrant  # noqa: SLF001
        r.emit("Predict", t=T(ag.simulation_id), at=r.idx(ag.time), **r.fproj(ag.nominal_filter),
               est_is_pred=bool(ag.state_estimate is a[0].pred_x))

    _wrap(ep.EstPredictRegistration, "processResults", None, after_predict)

    def after_merge(r, self, a, k, res, tok):
        ag = self._registrant  # noqa: SLF001
        f = ag.nominal_filter
        r.emit("CompleteUpdate", t=T(ag.simulation_id), at=r.idx(ag.time), **r.fproj(f), iod=r.idx(ag.iod_start_time),
               pend=r.pend(ag), last_obs=r.jidx(ag.last_observed_at), nfs=len(ag._filter_info),  # noqa: SLF001
               fs=[r.jidx(s.julian_date) for s in ag._filter_info],  # noqa: SLF001
               est_is_upd=bool(ag.state_estimate is f.est_x and ag.error_covariance is f.est_p),
               nobs=len(self._observations), iod_active=bool(ag.iod_active),  # noqa: SLF001
               same_filter=bool(f is a[0].updated_filter))

    _wrap(eu.EstUpdateRegistration, "processResults", None, after_merge)

    def after_save(r, self, a, k, res, tok):
        from sqlalchemy import text
        r.saved = True
        man, fs = {}, {}
        with self.database._getSessionScope() as session:  # noqa: SLF001
            for tid, jd in session.execute(text("SELECT target_id, julian_date FROM detected_maneuvers")).fetchall():
                man.setdefault(T(tid), []).append(r.jidx(jd))
            for tid, jd in session.execute(text("SELECT target_id, julian_date FROM filterstep")).fetchall():
                fs.setdefault(T(tid), []).append(r.jidx(jd))
        tg = [T(i) for i in sorted(self.estimate_agents)]
        r.emit("SaveOutput", k=r.k,
               man=[[t, sorted(man.get(t, []))] for t in tg], fs=[[t, sorted(fs.get(t, []))] for t in tg],
               pend=[[T(i), r.pend(ag)] for i, ag in sorted(self.estimate_agents.items())],
               nfs=[[T(i), len(ag._filter_info)] for i, ag in sorted(self.estimate_agents.items())])  # noqa: SLF001

    _wrap(Scenario, "saveDatabaseOutput", None, after_save)

    # ---- the update job body (worker side; the stand-in runs it in-process) --------------------------
    fn = eu.asyncUpdateEstimate
    orig_body = fn._fn  # noqa: SLF001   (the stand-in's remote-function object keeps the body here)

    @functools.wraps(orig_body)
    def body(submission):
        r = _REC[0]
        if r is not None and not r.put_emitted:
            r.put_emitted = True
            r.emit("PutEstimates")
        res = orig_body(submission)
        if r is not None:
            class _A:  # projection helper: the result carries the same fields as the agent
                _detected_maneuvers = res.detected_maneuvers
            r.emit("WorkerReturn", t=T(res.estimate_id), observed=bool(res.observed), **r.fproj(res.updated_filter),
                   iod=r.idx(res.iod_start_time), pend=r.pend(_A))
        return res

    fn._fn = body  # noqa: SLF001

    def wrap_filter_update(cls):
        if "update" not in cls.__dict__:
            return
        orig = cls.__dict__["update"]

        @functools.wraps(orig)
        def upd(self, observations):
            r = _REC[0]
            top = r is not None and in_update_job() and r.filter_depth == 0 and r.in_agent_update == 0
            if r is not None:
                r.filter_depth += 1
            before_flags = self.flags
            try:
                res = orig(self, observations)
            finally:
                if r is not None:
                    r.filter_depth -= 1
            if top:
                p = r.fproj(self)
                if not observations:
                    r.emit("UpdateNoObs", t=T(self.target_id), **p, flags_kept=bool(self.flags == before_flags))
                elif p["kind"] == "mmae":
                    r.emit("AdaptiveStep", t=T(self.target_id), conv=bool(FilterFlag.ADAPTIVE_ESTIMATION_CLOSE in self.flags),
                           has_conv=bool(self.converged_filter is not None), **p)
                else:
                    r.emit("UpdateObs", t=T(self.target_id), det=bool(self.maneuver_detected), **p)
            return res

        cls.update = upd

    for c in (UnscentedKalmanFilter, AdaptiveFilter, StaticMultipleModel, GeneralizedPseudoBayesian1):
        wrap_filter_update(c)

    def before_aupd(r, self, a, k):
        r.in_agent_update += 1

    def after_aupd(r, self, a, k, res, tok):
        r.in_agent_update -= 1

    _wrap(EstimateAgent, "_update", before_aupd, after_aupd)

    _wrap(EstimateAgent, "_handleManeuverDetection", lambda r, self, a, k: len(self._detected_maneuvers),  # noqa: SLF001
          lambda r, self, a, k, res, tok: r.emit("RecordManeuver", t=T(self.simulation_id), at=r.idx(self.time),
                                                 added=len(self._detected_maneuvers) - tok, pend=r.pend(self)))  # noqa: SLF001

    # IOD
    def before_iod(r, self, a, k):
        return {"start": self.iod_start_time, "attempts": []}

    def after_iod(r, self, a, k, res, tok):
        att = getattr(self, "_g02_attempts", [])
        self._g02_attempts = []
        b, now = tok["start"], r.idx(self.time)
        began = False
        if not att:
            began = self.iod_start_time is not None and (b is None or r.idx(b) != r.idx(self.iod_start_time))
        else:
            # an attempt happened: did a (re)start precede it?  (start is set before the attempt)
            began = att[0]["start"] != r.idx(b)
        if began:
            r.emit("BeginIOD", t=T(self.simulation_id), at=now, start=att[0]["start"] if att else r.idx(self.iod_start_time))
        for x in att:
            r.emit("IODStep", t=T(self.simulation_id), at=now, ok=x["ok"], iod=r.idx(self.iod_start_time),
                   x_replaced=bool(x["ok"] and self.nominal_filter.est_x is x["state"]))

    _wrap(EstimateAgent, "_handleIOD", before_iod, after_iod)

    def after_attempt(r, self, a, k, res, tok):
        lst = getattr(self, "_g02_attempts", None)
        if lst is None:
            lst = self._g02_attempts = []
        lst.append({"ok": bool(res[0]), "state": res[1], "start": tok})

    _wrap(EstimateAgent, "_attemptInitialOrbitDetermination", lambda r, self, a, k: r.idx(self.iod_start_time), after_attempt)

    # MMAE
    def before_begin(r, self, a, k):
        return {"flags": self.nominal_filter.flags, "f": self.nominal_filter}

    def after_begin(r, self, a, k, res, tok):
        had = FilterFlag.ADAPTIVE_ESTIMATION_START in tok["flags"]
        if not had:
            return      # the method returned at its first line: no transition
        started = self.nominal_filter is not tok["f"]
        r.emit("BeginAdaptive", t=T(self.simulation_id), at=r.idx(self.time), ok=bool(started), nobs=len(a[0]), crashed=False,
               old_kind=r.fproj(tok["f"])["kind"], conv=bool(FilterFlag.ADAPTIVE_ESTIMATION_CLOSE in self.nominal_filter.flags),
               **r.fproj(self.nominal_filter))

    def error_begin(r, self, a, k, ex, tok):
        # the attempt raised: logged as a BeginAdaptive that the specification has to explain
        r.emit("BeginAdaptive", t=T(self.simulation_id), at=r.idx(self.time), ok=False, nobs=len(a[0]), crashed=True,
               old_kind=r.fproj(tok["f"])["kind"], conv=False, error=f"{type(ex).__name__}: {ex}"[:200],
               **r.fproj(self.nominal_filter))

    _wrap(EstimateAgent, "_beginAdaptiveEstimation", before_begin, after_begin, error_begin)

    def before_mmae(r, self, a, k):
        return None

    def after_mmae(r, self, a, k, res, tok):
        cl = getattr(self, "_g02_closed", None)
        self._g02_closed = None
        if cl is not None:
            r.emit("CloseAdaptive", t=T(self.simulation_id), at=r.idx(self.time), handed=bool(cl["handed"]),
                   old_flags=cl["old_flags"], **r.fproj(self.nominal_filter))

    _wrap(EstimateAgent, "_handleMMAE", before_mmae, after_mmae)

    # _resetFilter inside _handleMMAE after _beginAdaptiveEstimation returned = the close hand-back
    orig_reset = EstimateAgent._resetFilter  # noqa: SLF001

    @functools.wraps(orig_reset)
    def reset(self, new_filter):
        r = _REC[0]
        old = self._filter  # noqa: SLF001
        res = orig_reset(self, new_filter)
        if r is not None and in_update_job() and isinstance(old, AdaptiveFilter) and not isinstance(new_filter, AdaptiveFilter):
            self._g02_closed = {"handed": new_filter is old.converged_filter, "old_flags": r.fproj(old)["flags"]}
        return res

    EstimateAgent._resetFilter = reset  # noqa: SLF001
