"""C14 - visibility predicates match exact geometry and respect its symmetries.

spec -> impl replay.  spec/Visibility.tla poses geometries on integer lattices (azimuth circle
Z_360, integer az/el grid, integer 3-vectors against a sphere of integer radius), evaluates
every predicate in exact integer arithmetic and emits, per "done" state, the expected boolean
and an exact margin (0 = exactly on an edge = undecided).  TLC also checks the spec-level
theorems (reflexivity, rotation invariance across the seam, symmetry of line of sight, closed
form = segment test, limb = blocked ray, ...).  This driver replays EVERY emitted case into
the real code:

  rect    RectangularFoV.inFieldOfView      (+ twins rotated about the vertical: boresight /
  conic   ConicFoV.inFieldOfView               target moved onto the north seam, real angles)
  azmask, elmask   Radar.isVisible -> Sensor.isVisible (real sensor, all other constraints open,
                   masks handed to the Sensor object directly)
  azmaskcfg, elmaskcfg   the same ranges stated in the PUBLIC configuration (RadarConfig /
                   AdvRadarConfig / OpticalConfig -> sensorFactory), then isVisible of the built sensor
  los     lineOfSight(a, b) and lineOfSight(b, a)
  limb    checkSpaceSensorEarthLimbObscuration
  sun     calculateSunVizFraction  (in [0,1]; 1 "full"; 0 "umbra")
  pen     calculateSunVizFraction across the penumbra at 1.1 .. 10 Earth radii: value against the
          disc-overlap integral (planar model of the documented reference .. exact spherical caps),
          monotone across the band

A legal input on which the real code raises is a VIOLATION ("<predicate>-raises:<Exception>"),
never a driver crash: every call into the real predicates goes through guard().

and checks the spec's relations (symmetry, rotation invariance, agreement with the spec's
formulas evaluated in double precision outside a tolerance band) on seeded off-lattice inputs.
"""
from __future__ import annotations

import hashlib
import io
import json
import math
import random
from concurrent.futures import ThreadPoolExecutor
from types import SimpleNamespace

import numpy as np

from .. import tlc
from ..core import Ctx

LEVEL = "model_checking"
KINDS = ("rect", "conic", "azmask", "elmask", "azmaskcfg", "elmaskcfg", "los", "limb", "sun", "pen")
OVERLAP_TOL = 1e-6   # visible-Sun fraction against the disc-overlap interval
AU_KM = 149597870.7
SUN_DISTANCES = (AU_KM, 0.9833 * AU_KM, 1.0167 * AU_KM)
EDGE_TOL = 1e-3      # the same within 1e-9 rad of an edge of the penumbra (the documented formula's arccos terms have
                     # arguments within rounding of one there; measured 3.8e-4 on the clean tree); the RANGE [0, 1] is held exactly
BAND = 1e-9          # relative / radian band inside which off-lattice inputs are undecided
VEL = np.array([0.3, -0.2, 0.1])   # SEZ velocity part of the 6x1 slant-range vectors (km/s)


class Raised:
    """Marker: the real code raised on this input (already reported as a violation)."""


RAISED = Raised()


def guard(ctx: Ctx, name: str, where: str, replay: dict, fn, *args):
    """Call into the real code.  An exception on a legal input is a property violation, not a crash."""
    try:
        return fn(*args)
    except tlc.MachineryError:
        raise
    except Exception as ex:  # noqa: BLE001
        ctx.violation(f"{name}-raises:{type(ex).__name__}",
                      f"{name} raised {type(ex).__name__}({str(ex)[:120]}) on a legal input: {where}", replay)
        return RAISED


# --------------------------------------------------------------------------------------
# the real code, imported lazily (after the scheduler stand-in is installed)
# --------------------------------------------------------------------------------------
class Real:
    def __init__(self):
        from .. import sched
        sched.install()
        from resonaate.common.labels import Explanation
        from resonaate.physics import constants as const
        from resonaate.physics.bodies import Earth
        from resonaate.physics.sensor_utils import (calculateSunVizFraction,
                                                    checkSpaceSensorEarthLimbObscuration, lineOfSight)
        from resonaate.physics.bodies.third_body import Sun
        from resonaate.scenario.config.sensor_config import (AdvRadarConfig, ConicFieldOfViewConfig, OpticalConfig,
                                                             RadarConfig, RectangularFieldOfViewConfig)
        from resonaate.sensors import sensorFactory
        from resonaate.sensors.field_of_view import ConicFoV, FieldOfView, RectangularFoV
        from resonaate.sensors.radar import Radar
        from resonaate.sensors.sensor_base import Sensor

        self.Explanation, self.const, self.Earth = Explanation, const, Earth
        self.lineOfSight = lineOfSight
        self.limb = checkSpaceSensorEarthLimbObscuration
        self.sunfrac = calculateSunVizFraction
        self.FieldOfView, self.RectangularFoV, self.ConicFoV = FieldOfView, RectangularFoV, ConicFoV
        self.RectCfg, self.ConicCfg = RectangularFieldOfViewConfig, ConicFieldOfViewConfig
        self.RE = float(Earth.radius)
        self.RL = float(Earth.radius + Earth.atmosphere)
        self.RS = float(Sun.radius)
        self.sensorFactory, self.Sensor = sensorFactory, Sensor
        self.cfg_types = (("radar", RadarConfig), ("adv_radar", AdvRadarConfig), ("optical", OpticalConfig))
        self._cfg_sensors = {}
        self._fov = {}
        self._dir = {}
        # a real radar with every other constraint wide open: no range limits, enormous power,
        # host far from the Earth and targets 100 km away (line of sight always exists)
        self.sensor = Radar(az_mask=np.array([0.0, 355.0]), el_mask=np.array([-90.0, 90.0]), r_matrix=np.eye(4),
                            diameter=100.0, efficiency=1.0, tx_power=1e12, tx_frequency=1e9,
                            min_detectable_power=1e-30, slew_rate=10.0,
                            field_of_view=self.rect_fov(1, 1), background_observations=False,
                            minimum_range=None, maximum_range=None)
        self.host = SimpleNamespace(eci_state=np.array([8 * self.RE, 0.0, 0.0, 0.0, 7.0, 0.0]), time=0.0)
        self.sensor.host = self.host
        self._mask = None
        self.mask_reasons = {Explanation.VISIBLE, Explanation.AZIMUTH_MASK, Explanation.ELEVATION_MASK}

    # fields of view are built the way the scenario builds them (FieldOfView.fromConfig)
    def rect_fov(self, w_az, w_el):
        key = ("r", w_az, w_el)
        if key not in self._fov:
            if 0 < w_az < 180 and 0 < w_el < 180:
                self._fov[key] = self.FieldOfView.fromConfig(self.RectCfg(azimuth_angle=w_az, elevation_angle=w_el))
            else:  # outside the configurable range: direct construction, same conversion
                self._fov[key] = self.RectangularFoV(w_az * self.const.DEG2RAD, w_el * self.const.DEG2RAD)
        return self._fov[key]

    def conic_fov(self, full_deg):
        key = ("c", full_deg)
        if key not in self._fov:
            if 0 < full_deg < 180:
                self._fov[key] = self.FieldOfView.fromConfig(self.ConicCfg(cone_angle=full_deg))
            else:
                self._fov[key] = self.ConicFoV(full_deg * self.const.DEG2RAD)
        return self._fov[key]

    def cfg_sensor(self, ctx: Ctx, shape):
        """The sensor a user gets who writes azimuth_range / elevation_range (degrees, as given) in a sensor
        configuration; the sensor type rotates with the mask.  Returns (type name, sensor, isVisible callable)."""
        key = tuple(shape)
        if key not in self._cfg_sensors:
            azlo, azhi, ello, elhi = shape
            tname, cls = self.cfg_types[(int(azlo) // 5 + int(azhi) // 5 + int(ello) + int(elhi)) % 3]
            common = dict(azimuth_range=[float(azlo), float(azhi)], elevation_range=[float(ello), float(elhi)],
                          covariance=np.eye(2 if tname == "optical" else 4).tolist(), aperture_diameter=100.0, efficiency=1.0,
                          slew_rate=10.0, field_of_view={"fov_shape": "rectangular", "azimuth_angle": 1.0, "elevation_angle": 1.0})
            if tname != "optical":
                common.update(tx_power=1e12, tx_frequency=1e9, min_detectable_power=1e-30)

            def build():
                sensor = self.sensorFactory(cls(**common))
                sensor.host = self.host
                return sensor

            sensor = guard(ctx, "sensor-config", f"{tname} with azimuth_range [{azlo}, {azhi}] elevation_range [{ello}, {elhi}] deg",
                           {"config": {k: v for k, v in common.items() if k != "covariance"}, "type": tname}, build)
            if sensor is RAISED:
                call = None
            elif tname == "optical":
                # the optical lighting / magnitude constraints cannot be left open: ask the mask logic the
                # optical sensor inherits (Sensor.isVisible) on the sensor built from the configuration
                call = lambda *a, _s=sensor: self.Sensor.isVisible(_s, *a)   # noqa: E731
            else:
                call = sensor.isVisible
            self._cfg_sensors[key] = (tname, sensor, call)
        return self._cfg_sensors[key]

    def set_mask(self, azlo, azhi, ello, elhi):
        m = (azlo, azhi, ello, elhi)
        if m != self._mask:  # same path as Sensor.__init__: degrees -> radians through the setters
            self.sensor.az_mask = self.const.DEG2RAD * np.array([float(azlo), float(azhi)])
            self.sensor.el_mask = self.const.DEG2RAD * np.array([float(ello), float(elhi)])
            self._mask = m


def dir_sez(az_deg: float, el_deg: float) -> np.ndarray:
    """Unit SEZ vector of a direction: azimuth clockwise from north, x south, y east, z zenith."""
    az, el = math.radians(az_deg), math.radians(el_deg)
    return np.array([-math.cos(el) * math.cos(az), math.cos(el) * math.sin(az), math.sin(el)])


def sez_state(az_deg, el_deg, rng_km) -> np.ndarray:
    return np.concatenate([rng_km * dir_sez(az_deg, el_deg), VEL])


def rot_z(v3: np.ndarray, ang_rad: float) -> np.ndarray:
    """Rotate an SEZ vector about the local vertical so that its azimuth grows by ang."""
    c, s = math.cos(ang_rad), math.sin(ang_rad)
    # azimuth = atan2(y, -x): (x, y) -> (x c - y s ... ) in the (north, east) basis
    n, e = -v3[0], v3[1]
    n2, e2 = n * c - e * s, n * s + e * c
    return np.array([-n2, e2, v3[2]])


def wrap180(d):
    d = math.fmod(d, 360.0)
    if d > 180.0:
        d -= 360.0
    elif d <= -180.0:
        d += 360.0
    return d


# --------------------------------------------------------------------------------------
# replay of one emitted state
# --------------------------------------------------------------------------------------
class Replayer:
    def __init__(self, ctx: Ctx, real: Real):
        self.ctx, self.R = ctx, real
        self.n = {k: 0 for k in KINDS}
        self.undecided = {k: 0 for k in KINDS}
        self.twins = 0
        self.nontrivial = {k: 0 for k in KINDS}
        self.reason_mismatch = 0
        self.sun_classes = {"full": 0, "umbra": 0, "range": 0}
        self.sun_partial = 0
        self.sun_partial_expected = 0   # by the oracle, never by the output under test
        self.pen = {}            # (shape, r10, sun distance) -> {k: fraction}
        self.pen_gap = 0.0       # largest planar-vs-spherical model gap seen (reported)
        self.cfg_types_used = {}
        self.branches = {}
        self.sample = {}

    def row(self, row):
        kind = row[0]
        key = f"{kind}:{row[6]}:{'undecided' if (row[5] == 0 and kind != 'sun') else row[4]}"
        self.branches[key] = self.branches.get(key, 0) + 1
        getattr(self, "do_" + kind)(row)
        self.n[kind] += 1

    def _case(self, row, nontrivial):
        kind = row[0]
        if nontrivial:
            self.nontrivial[kind] += 1
        self.ctx.case((kind, row[1], row[2], row[3]), nontrivial=nontrivial)
        if nontrivial and row[5] != 0:
            # one sample per kind, chosen independently of the order in which TLC's workers emit
            h = hashlib.blake2b(repr(row).encode(), digest_size=8).digest()
            if kind not in self.sample or h < self.sample[kind][0]:
                self.sample[kind] = (h, row)

    # ---- rectangular field of view
    def _rect_call(self, w, b, t, rp):
        where = f"RectangularFoV {w[0]}x{w[1]} deg, boresight az/el {b}, target {t}"
        fov = guard(self.ctx, "fov-config", where, rp, self.R.rect_fov, w[0], w[1])
        if fov is RAISED:
            return RAISED
        got = guard(self.ctx, "rectfov", where, rp, fov.inFieldOfView, sez_state(b[0], b[1], 1000.0), sez_state(t[0], t[1], 35786.0))
        return got if got is RAISED else bool(got)

    @staticmethod
    def _straddles(b, t):
        return abs(b[0] - t[0]) > 180

    def do_rect(self, row):
        _, w, b, t, exp, margin, why = row
        straddle = self._straddles(b, t)
        self._case(row, nontrivial=straddle or exp or abs(margin) <= 12)
        if margin == 0:
            self.undecided["rect"] += 1
            return
        got = self._rect_call(w, b, t, {"row": row, "rotated_by": 0})
        if got is RAISED:
            return
        if got != exp:
            self._rect_violation(w, b, t, b, t, exp, got, margin, why, 0)
        # RectRotationInvariant: the same answer after rotating both directions about the vertical
        if exp or abs(margin) <= 12:
            for r in {(360 - b[0]) % 360, (360 - t[0]) % 360, (359 - b[0]) % 360}:
                if r == 0:
                    continue
                b2, t2 = [(b[0] + r) % 360, b[1]], [(t[0] + r) % 360, t[1]]
                self.twins += 1
                got2 = self._rect_call(w, b2, t2, {"row": row, "rotated_by": r})
                if got2 is not RAISED and got2 != exp:
                    self._rect_violation(w, b2, t2, b, t, exp, got2, margin, why, r)

    def _rect_violation(self, w, b, t, b0, t0, exp, got, margin, why, r):
        """b, t: the pair that was evaluated (b0, t0 rotated by r about the vertical)."""
        if self._straddles(b, t) and exp and not got:
            sig = "rectfov-seam-not-wrapped"
            what = (f"RectangularFoV {w[0]}x{w[1]} deg: boresight az/el {b}, target {t} are {abs(wrap180(b[0] - t[0]))} deg "
                    f"apart across the north seam (inside by {margin / 2} deg) but inFieldOfView says False")
        else:
            sig = f"rectfov-mismatch-{why}"
            what = f"RectangularFoV {w[0]}x{w[1]} deg: boresight {b}, target {t}: expected {exp} (margin {margin / 2} deg), got {got}"
        self.ctx.violation(sig, what, {"row": ["rect", w, b0, t0, exp, margin, why], "rotated_by": r})

    # ---- conic field of view
    def do_conic(self, row):
        _, c, b, t, exp, margin, why = row
        cs, p, q = c
        half = math.acos(cs * math.sqrt(p / q))
        where = f"ConicFoV half angle {math.degrees(half):.3f} deg, SEZ directions {b}, {t}"
        fov = guard(self.ctx, "fov-config", where, {"row": row}, self.R.conic_fov, 2.0 * math.degrees(half))
        nb, nt = math.sqrt(b[0] ** 2 + b[1] ** 2 + b[2] ** 2), math.sqrt(t[0] ** 2 + t[1] ** 2 + t[2] ** 2)
        self._case(row, nontrivial=True)
        if margin == 0:
            self.undecided["conic"] += 1
            return
        if fov is RAISED:
            return
        b3, t3 = 1000.0 / nb * np.array(b, dtype=float), 777.0 * np.array(t, dtype=float)
        got = guard(self.ctx, "conicfov", where, {"row": row, "rotated_by": 0}, fov.inFieldOfView,
                    np.concatenate([b3, VEL]), np.concatenate([t3, -VEL]))
        if got is RAISED:
            return
        got = bool(got)
        if got != exp:
            self.ctx.violation("conicfov-mismatch", f"ConicFoV half angle {math.degrees(half):.3f} deg, SEZ directions {b}, {t}: "
                               f"expected {exp}, got {got}", {"row": row, "rotated_by": 0})
        # rotation about the vertical by a real angle (ConicRotationInvariant gives quarter turns)
        idx = b[0] * 7 + b[1] * 11 + b[2] * 13 + t[0] * 17 + t[1] * 19 + t[2] * 23 + p + q   # a function of the case only
        if (idx % 4 == 0) or self.ctx.tier != "quick":
            ang = ((idx * 0.6180339887498949) % 1.0) * 2 * math.pi
            self.twins += 1
            got2 = guard(self.ctx, "conicfov", where + f" rotated by {ang:.6f} rad", {"row": row, "rotated_by": ang}, fov.inFieldOfView,
                         np.concatenate([rot_z(b3, ang), VEL]), np.concatenate([rot_z(t3, ang), -VEL]))
            if got2 is not RAISED and bool(got2) != exp:
                self.ctx.violation("conicfov-rotation-variant", f"ConicFoV {b}, {t} rotated about the vertical by {ang:.6f} rad: "
                                   f"expected {exp}, got {got2}", {"row": row, "rotated_by": ang})

    # ---- masks of Sensor.isVisible
    def _mask_call(self, row, shape, az, el, via_config):
        """(visible, reason) of the real isVisible, or RAISED; the sensor gets its masks directly or from a configuration."""
        R = self.R
        where = f"{'configured ' if via_config else ''}az range [{shape[0]}, {shape[1]}] el range [{shape[2]}, {shape[3]}] deg, target az {az} el {el}"
        if via_config:
            tname, sensor, call = R.cfg_sensor(self.ctx, shape)
            self.cfg_types_used[tname] = self.cfg_types_used.get(tname, 0) + 1
            if sensor is RAISED:
                return RAISED
            where = f"{tname} " + where
        else:
            if guard(self.ctx, "sensor-mask-setter", where, {"row": row}, R.set_mask, *shape) is RAISED:
                return RAISED
            call = R.sensor.isVisible
        slant = sez_state(az, el, 100.0)
        # host on the +x axis: zenith = +x, east = +y, south = -z
        tgt = R.host.eci_state + np.array([slant[2], slant[1], -slant[0], 0.0, 0.0, 0.0])
        res = guard(self.ctx, "isvisible", where, {"row": row}, call, tgt, 10.0, 0.2, slant)
        if res is RAISED:
            return RAISED
        vis, reason = res
        mask_reason_guard(self.ctx, R, reason, tgt, where)
        return bool(vis), reason

    def do_azmask(self, row):
        kind, shape, (az,), (el,), exp, margin, why = row
        via_config = kind.endswith("cfg")
        wrapping = shape[0] > shape[1]
        self._case(row, nontrivial=wrapping or abs(margin) <= 10 or shape[0] == shape[1] or shape[2] > shape[3])
        if margin == 0:
            self.undecided[kind] += 1
            return
        res = self._mask_call(row, shape, az, el, via_config)
        if res is RAISED:
            return
        got, reason = res
        if reason not in self.R.mask_reasons:
            return
        if why in ("visible", "azimuth_mask", "elevation_mask") and reason.name.lower() != why:
            self.reason_mismatch += 1
        if got != exp:
            el_fault = why == "elevation_mask" or (exp and reason == self.R.Explanation.ELEVATION_MASK)
            if via_config:
                sig = "el-mask-config-path" if el_fault else "az-mask-config-path"
                what = (f"sensor built from a configuration with azimuth_range [{shape[0]}, {shape[1]}] elevation_range [{shape[2]}, {shape[3]}] deg "
                        f"({self.R.cfg_sensor(self.ctx, shape)[0]}): target az {az} el {el} is {'inside' if exp else 'outside'} the configured ranges "
                        f"({why}, margin {margin} deg) but isVisible says {got} ({reason.value})")
            else:
                sig = "elmask-mismatch" if el_fault else ("azmask-wrap-mismatch" if wrapping else "azmask-nowrap-mismatch")
                what = (f"Sensor.isVisible with az mask [{shape[0]}, {shape[1]}] el mask [{shape[2]}, {shape[3]}] deg, "
                        f"target az {az} el {el}: expected {exp} ({why}, margin {margin} deg), got {got} ({reason.value})")
            self.ctx.violation(sig, what, {"row": row})

    do_elmask = do_azmaskcfg = do_elmaskcfg = do_azmask

    # ---- line of sight
    def do_los(self, row):
        _, (rad,), a, b, exp, margin, why = row
        unit = self.R.RE / rad
        self._case(row, nontrivial=why == "within" or margin <= 2)
        if margin == 0:
            self.undecided["los"] += 1
            return
        a3, b3 = unit * np.array(a, dtype=float), unit * np.array(b, dtype=float)
        where = f"positions {a}, {b} (Earth radii / {rad})"
        ab = guard(self.ctx, "los", where, {"row": row}, self.R.lineOfSight, a3, b3)
        ba = guard(self.ctx, "los", where + " reversed", {"row": row}, self.R.lineOfSight, b3, a3)
        if ab is RAISED or ba is RAISED:
            return
        ab, ba = bool(ab), bool(ba)
        if ab != ba:
            self.ctx.violation("los-asymmetric", f"lineOfSight({a}, {b}) = {ab} but lineOfSight({b}, {a}) = {ba} (Earth radii / {rad})",
                               {"row": row})
        if ab != exp or ba != exp:
            self.ctx.violation(f"los-mismatch-{why}", f"lineOfSight between {a} and {b} (units of Earth radius / {rad}): exact segment test "
                               f"says {exp} (closest point {why}, margin {margin}), code says {ab} / {ba} reversed", {"row": row})

    # ---- Earth limb
    def do_limb(self, row):
        _, (rad,), s, p, exp, margin, why = row
        unit = self.R.RL / rad
        self._case(row, nontrivial=True)
        if margin == 0:
            self.undecided["limb"] += 1
            return
        got = guard(self.ctx, "limb", f"sensor {s}, target {p} (limb radii / {rad})", {"row": row}, self.R.limb,
                    *limb_inputs(unit * np.array(s, dtype=float), unit * np.array(p, dtype=float)))
        if got is RAISED:
            return
        got = bool(got)
        if got != exp:
            self.ctx.violation("limb-mismatch", f"checkSpaceSensorEarthLimbObscuration: sensor {s}, target {p} (units of limb radius / {rad}): "
                               f"tangent-cone test says {exp}, code says {got}", {"row": row})

    # ---- Sun
    def do_sun(self, row):
        _, (rad,), u, t, exp, margin, why = row
        unit = self.R.RE / rad
        self._case(row, nontrivial=True)
        self.sun_classes[why] += 1
        t3 = unit * np.array(t, dtype=float)
        uh = np.array(u, dtype=float) / math.sqrt(u[0] ** 2 + u[1] ** 2 + u[2] ** 2)
        where = f"target {t} (Earth radii / {rad}), Sun direction {u}"
        for dist in SUN_DISTANCES:
            rp = {"row": row, "sun_distance_km": dist}
            frac = sun_call(self.ctx, self.R, t3, dist * uh, where, rp)
            if frac is RAISED:
                continue
            sun_check(self.ctx, frac, why, rp, where,
                      on_axis=(t[1] * u[2] == t[2] * u[1] and t[2] * u[0] == t[0] * u[2] and t[0] * u[1] == t[1] * u[0]))
            if sun_overlap_check(self.ctx, self.R, frac, t3, dist * uh, rp, where) >= 0:
                self.sun_partial_expected += 1
            if 0.0 < frac < 1.0:
                self.sun_partial += 1

    # ---- penumbra sweep
    def do_pen(self, row):
        _, shape, (r10,), (k,), exp, margin, why = row
        K = shape[0]
        self._case(row, nontrivial=True)
        R = self.R
        u, w = np.array(shape[1:4], dtype=float), np.array(shape[4:7], dtype=float)
        u, w = u / np.linalg.norm(u), w / np.linalg.norm(w)
        r = r10 / 10.0 * R.RE
        for dist in SUN_DISTANCES[:1] if self.ctx.quick else SUN_DISTANCES:
            a0, b0 = math.asin(R.RS / dist), math.asin(R.RE / r)
            phi = (b0 - a0) + (k / K) * 2 * a0
            t3 = r * (-math.cos(phi) * u + math.sin(phi) * w)
            where = f"target at {r10 / 10} Earth radii, step {k}/{K} across the penumbra, frame {shape[1:4]}, {shape[4:7]}"
            rp = {"row": row, "sun_distance_km": dist}
            frac = sun_call(self.ctx, R, t3, dist * u, where, rp)
            if frac is RAISED:
                continue
            if margin != 0:      # the band ends are placed to first order: one step beyond them the class is certain
                sun_check(self.ctx, frac, {"umbra": "umbra", "lit": "full", "penumbra": "range"}[why], rp, where)
            gap = sun_overlap_check(self.ctx, R, frac, t3, dist * u, rp, where)
            if gap >= 0:
                self.sun_partial_expected += 1
                self.pen_gap = max(self.pen_gap, gap)
            self.pen.setdefault((tuple(shape), r10, dist), {})[k] = frac
            if 0.0 < frac < 1.0:
                self.sun_partial += 1

    def pen_monotone(self):
        """The visible fraction grows (weakly) with the step across the band."""
        for (shape, r10, dist), fr in sorted(self.pen.items()):
            ks = sorted(fr)
            for k0, k1 in zip(ks, ks[1:]):
                if fr[k1] < fr[k0] - 1e-9:
                    self.ctx.violation("sunviz-penumbra-not-monotone", f"visible-Sun fraction falls from {fr[k0]} (step {k0}) to {fr[k1]} (step {k1}) while the "
                                       f"target moves out of the shadow at {r10 / 10} Earth radii", {"shape": list(shape), "r10": r10, "sun_distance_km": dist,
                                                                                                  "fractions": {str(k): fr[k] for k in ks}})
                    break


def mask_reason_guard(ctx, real, reason, tgt, where):
    """The mask harness keeps every other constraint open (no range limits, 1e12 W, host at 8 Earth radii, target
    100 km away).  A LINE_OF_SIGHT answer there is itself a line-of-sight violation; any other foreign reason means
    the sensor rejects a target that only the masks could reject: reported, never a driver crash."""
    if reason in real.mask_reasons:
        return
    if reason == real.Explanation.LINE_OF_SIGHT:
        ctx.violation("los-mismatch-at-sensor", "Sensor.isVisible reports no line of sight between a host at 8 Earth radii and a "
                      f"target 100 km away ({where})", {"host": real.host.eci_state.tolist(), "target": tgt.tolist()})
        return
    name = getattr(reason, "name", str(reason))
    ctx.violation(f"isvisible-foreign-reason:{name}", f"Sensor.isVisible rejects a target 100 km from a sensor without range limits for the reason "
                  f"{getattr(reason, 'value', reason)!r}, which no mask can produce ({where})",
                  {"host": real.host.eci_state.tolist(), "target": tgt.tolist()})


def sun_call(ctx, real, t3, sun3, where, replay):
    frac = guard(ctx, "sunviz", where, replay, real.sunfrac, t3, sun3)
    if frac is RAISED:
        return RAISED
    try:
        return float(frac)
    except (TypeError, ValueError):
        ctx.violation("sunviz-not-a-number", f"calculateSunVizFraction returned {frac!r}: {where}", replay)
        return RAISED


def apparent_discs(real, t3, sun3):
    """Apparent radii of Sun (a) and Earth (b) and their separation (c) seen from the target, computed
    independently of the code under test (separation through atan2 of cross and dot products)."""
    d = sun3 - t3
    a = math.asin(min(1.0, real.RS / float(np.linalg.norm(d))))
    b = math.asin(min(1.0, real.RE / float(np.linalg.norm(t3))))
    c = math.atan2(float(np.linalg.norm(np.cross(-t3, d))), float(-t3 @ d))
    return a, b, c


def _acos(x):
    return math.acos(max(-1.0, min(1.0, x)))


def visible_planar(a, b, c):
    """1 - (overlap of two flat discs of radii a, b at distance c) / (pi a^2): the model of the documented reference."""
    if c >= a + b:
        return 1.0
    if c <= abs(b - a):
        return 0.0 if b >= a else 1.0 - (b / a) ** 2
    lens = (a * a * _acos((c * c + a * a - b * b) / (2 * c * a)) + b * b * _acos((c * c + b * b - a * a) / (2 * c * b))
            - 0.5 * math.sqrt(max(0.0, (-c + a + b) * (c + a - b) * (c - a + b) * (c + a + b))))
    return 1.0 - lens / (math.pi * a * a)


def visible_spherical(a, b, c):
    """The same with the exact area of the intersection of two spherical caps (Tovchigrechko & Vakser 2001)."""
    if c >= a + b:
        return 1.0
    cap = 2 * math.pi * (1 - math.cos(a))
    if c <= abs(b - a):
        return 0.0 if b >= a else 1.0 - (1 - math.cos(b)) / (1 - math.cos(a))
    ca, cb, cc, sa, sb, sc = math.cos(a), math.cos(b), math.cos(c), math.sin(a), math.sin(b), math.sin(c)
    area = 2 * (math.pi - _acos((cc - ca * cb) / (sa * sb)) - _acos((cb - cc * ca) / (sc * sa)) * ca - _acos((ca - cc * cb) / (sc * sb)) * cb)
    return 1.0 - area / cap


def sun_overlap_check(ctx, real, frac, t3, sun3, replay, where, tol=OVERLAP_TOL):
    """The fraction must lie between the flat-disc model of the documented reference and the exact spherical-cap
    overlap (both computed from independently derived apparent radii and separation).  Returns the model gap
    when the oracle says the eclipse is partial, else -1."""
    a, b, c = apparent_discs(real, t3, sun3)
    lo, hi = sorted((visible_planar(a, b, c), visible_spherical(a, b, c)))
    if not (lo - tol <= frac <= hi + tol):   # also nan
        ctx.violation("sunviz-disc-overlap", f"calculateSunVizFraction = {frac} but the visible part of the Sun's disc is {lo:.9f}"
                      + (f" .. {hi:.9f}" if hi - lo > 1e-9 else "") + f" (apparent radii {a:.6f}, {b:.6f} rad, separation {c:.6f} rad): {where}",
                      dict(replay, a=a, b=b, c=c, expected=[lo, hi], got=frac))
    return (hi - lo) if 0.0 < lo and hi < 1.0 else -1.0    # -1: not a partial eclipse


def sun_check(ctx, frac, cls, replay, where, on_axis=False):
    if not (frac >= -BAND and frac <= 1.0 + BAND):  # also catches nan
        ctx.violation("sunfrac-range", f"calculateSunVizFraction = {frac} outside [0, 1]: {where}", replay)
    elif cls == "full" and abs(frac - 1.0) > BAND:
        ctx.violation("sunfrac-sunward-not-1", f"calculateSunVizFraction = {frac} although the Sun is entirely above the target's "
                      f"horizon: {where}", replay)
    elif cls == "umbra" and abs(frac) > BAND:
        sig = "sunfrac-nan-on-shadow-axis" if (on_axis and frac == 1.0) else "sunfrac-umbra-not-0"
        ctx.violation(sig, f"calculateSunVizFraction = {frac} deep inside the umbra"
                      + (" (target exactly on the shadow axis: arccos argument rounds above 1, nan, falls through to 'no occultation')"
                         if on_axis else "") + f": {where}", replay)


def limb_inputs(s3: np.ndarray, p3: np.ndarray):
    """(sensor ECI 6-vector, target SEZ 6-vector) with the zenith along the sensor's position."""
    zen = s3 / np.linalg.norm(s3)
    east = np.cross(np.array([0.0, 0.0, 1.0]), zen)
    if np.linalg.norm(east) < 1e-12:
        east = np.array([0.0, 1.0, 0.0])
    east /= np.linalg.norm(east)
    south = np.cross(east, zen)
    rho = p3 - s3
    slant = np.array([rho @ south, rho @ east, rho @ zen, *VEL])
    return np.concatenate([s3, [0.0, 0.0, 0.0]]), slant


# --------------------------------------------------------------------------------------
# relations of the spec on seeded off-lattice inputs
# --------------------------------------------------------------------------------------
def rand_unit(rng):
    while True:
        v = np.array([rng.gauss(0, 1), rng.gauss(0, 1), rng.gauss(0, 1)])
        n = np.linalg.norm(v)
        if n > 1e-3:
            return v / n


def rand_rotation(rng):
    k, ang = rand_unit(rng), rng.uniform(0, 2 * math.pi)
    K = np.array([[0, -k[2], k[1]], [k[2], 0, -k[0]], [-k[1], k[0], 0]])
    return np.eye(3) + math.sin(ang) * K + (1 - math.cos(ang)) * (K @ K)


def los_margin_float(R, a, b):
    """Visibility.tla LosMargin evaluated in floating point, as (min |P|^2 - R^2) / R^2 with the branch."""
    d = b - a
    dd, ad = float(d @ d), float(a @ d)
    if ad > 0:
        return "before", ad / (R * math.sqrt(dd)), min(a @ a, b @ b) / R ** 2 - 1
    if -ad > dd:
        return "after", (-ad - dd) / (R * math.sqrt(dd)), min(a @ a, b @ b) / R ** 2 - 1
    m = (a @ a - ad * ad / dd) / R ** 2 - 1
    return "within", min(-ad, dd + ad) / (R * math.sqrt(dd)), m


def relations(ctx: Ctx, real: Real, rng: random.Random, n: int):
    RE, RL = real.RE, real.RL
    skipped = 0
    # ---- line of sight: symmetry, rigid-rotation invariance, spec formula (LosSymmetric, LosRigidInvariant)
    for i in range(n):
        c = rand_unit(rng) * RE * (rng.uniform(0.3, 1.7) if i % 3 else rng.uniform(0.97, 1.03))
        d = np.cross(c, rand_unit(rng))
        d /= np.linalg.norm(d)
        lo, hi = sorted((rng.uniform(-10, 10) * RE, rng.uniform(-10, 10) * RE))
        a, b = c + lo * d, c + hi * d
        na, nb = np.linalg.norm(a), np.linalg.norm(b)
        if min(na, nb) < RE * (1 + 1e-6) or max(na, nb) > 10 * RE or hi - lo < 1.0:
            skipped += 1
            continue
        branch, mb, m = los_margin_float(RE, a, b)
        ctx.case(("rel-los", i), nontrivial=branch == "within")
        if abs(m) < BAND or mb < BAND:
            skipped += 1
            continue
        exp = branch != "within" or m >= 0
        Q = rand_rotation(rng)
        rp = {"a": a.tolist(), "b": b.tolist(), "Q": Q.tolist(), "expected": exp, "rel_margin": m}
        got = [guard(ctx, "los", "off-lattice positions", rp, real.lineOfSight, x, y) for x, y in ((a, b), (b, a), (Q @ a, Q @ b))]
        if any(g is RAISED for g in got):
            continue
        got = [bool(g) for g in got]
        rp["got"] = got
        if got[0] != got[1]:
            ctx.violation("los-asymmetric", f"lineOfSight(a, b) = {got[0]} but lineOfSight(b, a) = {got[1]} (off-lattice)", rp)
        elif got[0] != got[2]:
            ctx.violation("los-rotation-variant", "lineOfSight changes under a rigid rotation of both points (off-lattice)", rp)
        elif got[0] != exp:
            ctx.violation(f"los-mismatch-{branch}", f"lineOfSight = {got[0]}, segment test = {exp} (off-lattice, relative margin {m:.3e})", rp)
    # ---- rectangular FoV: rotation about the vertical, also across the seam (RectRotationInvariant)
    for i in range(n):
        w_az, w_el = rng.choice((0.5, 1.0, 2.0, 7.5, 30.0, 120.0)), rng.choice((0.5, 1.0, 4.0, 30.0, 100.0))
        baz = rng.uniform(0, 360) if i % 2 else rng.uniform(-w_az, w_az) % 360
        bel = rng.uniform(-80, 80)
        taz = (baz + rng.uniform(-1.2, 1.2) * w_az) % 360
        tel = max(-89.0, min(89.0, bel + rng.uniform(-1.2, 1.2) * w_el))
        r = rng.uniform(0, 360) if i % 4 < 2 else (-baz + rng.uniform(-0.5, 0.5) * w_az) % 360
        m_az, m_el = w_az / 2 - abs(wrap180(taz - baz)), w_el / 2 - abs(tel - bel)
        margin = min(m_az, m_el)
        ctx.case(("rel-rect", i))
        if abs(m_az) < 1e-7 or abs(m_el) < 1e-7:
            skipped += 1
            continue
        exp = margin >= 0
        fov = guard(ctx, "fov-config", f"RectangularFoV {w_az}x{w_el} deg", {"w": [w_az, w_el]}, real.rect_fov, w_az, w_el)
        for rr in (0.0, r):
            b2, t2 = (baz + rr) % 360, (taz + rr) % 360
            if fov is RAISED:
                break
            got = guard(ctx, "rectfov", f"RectangularFoV {w_az}x{w_el} deg (off-lattice)", {"w": [w_az, w_el], "b": [b2, bel], "t": [t2, tel]},
                        fov.inFieldOfView, sez_state(b2, bel, 1200.0), sez_state(t2, tel, 800.0))
            if got is RAISED:
                continue
            got = bool(got)
            if got != exp:
                straddle = abs(b2 - t2) > 180
                sig = "rectfov-seam-not-wrapped" if (straddle and exp and not got) else "rectfov-rotation-variant"
                ctx.violation(sig, f"RectangularFoV {w_az}x{w_el} deg (off-lattice): boresight ({b2:.4f}, {bel:.4f}), target ({t2:.4f}, {tel:.4f}), "
                              f"margin {margin:.4f} deg: expected {exp}, got {got}",
                              {"w": [w_az, w_el], "b": [b2, bel], "t": [t2, tel], "rotated_by": rr, "expected": exp})
    # ---- points ON the surface (the statement's positions start there): Earth.radius x unit vector, whose norm rounds an ulp
    # either side of the radius (D57: arcsin of 1 + 5e-16 -> nan -> "no occultation" in the middle of the night side)
    from resonaate.physics.bodies import Earth as _Earth
    srng = np.random.default_rng(20260929)
    n_surf = 600 if ctx.quick else 20000
    for i in range(n_surf):
        u = srng.normal(size=3)
        u /= np.linalg.norm(u)
        v = srng.normal(size=3)
        v /= np.linalg.norm(v)
        c = float(u @ v)
        if abs(c) < 0.1:
            continue
        t = float(_Earth.radius) * v
        cls = "umbra" if c < 0 else "full"
        ctx.case(("surface-sun", i), nontrivial=True)
        rps = {"t": t.tolist(), "u": u.tolist(), "surface": True}
        frac = sun_call(ctx, real, t, AU_KM * u, "target on the Earth's surface", rps)
        if frac is not RAISED:
            sun_check(ctx, frac, cls, rps, f"target on the Earth's surface, |t| - R = {np.linalg.norm(t) - float(_Earth.radius):.3g} km, "
                                            f"cosine of the Sun's zenith angle {c:.3f}")
    # ---- exact zenith: the horizontal projection of boresight and / or target is the ZERO vector (not cos(90 deg) = 6e-17):
    # reflexivity (identical vectors are inside, for every size), the elevation clause (a target more than half the
    # elevation extent below a zenith boresight is outside), and no legal direction may raise (seed C14/12)
    zen = np.array([0.0, 0.0, 1000.0, 0.0, 0.0, 0.0])
    for w_az, w_el in ((2.0, 2.0), (10.0, 10.0), (40.0, 4.0), (4.0, 40.0), (0.5, 90.0)):
        fov = guard(ctx, "fov-config", f"RectangularFoV {w_az}x{w_el} deg", {"w": [w_az, w_el]}, real.rect_fov, w_az, w_el)
        if fov is RAISED:
            continue
        for scale in (1.0, 35.786):
            ctx.case(("zenith-rect", w_az, w_el, scale))
            got = guard(ctx, "rectfov", f"RectangularFoV {w_az}x{w_el} deg, boresight and target exactly at the zenith",
                        {"w": [w_az, w_el], "b": "zenith", "t": "zenith", "scale": scale}, fov.inFieldOfView, zen.copy(), zen * scale)
            if got is not RAISED and not bool(got):
                ctx.violation("rectfov-not-reflexive-at-zenith", f"RectangularFoV {w_az}x{w_el} deg: a target exactly at the zenith is "
                              "reported outside the field of view of a boresight exactly at the zenith",
                              {"w": [w_az, w_el], "b": "zenith", "t": "zenith", "scale": scale})
        for az in (0.0, 90.0, 180.0, 270.0, 359.5):
            tel = 90.0 - (w_el / 2 + 1.0)
            if tel <= 0:
                continue
            ctx.case(("zenith-rect-below", w_az, w_el, az))
            for bb, tt, name in ((zen.copy(), sez_state(az, tel, 800.0), "boresight"), (sez_state(az, tel, 800.0), zen.copy(), "target")):
                got = guard(ctx, "rectfov", f"RectangularFoV {w_az}x{w_el} deg, {name} exactly at the zenith, the other at azimuth {az} "
                            f"elevation {tel}", {"w": [w_az, w_el], "zenith": name, "az": az, "el": tel}, fov.inFieldOfView, bb, tt)
                if got is not RAISED and bool(got):
                    ctx.violation("rectfov-elevation-clause-at-zenith", f"RectangularFoV {w_az}x{w_el} deg: {name} exactly at the zenith, "
                                  f"the other direction {w_el / 2 + 1.0} deg lower (azimuth {az}) is reported INSIDE",
                                  {"w": [w_az, w_el], "zenith": name, "az": az, "el": tel})
    # ---- conic FoV: rotation about the vertical + spherical cosine
    for i in range(n):
        half = math.radians(rng.choice((0.25, 0.5, 1.0, 5.0, 30.0, 80.0)))
        b = rand_unit(rng)
        off = rng.uniform(0.0, 2.0) * half
        perp = np.cross(b, rand_unit(rng))
        perp /= np.linalg.norm(perp)
        t = math.cos(off) * b + math.sin(off) * perp
        ang = math.atan2(np.linalg.norm(np.cross(b, t)), b @ t)
        ctx.case(("rel-conic", i))
        if abs(ang - half) < 1e-7:
            skipped += 1
            continue
        exp = ang <= half
        rpc = {"b": b.tolist(), "t": t.tolist(), "half_rad": half}
        fov = guard(ctx, "fov-config", f"ConicFoV half angle {math.degrees(half)} deg", rpc, real.conic_fov, 2 * math.degrees(half))
        r = rng.uniform(0, 2 * math.pi)
        for rr in (0.0, r):
            if fov is RAISED:
                break
            got = guard(ctx, "conicfov", f"ConicFoV half angle {math.degrees(half)} deg (off-lattice)", dict(rpc, rotated_by=rr), fov.inFieldOfView,
                        np.concatenate([900.0 * rot_z(b, rr), VEL]), np.concatenate([40000.0 * rot_z(t, rr), VEL]))
            if got is RAISED:
                continue
            got = bool(got)
            if got != exp:
                ctx.violation("conicfov-mismatch" if rr == 0.0 else "conicfov-rotation-variant",
                              f"ConicFoV half angle {math.degrees(half)} deg (off-lattice): offset {math.degrees(ang):.6f} deg, expected {exp}, got {got}",
                              {"b": b.tolist(), "t": t.tolist(), "half_rad": half, "rotated_by": rr})
    # ---- azimuth masks: arc membership and rotation equivariance (MaskRotationEquivariant)
    for i in range(n):
        lo, hi, az = rng.uniform(0, 359.9), rng.uniform(0, 359.9), rng.uniform(0, 360)
        if i % 3 == 0:
            az = (rng.choice((lo, hi)) + rng.uniform(-0.01, 0.01)) % 360
        r = rng.uniform(0, 360)
        ctx.case(("rel-mask", i), nontrivial=lo > hi)
        for rr in (0.0, r):
            lo2, hi2, az2 = (lo + rr) % 360, (hi + rr) % 360, (az + rr) % 360
            span, off = (hi2 - lo2) % 360, (az2 - lo2) % 360
            edge = min(off, abs(off - span), 360 - off)
            if edge < 1e-7 or min(lo2, hi2, az2, 360 - az2) < 1e-7:
                skipped += 1
                continue
            exp = off <= span
            slant = sez_state(az2, 20.0, 100.0)
            tgt = real.host.eci_state + np.array([slant[2], slant[1], -slant[0], 0, 0, 0])
            rpm = {"lo": lo2, "hi": hi2, "az": az2, "rotated_by": rr}
            # every 8th mask is also stated in a configuration (elevation range given in either order)
            for via_config in ((False, True) if i % 8 == 0 else (False,)):
                if via_config:
                    shape = (lo2, hi2, 85.0, -60.0) if i % 16 else (lo2, hi2, -60.0, 85.0)
                    tname, sensor, call = real.cfg_sensor(ctx, shape)
                    real._cfg_sensors.pop(tuple(shape), None)   # one-off masks: do not keep them
                    if sensor is RAISED:
                        continue
                elif guard(ctx, "sensor-mask-setter", "off-lattice mask", rpm, real.set_mask, lo2, hi2, -89.0, 90.0) is RAISED:
                    continue
                else:
                    call = real.sensor.isVisible
                res = guard(ctx, "isvisible", "off-lattice mask", rpm, call, tgt, 10.0, 0.2, slant)
                if res is RAISED:
                    continue
                got, reason = res
                mask_reason_guard(ctx, real, reason, tgt, "off-lattice mask")
                if reason not in real.mask_reasons:
                    continue
                if bool(got) != exp:
                    el_fault = reason == real.Explanation.ELEVATION_MASK   # the elevation (20 deg) is inside every range used here
                    sig = (("el-mask-config-path" if el_fault else "az-mask-config-path") if via_config
                           else "elmask-mismatch" if el_fault else ("azmask-wrap-mismatch" if lo2 > hi2 else "azmask-nowrap-mismatch"))
                    ctx.violation(sig, f"{'configured ' if via_config else ''}az mask [{lo2:.5f}, {hi2:.5f}] target az {az2:.5f} (off-lattice): expected {exp}, "
                                  f"isVisible says {bool(got)} ({reason.value})", dict(rpm, via_config=via_config))
    # ---- limb: tangent cone; Sun: range and limits
    for i in range(n):
        s = rand_unit(rng) * RL * rng.uniform(1.01, 10.0)
        alpha = math.asin(RL / np.linalg.norm(s))
        theta = alpha * rng.uniform(0.0, 2.0) if i % 2 else rng.uniform(0, math.pi)
        perp = np.cross(s, rand_unit(rng))
        perp /= np.linalg.norm(perp)
        rho = (-math.cos(theta) * s / np.linalg.norm(s) + math.sin(theta) * perp) * rng.uniform(10.0, 80000.0)
        ctx.case(("rel-limb", i))
        if abs(theta - alpha) < 1e-7:
            skipped += 1
            continue
        exp = theta < alpha
        got = guard(ctx, "limb", "off-lattice sensor / target", {"s": s.tolist(), "rho": rho.tolist()}, real.limb, *limb_inputs(s, s + rho))
        if got is not RAISED and bool(got) != exp:
            ctx.violation("limb-mismatch", f"checkSpaceSensorEarthLimbObscuration (off-lattice): angle from nadir {theta:.6f}, "
                          f"limb half angle {alpha:.6f}: expected {exp}, got {got}", {"s": s.tolist(), "rho": rho.tolist()})
        t = rand_unit(rng) * RE * rng.uniform(1.01, 10.0)
        u = rand_unit(rng)
        tu, nt = float(t @ u), float(t @ t)
        cls = "full" if (tu > 0 and 1000 * tu * tu >= nt) else "umbra" if (tu < 0 and 100 * (nt - tu * tu) <= 81 * RE * RE and nt <= 100 * RE * RE) else "range"
        ctx.case(("rel-sun", i), nontrivial=cls != "range")
        rps = {"t": t.tolist(), "u": u.tolist()}
        frac = sun_call(ctx, real, t, AU_KM * u, "off-lattice target", rps)
        if frac is not RAISED:
            sun_check(ctx, frac, cls, rps, "off-lattice target")
            sun_overlap_check(ctx, real, frac, t, AU_KM * u, rps, "off-lattice target")
        # a target placed in / beside the penumbra at a random distance up to 10 Earth radii
        w = np.cross(u, rand_unit(rng))
        w /= np.linalg.norm(w)
        r, dist, sx = RE * rng.uniform(1.02, 10.0), AU_KM * rng.uniform(0.983, 1.017), rng.uniform(-0.3, 1.3)
        phi = (math.asin(RE / r) - math.asin(real.RS / dist)) + sx * 2 * math.asin(real.RS / dist)
        t = r * (-math.cos(phi) * u + math.sin(phi) * w)
        ctx.case(("rel-pen", i))
        rps = {"t": t.tolist(), "sun": (dist * u).tolist()}
        frac = sun_call(ctx, real, t, dist * u, "off-lattice target near the penumbra", rps)
        if frac is not RAISED:
            sun_check(ctx, frac, "range", rps, "off-lattice target near the penumbra")
            sun_overlap_check(ctx, real, frac, t, dist * u, rps, f"off-lattice target at {r / RE:.3f} Earth radii, {sx:.3f} across the penumbra")
    # ---- the two EDGES of the penumbra (separation = b - a and = a + b), located by bisection on independently derived
    #      apparent discs and approached to 1e-16 .. 1e-9 rad from both sides: the fraction stays in [0, 1] and between the models
    for i in range(n):
        u = rand_unit(rng)
        w = np.cross(u, rand_unit(rng))
        w /= np.linalg.norm(w)
        r, dist, outer = RE * rng.uniform(1.02, 10.0), AU_KM * rng.uniform(0.983, 1.017), i % 2

        def pos(phi, r=r, u=u, w=w):
            return r * (-math.cos(phi) * u + math.sin(phi) * w)

        def off(phi, dist=dist, u=u, outer=outer):
            a, b, c = apparent_discs(real, pos(phi), dist * u)
            return c - (a + b) if outer else c - (b - a)

        a0, b0 = math.asin(real.RS / dist), math.asin(RE / r)
        lo = (b0 + a0 if outer else b0 - a0) - 0.5 * a0
        hi = lo + a0
        if not (off(lo) < 0 < off(hi)):
            skipped += 1
            continue
        for _ in range(70):
            mid = 0.5 * (lo + hi)
            lo, hi = (lo, mid) if off(mid) > 0 else (mid, hi)
        ctx.case(("rel-pen-edge", i))
        for _ in range(6):
            phi = lo + rng.choice((-1, 1)) * 10 ** rng.uniform(-16, -9)
            t = pos(phi)
            where = f"target at {r / RE:.3f} Earth radii within 1e-9 rad of the {'outer' if outer else 'umbra'} edge of the penumbra"
            rps = {"t": t.tolist(), "sun": (dist * u).tolist()}
            frac = sun_call(ctx, real, t, dist * u, where, rps)
            if frac is not RAISED:
                sun_check(ctx, frac, "range", rps, where)
                sun_overlap_check(ctx, real, frac, t, dist * u, rps, where, tol=EDGE_TOL)
    # ---- coincident positions: the degenerate segment is the point itself, unobstructed iff it lies outside the Earth
    for i in range(n // 4):
        pnt = rand_unit(rng) * RE * (rng.uniform(1.0 + 1e-6, 10.0) if i % 4 else rng.uniform(0.2, 1.0 - 1e-6))
        exp = float(np.linalg.norm(pnt)) > RE
        ctx.case(("rel-los-coincident", i))
        got = guard(ctx, "los", "coincident positions", {"a": pnt.tolist()}, real.lineOfSight, pnt, pnt.copy())
        if got is not RAISED and bool(got) != exp:
            ctx.violation("los-coincident-points", f"lineOfSight(p, p) = {bool(got)} for a point at {np.linalg.norm(pnt) / RE:.6f} Earth radii "
                          f"(the segment is the point itself: expected {exp})", {"a": pnt.tolist(), "expected": exp})
    return skipped


# --------------------------------------------------------------------------------------
def _cfg(ctx: Ctx, kinds) -> str:
    text = (tlc.SPEC_DIR / ("Visibility_quick.cfg" if ctx.quick else "Visibility_thorough.cfg")).read_text()
    if kinds is not None:
        text = text.replace("CONSTANT Kinds <- KindsAll", "CONSTANTS Kinds = {" + ", ".join(json.dumps(k) for k in kinds) + "}")
    return text


def _run_tlc(ctx: Ctx, kinds, workers):
    name = "all" if kinds is None else "_".join(kinds)
    res = tlc.require_ok(tlc.run_tlc("Visibility", _cfg(ctx, kinds), ctx.sub("tlc_" + name), workers=workers, timeout=3000,
                                     heap="6g"), f"Visibility.tla ({name})")
    for inv, states in res.invariant_violations:
        raise tlc.MachineryError(f"Visibility.tla theorem {inv} fails at spec level:\n" + "\n".join(states[-1:]))
    if not res.ok:
        raise tlc.MachineryError("Visibility.tla did not complete:\n" + res.stdout[-1500:])
    return res


def _rows(res):
    """Stream the emitted cases (a thorough run prints millions of lines: never hold them as objects)."""
    for line in io.StringIO(res.stdout):
        if line.startswith('"V '):
            line = line.rstrip("\n")
            if not line.endswith('"'):
                raise tlc.MachineryError("truncated spec output line: " + line[:200])
            yield json.loads(json.loads(line)[2:])


def run(ctx: Ctx):
    real = Real()
    rng = random.Random(ctx.seed * 1000003 + 14)
    ctx.rule = ("every 'done' state of Visibility.tla is one case, distinct by (kind, shape, from, to): rect = az/el grid (1 deg within "
                "+-3 deg of the north seam and of 180, coarse elsewhere; elevations to +-90) x FoV sizes, plus twins rotated so that "
                "boresight/target sit on the seam; conic = all pairs of integer SEZ directions x cones with rational cos^2; azmask = all "
                "[lo,hi] on a 10 (quick) / 5 (thorough) degree grid incl. wrapping and lo=hi x azimuths; elmask (incl. a decreasing range); "
                "azmaskcfg / elmaskcfg = the same ranges stated in RadarConfig / AdvRadarConfig / OpticalConfig -> sensorFactory x 8-12 azimuths; "
                "pen = targets at 1.1-10 Earth radii stepped across the penumbra in three frames; los = all unordered pairs "
                "of lattice points of the cube of side 7 Earth radii on/above the sphere, both argument orders; limb; sun.  Non-trivial: "
                "rect = seam-straddling or inside or within 6 deg of an edge; azmask = wrapping, degenerate or within 10 deg of an end; "
                "los = closest point interior to the segment or margin <= 2; all others counted.  rel-* keys: seeded off-lattice "
                "relation checks")
    ctx.assumptions = [
        "inputs whose exact margin is 0 (on an edge) are undecided: either answer accepted; all other lattice margins are >= 0.5 deg "
        "or >= 1e-6 relative, far above double rounding",
        "zenith/nadir: azimuth undefined, rect FoV decided only through the elevation clause or reflexivity (identical 6-vectors)",
        "line of sight: both endpoints on or above the sphere of equatorial radius and distinct (lineOfSight(a, a) is nan-driven False, outside the domain)",
        "limb test: SEZ zenith taken along the sensor's geocentric position (as the function's docstring assumes), sensor strictly above the limb sphere",
        "Sun fraction: target strictly above the surface; 'full' = Sun centre >= 1.8 deg above the local horizontal, 'umbra' = within 0.9 R "
        "of the shadow axis behind the Earth (conservative bands, exact on the lattice); elsewhere only 0 <= f <= 1 (tolerance 1e-9)",
        f"off-lattice relation checks skip inputs within {BAND:g} (relative) / 1e-7 deg-rad of an edge; the expected value there is the "
        "spec's formula evaluated in double precision (a relation, not an exact decision)",
        "FoV sizes inside the configurable domain are built through FieldOfView.fromConfig; masks both through the Sensor mask setters "
        "(azmask, elmask: taken as given, an explicit decreasing elevation mask is empty) and through the public sensor configuration "
        "(azmaskcfg, elmaskcfg: azimuth range ordered, elevation range an unordered pair, as documented); for OpticalConfig the built sensor is "
        "asked through the inherited Sensor.isVisible (its lighting constraints cannot be left open)",
        f"visible-Sun fraction in the penumbra: must lie between the flat-disc overlap of the documented reference (Montenbruck 3.4.2) and the exact "
        f"spherical-cap overlap, both from independently computed apparent radii/separation, +-{OVERLAP_TOL:g} (the two models differ by up to 2.1e-4 "
        "at 1.1 Earth radii, 2e-6 at 10): a relation evaluated in double precision, not an exact decision; monotone across the band",
        "a legal input on which a real predicate (or a legal configuration) raises is reported as '<name>-raises:<Exception>'",
    ]
    rp = Replayer(ctx, real)
    import time
    t_start = time.time()
    if ctx.quick:
        res = _run_tlc(ctx, None, ctx.cpus)
        ctx.extra["tlc_wall_s"] = round(res.wall_s, 1)
        ctx.add_tlc(res, "Visibility.tla exhaustive, all kinds: spec theorems + expected answers")
        for row in _rows(res):
            rp.row(row)
        del res
    else:
        groups = [("rect",), ("conic",), ("azmask", "elmask", "azmaskcfg", "elmaskcfg"), ("los",), ("limb", "sun", "pen")]
        with ThreadPoolExecutor(1) as ex:   # TLC of the next group runs while this one is replayed
            fut = ex.submit(_run_tlc, ctx, groups[0], ctx.cpus)
            for gi, g in enumerate(groups):
                res = fut.result()
                if gi + 1 < len(groups):
                    fut = ex.submit(_run_tlc, ctx, groups[gi + 1], max(2, ctx.cpus - 2))
                ctx.add_tlc(res, f"Visibility.tla exhaustive, kinds {g}: spec theorems + expected answers")
                for row in _rows(res):
                    rp.row(row)
                del res
    for k in KINDS:
        if rp.n[k] == 0:
            raise tlc.MachineryError(f"Visibility.tla emitted no '{k}' case")
        if k not in ("sun", "pen") and rp.undecided[k] >= rp.n[k]:
            raise tlc.MachineryError(f"every '{k}' case is undecided")
    if min(rp.sun_classes.values()) == 0:
        raise tlc.MachineryError(f"Sun classes not all exercised: {rp.sun_classes}")
    rp.pen_monotone()
    if rp.sun_partial_expected < 50:
        raise tlc.MachineryError(f"the penumbra sweep poses only {rp.sun_partial_expected} partial eclipses (by the oracle)")
    ctx.traces_validated += sum(rp.n.values())
    for k in ("rect", "azmaskcfg", "los", "conic", "limb", "pen"):
        r = rp.sample[k][1]
        ctx.samples.append({"kind": k, "shape": r[1], "from": r[2], "to": r[3], "expected": r[4], "margin": r[5], "why": r[6]})
    ctx.extra["tlc_plus_replay_wall_s"] = round(time.time() - t_start, 1)
    skipped = relations(ctx, real, rng, 1500 if ctx.quick else 60000)
    # TLC's workers emit in a different order each run: make the reported example per signature deterministic
    ctx.violations.sort(key=lambda v: (v["signature"], "row" not in v["replay"], json.dumps(v["replay"], sort_keys=True, default=str)))
    ctx.extra.update(spec_cases_replayed=rp.n, spec_cases_by_branch_and_expected=dict(sorted(rp.branches.items())), undecided_margin_zero=rp.undecided, nontrivial_by_kind=rp.nontrivial,
                     rotated_twins_replayed=rp.twins, sun_classes=rp.sun_classes, sun_partial_fractions_seen=rp.sun_partial, sun_partial_eclipses_posed=rp.sun_partial_expected,
                     mask_reason_differs_from_spec_branch=rp.reason_mismatch, config_path_sensor_types=dict(sorted(rp.cfg_types_used.items())),
                     penumbra_sweeps=len(rp.pen), penumbra_planar_vs_spherical_model_gap_max=rp.pen_gap, off_lattice_relation_inputs_skipped_near_edge=skipped)


def replay(ctx: Ctx, rpf: dict):
    """Re-evaluate one stored failing case against the current tree."""
    real = Real()
    data = rpf["replay"]
    row = data.get("row")
    if not row:
        return run(ctx)
    rp = Replayer(ctx, real)
    rp.row(row)
    r = data.get("rotated_by")
    if row[0] == "rect" and r:
        b2, t2 = [(row[2][0] + r) % 360, row[2][1]], [(row[3][0] + r) % 360, row[3][1]]
        rp.row(["rect", row[1], b2, t2, row[4], row[5], row[6]])
