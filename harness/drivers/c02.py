"""C02 - reported observations satisfy all sensor constraints; misses state a true reason.

1. TLC checks SensorChain.tla exhaustively (all constraint vectors x sensor kinds x host kinds
   x background targets): ObservationAllowed, MissReasonTrue, ExactlyOneMissForPrimary,
   BackgroundOnlyObservations, BoresightUpdatedIffSlew and the derived theorems.
2. impl -> spec: REAL Radar / AdvRadar / Optical sensors on REAL SensingAgents (ground
   facilities and spacecraft; sensor and target definitions of the repository's test
   configurations, plus variants through public config keys) are driven through the REAL
   Sensor.collectObservations on (a) the geometry of a running real scenario and (b) synthetic
   placements at chosen azimuth / elevation / range (seam, zenith, mask / FoV / range / limb /
   shadow / exclusion-cone edges +- delta).  Every call becomes one record whose constraint
   values are the driver's OWN tri-state evaluation (harness/drivers/_c02geom.py); TLC
   validates the records against TraceSensorChain.tla.
3. Measurement clause: the reported az/el/range/range-rate against the independent geometry
   at the authoritative epoch, projected to an integer percentage of the tolerance.
4. Noise statistics (statistical, driver-side): repeated observations of one target by sensors with
   diagonal and with correlated (non-diagonal) configured covariance; the whitened errors must have
   zero mean and unit covariance (noise_statistics()).
"""
from __future__ import annotations

import copy
import json
import math
import random
import re
import time
from concurrent.futures import ThreadPoolExecutor
from datetime import datetime, timedelta

import numpy as np

from .. import tlc
from ..core import Ctx
from . import _c02geom as G

LEVEL = "model_checking"

ALLC = "{" + ", ".join(f'"{c}"' for c in G.CONSTRAINTS) + "}"
SPEC_INVS = ("ObservationAllowed", "MissReasonTrue", "ExactlyOneMissForPrimary", "BackgroundOnlyObservations",
             "BoresightUpdatedIffSlew", "PrimaryObservedIffAllHold", "IrrelevantIgnored")
TRACE_INVS = ("ObservationAllowed_impl", "BackgroundNeedsSlew_impl", "MissReasonTrue_impl",
              "ExactlyOneMissForPrimary_impl", "BackgroundOnlyObservations_impl", "BoresightUpdatedIffSlew_impl",
              "Measurement_impl", "EmitMatched")

REASON = {"Slew Rate/Distance to Target": "slew", "Field of View": "fov", "Minimum Range": "minR",
          "Maximum Range": "maxR", "Line of Sight": "los", "Elevation Mask": "el", "Azimuth Mask": "az",
          "Radar Sensitivity - Max Range": "radar", "Solar Flux": "flux", "Visual Magnitude": "vismag",
          "Galactic Exclusion Zone": "galactic", "Space Sensor Illumination": "sunCone",
          "Limb of the Earth": "limb", "Ground Sensor Illumination": "dark"}
KIND = {"optical": "optical", "radar": "radar", "adv_radar": "adv_radar"}
TINY = 1e-24          # smallest covariance used for the "noise off" path (sigma = 1e-12)


# ----------------------------------------------------------------------------- spec level
def spec_cfg(maxbg, vary_p, vary_b, vals, relevant, stuck=False):
    invs = list(SPEC_INVS) + (["NeverStuck"] if stuck else [])
    return ("SPECIFICATION Spec\n"
            f"CONSTANTS MaxBg = {maxbg} VaryPrim = {vary_p} VaryBg = {vary_b} Vals = {vals} "
            f"OnlyRelevant = {relevant}\n" + "".join(f"INVARIANT {i}\n" for i in invs))


def spec_configs(quick: bool):
    cfgs = [("exact-primary", spec_cfg(0, ALLC, "{}", "{0, 1}", "TRUE" if quick else "FALSE")),
            ("exact-background", spec_cfg(1, '{"slew", "fov", "los"}', ALLC, "{0, 1}", "TRUE")),
            ("undecided", spec_cfg(1, '{"slew", "fov", "los", "radar", "limb"}', '{"fov", "flux"}', "{0, 1, 2}",
                                   "FALSE", stuck=True))]
    if not quick:
        cfgs.append(("two-background", spec_cfg(2, '{"slew", "fov"}',
                                                '{"fov", "los", "el", "radar", "flux", "limb"}', "{0, 1}", "TRUE")))
        cfgs.append(("undecided-wide", spec_cfg(1, '{"slew", "fov", "minR", "los", "az", "radar", "vismag", "limb", "dark"}',
                                                '{"fov", "el", "flux", "radar"}', "{0, 1, 2}", "TRUE")))
    return cfgs


def run_spec_level(ctx: Ctx):
    cfgs = spec_configs(ctx.quick)

    def one(nc):
        name, cfg = nc
        return name, tlc.run_tlc("SensorChain", cfg, ctx.sub(f"spec_{name}"), workers=2 if ctx.quick else max(2, ctx.cpus // 4), timeout=2400)

    with ThreadPoolExecutor(3) as ex:
        cov = ex.submit(coverage_run, ctx)
        out = list(ex.map(one, cfgs))
        return out, cov.result()


def account_spec_level(ctx: Ctx, results):
    for name, res in results:
        tlc.require_ok(res, f"SensorChain {name}")
        ctx.add_tlc(res, f"SensorChain.tla exhaustive: {name}")
        for inv, states in res.invariant_violations:
            raise tlc.MachineryError(f"SensorChain.tla invariant {inv} fails at spec level ({name}):\n"
                                     + "\n".join(states[-1:]))
        if res.distinct_states < 1000:
            raise tlc.MachineryError(f"SensorChain {name}: only {res.distinct_states} states")


def coverage_run(ctx: Ctx):
    cfg = spec_cfg(1, '{"slew", "fov", "los"}', '{"fov", "los"}', "{0, 1, 2}", "FALSE", stuck=True)
    return tlc.run_tlc("SensorChain", cfg, ctx.sub("spec_cov"), workers=2, timeout=900, coverage=True)


def coverage_selftest(ctx: Ctx, res):
    """Every action of the machine must be taken (small config, -coverage 1)."""
    tlc.require_ok(res, "SensorChain coverage")
    if res.invariant_violations:
        raise tlc.MachineryError(f"SensorChain coverage config violates {res.invariant_violations[0][0]}")
    ctx.add_tlc(res, "SensorChain.tla coverage run")
    need = ["PoseKind", "PosePrimA", "PosePrimB", "PoseBg", "Slew", "Attempt", "Background", "SkipBackground", "Finish"]
    dead = [a for a in need if res.coverage.get(f"SensorChain!{a}", (0, 0))[1] == 0]
    if dead:
        raise tlc.MachineryError(f"SensorChain actions never taken: {dead}")
    ctx.extra["spec_actions_covered"] = {a: res.coverage[f"SensorChain!{a}"][1] for a in need}


# ----------------------------------------------------------------------------- scenario
def _variant(sdict, new_id, name, **mods):
    d = copy.deepcopy(sdict)
    d["id"] = new_id
    d["name"] = name
    s = d["sensor"]
    n = 2 if s["type"] == "optical" else 4
    if mods.pop("tiny", False):
        s["covariance"] = [[TINY if i == j else 0.0 for j in range(n)] for i in range(n)]
    for k, v in mods.items():
        s[k] = v
    return d


def sensor_set(ctx: Ctx, rng):
    """Sensor definitions: the repository's test configurations + variants via public keys."""
    from .. import scenario_util as su
    ground = su._parsed("main_init.json")["engines"][0]["sensors"]
    space = [s for e in su._parsed("test_init.json")["engines"] for s in e["sensors"]
             if s["platform"]["type"] == "spacecraft"]
    pick = [0, 2, 3, 12, 15, 19, 23, 24, 26, 27, 33, 35, 38] if ctx.quick else list(range(len(ground)))
    out, meta = [], {}

    def add(d, noise, origin):
        out.append(d)
        meta[d["id"]] = {"noise": noise, "origin": origin, "cfg": d}

    for i in pick:
        add(copy.deepcopy(ground[i]), "config", "main_init")
    for s in space:
        add(copy.deepcopy(s), "config", "sat_sensors")
    nid = 130000
    conic = lambda a: {"fov_shape": "conic", "cone_angle": a}          # noqa: E731
    rect = lambda a, e: {"fov_shape": "rectangular", "azimuth_angle": a, "elevation_angle": e}  # noqa: E731
    gv = pick if not ctx.quick else pick[::2] + [pick[1]]
    for n, i in enumerate(gv):
        g = ground[i]
        fov = [conic(6.0), rect(20.0, 10.0), conic(60.0), rect(2.0, 2.0), conic(150.0)][n % 5]
        mods = {"tiny": True, "background_observations": True, "field_of_view": fov}
        if n % 3 == 0:
            mods.update(minimum_range=900.0, maximum_range=25000.0)
        if g["sensor"]["type"] == "optical" and n % 2 == 0:
            mods["detectable_vismag"] = 13.5
        nid += 1
        add(_variant(g, nid, f"{g['name']} v{n}", **mods), "tiny", "main_init+variant")
    # non-square rectangular fields of view (azimuth x elevation extents must not be interchangeable) and
    # slow mounts (the slew budget separates "since the last tasking" from "since the start")
    by_type = {t: next(g for g in ground if g["sensor"]["type"] == t and g["sensor"]["azimuth_range"][0] == 0.0)
               for t in ("adv_radar", "optical", "radar")}
    for n, (t, az_e, el_e, rate) in enumerate((("adv_radar", 20.0, 2.0, 0.1), ("optical", 2.0, 20.0, None),
                                               ("radar", 7.0, 4.0, 0.5), ("adv_radar", 3.0, 12.0, 0.05))):
        mods = {"tiny": True, "background_observations": True, "field_of_view": rect(az_e, el_e)}
        if rate is not None:
            mods["slew_rate"] = rate
        nid += 1
        add(_variant(by_type[t], nid, f"{by_type[t]['name']} rect{az_e:g}x{el_e:g}", **mods), "tiny",
            "main_init+non-square FoV / slow mount")
    # elevation range given in DECREASING order (documented "order independent") and bright limiting
    # magnitudes (the magnitude limit is then reached at tens of km, where range and relative speed in km/s
    # are of the same order)
    for n, (t, el_rng, vm) in enumerate((("adv_radar", [85.0, 3.0], None), ("optical", [89.9, 0.5], None),
                                         ("optical", None, -3.5))):
        mods = {"tiny": True, "background_observations": bool(n % 2), "field_of_view": conic(8.0)}
        if el_rng:
            mods["elevation_range"] = el_rng
        if vm is not None:
            mods["detectable_vismag"] = vm
        nid += 1
        add(_variant(by_type[t], nid, f"{by_type[t]['name']} el-desc/bright {n}", **mods), "tiny",
            "main_init+decreasing elevation range / bright limit")
    sid = 61000
    for n, (i, el_rng, vm) in enumerate(((0, [80.0, -80.0], None), (4, None, -2.6), (2, [60.0, -89.0], -4.0))):
        mods = {"tiny": True, "background_observations": True, "field_of_view": conic(12.0)}
        if el_rng:
            mods["elevation_range"] = el_rng
        if vm is not None:
            mods["detectable_vismag"] = vm
        sid += 1
        add(_variant(space[i % len(space)], sid, f"{space[i % len(space)]['name']} el-desc/bright {n}", **mods), "tiny",
            "sat_sensors+decreasing elevation range / bright limit")
    radars = [g for g in ground if g["sensor"]["type"] in ("radar", "adv_radar")]
    for n, s in enumerate(space):
        fov = [conic(10.0), rect(30.0, 20.0), conic(90.0), rect(4.0, 4.0)][n % 4]
        mods = {"tiny": True, "background_observations": True, "field_of_view": fov}
        if n % 2 == 0:
            mods["detectable_vismag"] = 14.0
        if n % 4 == 1:
            mods.update(minimum_range=300.0, maximum_range=40000.0)
        sid += 1
        add(_variant(s, sid, f"{s['name']} v{n}", **mods), "tiny", "sat_sensors+variant")
        if n == 1:
            sid += 1
            add(_variant(s, sid, f"{s['name']} rect16x3 slow", tiny=True, background_observations=True,
                         field_of_view=rect(16.0, 3.0), slew_rate=0.2), "tiny", "sat_sensors+non-square FoV / slow mount")
        if n % 2 == 0 or not ctx.quick:
            # a radar of the ground network hosted on this spacecraft (space-based radar)
            r = radars[(3 * n) % len(radars)]
            d = copy.deepcopy(s)
            sid += 1
            d["id"], d["name"] = sid, f"{s['name']} radar{n}"
            d["sensor"] = copy.deepcopy(r["sensor"])
            d["sensor"].update(azimuth_range=[0.0, 359.99999], elevation_range=[-89.99999, 89.99999],
                               background_observations=bool(n % 4 == 0),
                               field_of_view=[conic(20.0), rect(8.0, 8.0)][(n // 2) % 2])
            if n % 4 == 2:
                d["sensor"]["covariance"] = [[TINY if i == j else 0.0 for j in range(4)] for i in range(4)]
            add(d, "tiny" if n % 4 == 2 else "config", "sat_sensors+main_init radar")
    # correlated (non-diagonal) measurement noise: SensorConfig.covariance is a full matrix.  Truth-only side
    # (label "corr"), so that the simulator's own filters never depend on them.
    nid = 135000
    for t, rho in (("radar", 0.8), ("adv_radar", -0.6), ("optical", -0.7)):
        g = by_type[t]
        d = _variant(g, nid, f"{g['name']} corr{rho:+g}", background_observations=False)
        cov = np.array(d["sensor"]["covariance"], float)
        n = cov.shape[0]
        for i in range(0, n - 1, 2):                    # (az, el) and (range, range rate) pairwise correlated
            cov[i, i + 1] = cov[i + 1, i] = rho * math.sqrt(cov[i, i] * cov[i + 1, i + 1])
        d["sensor"]["covariance"] = cov.tolist()
        add(d, "corr", "main_init+correlated noise")
        nid += 1
    return out, meta


def twilight_sites(base_sensor: dict, epoch, first_id: int):
    """Variants of a ground optical sensor placed (public LLA keys) where the Sun is 105 deg +- d from the
    geocentric site direction at `epoch`: the site-darkness rule at its edge."""
    from resonaate.physics.bodies.third_body import Sun
    from resonaate.physics.time.stardate import datetimeToJulianDate
    k = G.consts()
    sun = np.asarray(Sun.getPosition(datetimeToJulianDate(epoch)), float).reshape(3)
    shat = G.rot_eci2ecef(epoch) @ (sun / np.linalg.norm(sun))
    lon_s = math.atan2(shat[1], shat[0])
    out = []

    def sun_angle(lat, lon, h=0.1):
        n = k["RE"] / math.sqrt(1 - k["E2"] * math.sin(lat) ** 2)
        r = np.array([(n + h) * math.cos(lat) * math.cos(lon), (n + h) * math.cos(lat) * math.sin(lon),
                      (n * (1 - k["E2"]) + h) * math.sin(lat)])
        return G.ang(shat, r)

    for n, d in enumerate((-0.05, -1e-3, -1e-7, 1e-7, 1e-3, 0.05)):
        lat = math.radians((-25.0, 10.0, 35.0)[n % 3])
        want = math.pi / 2 + math.pi / 12 + d
        lo, hi = lon_s, lon_s + math.pi            # the Sun angle grows monotonically from noon to midnight
        if not sun_angle(lat, lo) < want < sun_angle(lat, hi):
            continue
        for _ in range(80):
            mid = 0.5 * (lo + hi)
            lo, hi = (mid, hi) if sun_angle(lat, mid) < want else (lo, mid)
        lon = math.degrees(G.wrap_pi(0.5 * (lo + hi)))
        v = _variant(base_sensor, first_id + n, f"twilight site {n}", tiny=True, background_observations=False,
                     field_of_view={"fov_shape": "conic", "cone_angle": 8.0}, azimuth_range=[0.0, 359.99999],
                     elevation_range=[0.0, 89.99999])
        v["state"] = {"type": "lla", "latitude": math.degrees(lat), "longitude": lon, "altitude": 0.1}
        out.append(v)
    return out


def build_app(ctx: Ctx, start: str, step: int, n_steps: int, n_targets: int, sensors, target_props=None,
              truth_only=False):
    from .. import scenario_util as su
    cfg = su.base_config(start=start, step=step, n_steps=n_steps, n_targets=n_targets, n_sensors=1,
                         template="main_init.json", decision="MunkresDecision", seed=ctx.seed + 1,
                         truth_only=truth_only)
    cfg["engines"][0]["sensors"] = copy.deepcopy(sensors)
    # the global switch would force background_observations on for every sensor; leave it to the sensors
    cfg.setdefault("observation", {})["background"] = False
    for t, props in zip(cfg["engines"][0]["targets"], target_props or ()):
        t["platform"]["visual_cross_section"] = props["area"]
        t["platform"]["reflectivity"] = props["refl"]
    return su.build(cfg), su.parse_iso(start)


# ----------------------------------------------------------------------------- one attempt
class Runner:
    def __init__(self, ctx: Ctx, app, start_dt, meta, estimates=None):
        from resonaate.physics.bodies.third_body import Sun
        self.ctx, self.app, self.start, self.meta = ctx, app, start_dt, meta
        self.estimates = estimates if estimates is not None else app.estimate_agents
        self.k = G.consts()
        self.Sun = Sun
        self.records, self.inputs = [], []
        self.after = None
        self.track = {}            # sensor id -> (boresight, time_last_tasked) tracked across steps (two_step)
        self.stats = {"obs": 0, "miss": {}, "bg_obs": 0, "undecided_values": 0, "attempts": 0}

    def host_kind(self, sa):
        return "space" if str(getattr(sa.agent_type, "value", sa.agent_type)) == "spacecraft" else "ground"

    def site_of(self, sa):
        auth = self.start + timedelta(seconds=float(sa.time))      # authoritative epoch
        if auth != sa.datetime_epoch:
            raise tlc.MachineryError(f"host.datetime_epoch {sa.datetime_epoch} is not start+time {auth}")
        return G.Site(sa.eci_state, auth, self.k), auth

    def attempt(self, sa, tgt, est_eci, bgs, tag, prior=None, tracked=None):
        """One real collectObservations call -> one record (appended).

        prior   = (boresight, time_last_tasked) the driver puts the sensor in (SensingAgent.updateInfo);
        tracked = (boresight, time_last_tasked) the sensor MUST be in by the driver's own bookkeeping of the
                  preceding taskings (chained calls): slew reachability is judged from it, not from what
                  the implementation remembered.
        """
        s = sa.sensors
        m = self.meta[sa.simulation_id]
        kind = m["cfg"]["sensor"]["type"]
        kind = str(getattr(kind, "value", kind))
        host = self.host_kind(sa)
        P = G.sensor_params(s, kind, host, m["cfg"]["sensor"])
        if prior is not None:
            sa.updateInfo({"boresight": np.array(prior[0], float),
                           "time_last_tasked": type(s.time_last_tasked)(float(prior[1]))})
        site, auth = self.site_of(sa)
        sun = np.asarray(self.Sun.getPosition(sa.julian_date_epoch), float).reshape(3)
        b0 = np.array(s.boresight, float).copy()
        t0 = float(s.time_last_tasked)
        now = float(sa.time)
        est = np.asarray(est_eci, float).reshape(6)
        Lp = site.look(est)
        if tracked is None:
            slew = G.c_slew(b0, Lp, P["slew_rate"], now - t0)
        else:
            slew = G.c_slew(np.asarray(tracked[0], float), Lp, P["slew_rate"], now - float(tracked[1]))
        targets = [tgt, *bgs]
        looks, vecs = [], []
        for a in targets:
            L = site.look(a.eci_state)
            c = G.constraints(site, P, Lp, L, {"area": float(a.visual_cross_section),
                                               "refl": float(a.reflectivity)}, sun)
            c["slew"] = slew
            looks.append(L)
            vecs.append(c)
        inputs = {"tag": tag, "sensor_id": sa.simulation_id, "sensor_cfg": m["cfg"], "kind": kind, "host": host,
                  "epoch": auth.isoformat(), "time": now, "sensor_eci": [float(v) for v in sa.eci_state],
                  "estimate_eci": est.tolist(), "prior_boresight": b0.tolist(), "prior_time_last_tasked": t0,
                  "targets": [{"id": a.simulation_id, "eci": [float(v) for v in a.eci_state],
                               "area": float(a.visual_cross_section), "refl": float(a.reflectivity)} for a in targets],
                  "pointing_azel": [Lp["az"], Lp["el"]], "pointing_sez": Lp["sez"].tolist(),
                  "sun_eci": sun.tolist(),
                  "tracked_prior": None if tracked is None else [np.asarray(tracked[0], float).tolist(), float(tracked[1])],
                  "target_azelrng": [[L["az"], L["el"], L["rng"]] for L in looks]}
        # ---------------- the real call
        # a legal attempt on which the REAL code raises is a violation of the property (the attempt yields
        # neither an observation nor a miss), never a failure of the harness
        try:
            ret = s.collectObservations(est, tgt, list(bgs))
            obs_list, miss_list, b1, t1 = ret
        except Exception as ex:  # noqa: BLE001
            import traceback
            where = traceback.extract_tb(ex.__traceback__)[-1]
            inputs["outcome"] = {"exception": repr(ex), "raised_at": f"{where.filename.split('/resonaate/')[-1]}:{where.name}",
                                 "constraints_primary": vecs[0], "constraints_background": vecs[1:]}
            self.ctx.violation(f"collect-observations-raises:{type(ex).__name__}",
                               f"{kind}/{host}: collectObservations raised {ex!r} in {inputs['outcome']['raised_at']} on a "
                               f"legal attempt (case {tag})", {"inputs": inputs, "record": None})
            self.stats["raised"] = self.stats.get("raised", 0) + 1
            self.ctx.case(("raised", kind, host, type(ex).__name__, tag), nontrivial=True)
            # put the sensor back into the state it had, and keep the bookkeeping of chained taskings
            sa.updateInfo({"boresight": b0, "time_last_tasked": type(s.time_last_tasked)(t0)})
            self.after = (b0, t0) if tracked is None else (np.asarray(tracked[0], float), float(tracked[1]))
            return None
        # ---------------- projection of the outcome
        ids = [a.simulation_id for a in targets]
        obs_n = [0] * len(ids)
        stray = 0
        meas, meas_detail = [], []
        for o in obs_list:
            if o.target_id not in ids:
                stray += 1
                continue
            ti = ids.index(o.target_id)
            obs_n[ti] += 1
            e, det = self.meas_error(sa, s, o, looks[ti], m["noise"], auth, targets[ti])
            meas.append(e)
            meas_detail.append(det)
        miss = []
        for mo in miss_list:
            if mo.target_id not in ids:
                stray += 1
                continue
            miss.append({"t": ids.index(mo.target_id), "r": REASON.get(mo.reason, "unknown")})
        b1 = np.asarray(b1, float)
        unchanged = bool(np.array_equal(b1, b0) and float(t1) == t0)
        updated = bool(np.max(np.abs(b1 - Lp["sez"])) <= 1e-9 and float(t1) == now)
        attr_ok = bool(np.array_equal(np.asarray(s.boresight, float), b1) and float(s.time_last_tasked) == float(t1))
        bs = 3 if not attr_ok else 2 if (unchanged and updated) else 1 if updated else 0 if unchanged else 3
        rec = {"kind": kind, "host": host, "calcBg": bool(P["calc_bg"]), "p": vecs[0], "bg": vecs[1:],
               "out": {"bs": bs, "obsN": obs_n, "miss": miss, "stray": stray, "meas": meas}}
        inputs["outcome"] = {"obs_targets": [o.target_id for o in obs_list],
                             "misses": [[mo.target_id, mo.reason] for mo in miss_list],
                             "boresight_after": b1.tolist(), "time_last_tasked_after": float(t1),
                             "meas": meas_detail, "meas_target": [ids.index(o.target_id) for o in obs_list if o.target_id in ids],
                             "fov": list(P["fov"])}
        self.records.append(rec)
        self.inputs.append(inputs)
        # the state the sensor must be in now, by the driver's own bookkeeping
        if slew == 1:
            self.after = (Lp["sez"].copy(), now)
        elif slew == 0:
            self.after = (b0, t0) if tracked is None else (np.asarray(tracked[0], float), float(tracked[1]))
        else:
            self.after = (b1.copy(), float(t1))
        # ---------------- bookkeeping
        st = self.stats
        st["attempts"] += 1
        st["obs"] += obs_n[0]
        st["bg_obs"] += sum(obs_n[1:])
        for mm in miss:
            st["miss"][mm["r"]] = st["miss"].get(mm["r"], 0) + 1
        st["undecided_values"] += sum(1 for v in vecs for x in v.values() if x == 2)
        need = ["slew", "fov", *G.needed(kind, host)]
        key = (kind, host, P["fov"][0], P["calc_bg"], tuple(vecs[0][c] for c in need),
               tuple(tuple(v[c] for c in need[1:]) for v in vecs[1:]))
        nontrivial = slew != 0 or len(bgs) > 0
        sample = None
        if len(self.ctx.samples) < 6 and st["attempts"] % 611 == 1:
            sample = {"tag": tag, "kind": kind, "host": host, "p": vecs[0], "out": rec["out"]}
        self.ctx.case(key, nontrivial=nontrivial, sample=sample)
        return rec

    def meas_error(self, sa, s, o, L, noise, auth, tgt):
        """Integer-projected measurement error: 100 * max_i |reported_i - independent_i| / tol_i."""
        r = np.asarray(s.r_matrix, float)
        labels = list(s.measurement.labels)
        worst, det = 0.0, {}
        for i, lab in enumerate(labels):
            val = getattr(o, lab)
            sig = math.sqrt(float(r[i, i]))
            if val is None:
                worst = max(worst, 1e9)
                det[lab] = None
                continue
            val = float(val)
            if not math.isfinite(val):                         # NaN / inf is no measurement at all
                worst = max(worst, 1e9)
                det[lab] = [None, 1e9, 1.0, 0.0]
                continue
            if lab == "azimuth_rad":
                if L["coshor"] < G.SING_COS:
                    continue                                   # azimuth undefined at the zenith / nadir
                sgn, tol = G.wrap_pi(val - L["az"]), 1e-9 / L["coshor"] + 6.0 * sig
            elif lab == "elevation_rad":
                sgn, tol = val - L["el"], 1e-9 + 6.0 * sig
            elif lab == "range_km":
                sgn, tol = val - L["rng"], 1e-9 * max(1.0, L["rng"]) + 6.0 * sig
            elif lab == "range_rate_km_p_sec":
                sgn, tol = val - L["rr"], 1e-8 + 6.0 * sig
            else:
                raise tlc.MachineryError(f"unknown measurement label {lab}")
            err = abs(sgn)
            det[lab] = [val, err, tol, sgn]
            worst = max(worst, err / tol)
        e = int(min(10 ** 6, math.ceil(100.0 * worst)))
        if e > 100:
            # diagnosis for the signature: which component, and does the report match one second off?
            det["worst"] = max((lab for lab in labels if det.get(lab)), key=lambda lab: det[lab][1] / det[lab][2])
            det["epoch_shift"] = None
            for sh in (-1.0, 1.0) if all(det[lab][0] is not None for lab in labels if det.get(lab)) else ():
                L2 = G.Site(sa.eci_state, auth + timedelta(seconds=sh), self.k).look(tgt.eci_state)
                ref = {"azimuth_rad": L2["az"], "elevation_rad": L2["el"], "range_km": L2["rng"],
                       "range_rate_km_p_sec": L2["rr"]}
                if all(abs(G.wrap_pi(det[lab][0] - ref[lab]) if "rad" in lab else det[lab][0] - ref[lab]) <= det[lab][2]
                       for lab in labels if det.get(lab)):
                    det["epoch_shift"] = sh
        return e, det


# ----------------------------------------------------------------------------- case generation
def place(site: G.Site, az, el, rng_km, vel):
    """ECI state of a point at (azimuth, elevation, range) of the site's east/north/up frame."""
    d = rng_km * (math.cos(el) * (math.sin(az) * site.E + math.cos(az) * site.N) + math.sin(el) * site.U)
    pos = site.R.T @ (site.s_ecef + d)
    return np.concatenate([pos, np.asarray(vel, float)])


def place_dir(site: G.Site, d_eci, rng_km, vel):
    d = np.asarray(d_eci, float)
    return np.concatenate([site.s[:3] + rng_km * d / np.linalg.norm(d), np.asarray(vel, float)])


def perp(v, rng):
    v = np.asarray(v, float) / np.linalg.norm(v)
    while True:
        w = np.array([rng.gauss(0, 1) for _ in range(3)])
        w -= (w @ v) * v
        if np.linalg.norm(w) > 1e-3:
            return w / np.linalg.norm(w)


def rotate_from(v, angle, rng):
    """A unit vector at `angle` from unit vector v (random direction)."""
    v = np.asarray(v, float) / np.linalg.norm(v)
    return math.cos(angle) * v + math.sin(angle) * perp(v, rng)


def rand_vel(rng):
    return [rng.uniform(-7.5, 7.5) for _ in range(3)]


DELTAS = (1e-12, 1e-7, 1e-4, 3e-3)


def sweep(run: Runner, rng, per_sensor: int, max_bg: int):
    """(a) the running real scenario: truth and estimate states as the simulator has them."""
    app = run.app
    tids = list(app.target_agents.keys())
    for sa in app.sensor_agents.values():
        s = sa.sensors
        site, _ = run.site_of(sa)
        chosen = rng.sample(tids, min(per_sensor, len(tids)))
        base = (np.array(s.boresight, float).copy(), float(s.time_last_tasked))
        for n, tid in enumerate(chosen):
            tgt = app.target_agents[tid]
            est = np.array(run.estimates[tid].eci_state, float)
            mode = n % 4
            if mode == 1:            # estimate displaced by a fraction of the field of view
                kind = run.meta[sa.simulation_id]["cfg"]["sensor"]["type"]
                P = G.sensor_params(s, str(getattr(kind, "value", kind)), run.host_kind(sa),
                                    run.meta[sa.simulation_id]["cfg"]["sensor"])
                half = (P["fov"][1] if P["fov"][0] == "conic" else min(P["fov"][1], P["fov"][2])) / 2.0
                L = site.look(tgt.eci_state)
                frac = rng.choice((0.5, 0.98, 1.02, 1.5))
                d = rotate_from(L["d_eci"], frac * half, rng)
                est = np.concatenate([site.s[:3] + L["rng"] * d, est[3:]])
            bgs = [app.target_agents[t] for t in rng.sample([t for t in tids if t != tid],
                                                          min(rng.randint(0, max_bg), len(tids) - 1))]
            prior = None             # mode 0: chained calls, the state the previous call left
            if mode in (1, 2):       # from the state the scenario left the sensor in
                prior = base
            elif mode == 3:          # a random prior pointing, tasked one step ago or just now
                prior = (rotate_from([0, 0, 1.0], rng.uniform(0, 1.5), rng),
                         float(sa.time) - rng.choice((0.0, float(sa.dt_step), float(sa.time))))
            run.attempt(sa, tgt, est, bgs, f"sweep{mode}", prior)
        sa.updateInfo({"boresight": base[0], "time_last_tasked": type(s.time_last_tasked)(base[1])})


NOISE_N = 300
NOISE_BOUND = 5.5          # standard errors


def noise_statistics(run: Runner, rng, want):
    """(c) 'within the sensor's stated noise': NOISE_N repeated observations of one visible target per selected sensor;
    the errors, whitened with the inverse symmetric square root of the configured covariance R, must have zero mean and
    unit covariance within NOISE_BOUND standard errors (every attempt is also an ordinary record of the trace)."""
    app = run.app
    tids = list(app.target_agents.keys())
    out = {}
    for sa in app.sensor_agents.values():
        m = run.meta[sa.simulation_id]
        if not want(sa, m):
            continue
        s = sa.sensors
        r = np.asarray(s.r_matrix, float)
        ev, evec = np.linalg.eigh(r)
        if ev.min() <= 0:
            raise tlc.MachineryError(f"sensor {sa.name}: configured covariance is not positive definite")
        w_inv = evec @ np.diag(ev ** -0.5) @ evec.T
        labels = list(s.measurement.labels)
        base = (np.array(s.boresight, float).copy(), float(s.time_last_tasked))
        samples, bad_value = [], 0
        # candidates: the scenario's own targets as they are; then (ground hosts) the first target moved to the middle of
        # the masks at a ladder of ranges - restored afterwards, like the synthetic stratum does
        cands = [(app.target_agents[tid], None) for tid in tids]
        if run.host_kind(sa) == "ground":
            kind0 = str(getattr(m["cfg"]["sensor"]["type"], "value", m["cfg"]["sensor"]["type"]))
            P = G.sensor_params(s, kind0, "ground", m["cfg"]["sensor"])
            site0, _ = run.site_of(sa)
            a0, a1 = P["az_mask"]
            az = (a0 + ((a1 - a0) % (2 * math.pi)) / 2.0) % (2 * math.pi)
            el = (max(min(P["el_mask"]), 0.0) + max(P["el_mask"])) / 2.0
            for rk in (900.0, 2500.0, 8000.0, 20000.0, 38000.0):
                if (P["min_range"] or 0.0) < rk < (P["max_range"] or 1e9):
                    cands.append((app.target_agents[tids[0]], place(site0, az, el, rk, rand_vel(rng))))
        for tgt, moved in cands:
            saved_state = np.array(tgt.eci_state, float).copy()
            if moved is not None:
                tgt.eci_state = np.asarray(moved, float)
            try:
                site, _ = run.site_of(sa)
                L = site.look(tgt.eci_state)
                if L["coshor"] < 0.05:
                    continue
                prior = (np.asarray(L["sez"], float) / np.linalg.norm(L["sez"]), float(sa.time))     # already pointing at it
                for n in range(NOISE_N):
                    rec = run.attempt(sa, tgt, np.array(tgt.eci_state, float), [], "noise", prior if n == 0 else None)
                    if rec is None or rec["out"]["obsN"][0] != 1:
                        break
                    oc = run.inputs[-1]["outcome"]
                    det = oc["meas"][oc["meas_target"].index(0)]
                    if any(det.get(lab) is None or det[lab][0] is None for lab in labels):
                        bad_value += 1
                        continue
                    samples.append([det[lab][3] for lab in labels])
            finally:
                tgt.eci_state = saved_state
            if len(samples) + bad_value >= NOISE_N:
                break
            samples, bad_value = [], 0
        sa.updateInfo({"boresight": base[0], "time_last_tasked": type(s.time_last_tasked)(base[1])})
        kind = str(getattr(m["cfg"]["sensor"]["type"], "value", m["cfg"]["sensor"]["type"]))
        if len(samples) + bad_value < NOISE_N:
            out[sa.name] = {"samples": len(samples), "skipped": "no observable target among the scenario's targets"}
            continue
        info = {"samples": len(samples), "non_finite": bad_value, "noise": m["noise"]}
        if len(samples) >= NOISE_N // 2:
            w = np.asarray(samples, float) @ w_inv.T
            n = len(w)
            mean = w.mean(axis=0)
            cov = (w.T @ w) / n
            se_cov = np.sqrt((1.0 + np.eye(len(labels))) / n)
            z_mean = float(np.abs(mean).max() * math.sqrt(n))
            z_cov = float((np.abs(cov - np.eye(len(labels))) / se_cov).max())
            info.update(z_mean=round(z_mean, 2), z_cov=round(z_cov, 2))
            run.ctx.case(("noise-statistics", sa.name), nontrivial=True)
            if z_mean > NOISE_BOUND or z_cov > NOISE_BOUND:
                run.ctx.violation(f"noise-statistics:{kind}:{'correlated' if m['noise'] == 'corr' else 'diagonal'}",
                                  f"{sa.name}: {n} measurement errors whitened with the configured covariance have mean "
                                  f"{np.round(mean, 3).tolist()} and covariance {np.round(cov, 3).tolist()} "
                                  f"(identity expected; {z_mean:.1f} / {z_cov:.1f} standard errors, bound {NOISE_BOUND})",
                                  {"part": "noise-statistics", "sensor_cfg": m["cfg"], "labels": labels, "n": n,
                                   "whitened_mean": mean.tolist(), "whitened_cov": cov.tolist()})
        out[sa.name] = info
    return out


def place_sez(site: G.Site, sez_unit, rng_km, vel):
    """ECI state of the point at range rng_km along a unit vector given in the site's SEZ axes."""
    d = rng_km * (sez_unit[1] * site.E - sez_unit[0] * site.N + sez_unit[2] * site.U)
    return np.concatenate([site.R.T @ (site.s_ecef + d), np.asarray(vel, float)])


def two_step(run: Runner, rng):
    """Consecutive taskings of one sensor at DIFFERENT scenario times (truth-only scenario, nothing else
    moves the sensor in between): the second pointing lies 0.6x / 1.4x the slew budget since the previous
    tasking away from the previous pointing.  The previous pointing and time are the driver's own record."""
    app = run.app
    prim = next(iter(app.target_agents.values()))
    saved = np.array(prim.eci_state, float).copy()
    try:
        for n, sa in enumerate(app.sensor_agents.values()):
            sid = sa.simulation_id
            if run.meta[sid]["origin"].endswith("twilight site"):
                continue
            s = sa.sensors
            site, _ = run.site_of(sa)
            now = float(sa.time)
            rate = math.radians(float(run.meta[sid]["cfg"]["sensor"]["slew_rate"]))
            if sid not in run.track:
                # first tasking: from a prior pointing well inside the budget since scenario start
                tgt_state = place(site, 2.0, 0.9, 2000.0, rand_vel(rng))
                Lp = site.look(tgt_state)
                prior = (rotate_from(Lp["sez"], min(0.5 * rate * now, 2.5), rng), 0.0)
                prim.eci_state = tgt_state
                run.attempt(sa, prim, tgt_state, [], "two-step-first", prior)
            else:
                b_prev, t_prev = run.track[sid]
                budget = rate * (now - t_prev)
                f = (0.6, 1.4)[(n + int(now)) % 2] if budget * 1.4 < math.pi else 0.6
                ang = min(f * budget, 3.0)
                tgt_state = place_sez(site, rotate_from(b_prev, ang, rng), 2000.0, rand_vel(rng))
                prim.eci_state = tgt_state
                run.attempt(sa, prim, tgt_state, [], "two-step-next", None, tracked=(b_prev, t_prev))
            run.track[sid] = run.after
    finally:
        prim.eci_state = saved


def synthetic(run: Runner, rng, scale: int, select):
    """(b) placements chosen by the driver: edges of every constraint +- delta, seam, zenith."""
    app = run.app
    tgts = list(app.target_agents.values())[:4]
    saved = [np.array(t.eci_state, float).copy() for t in tgts]
    prim, b1, b2, b3 = tgts
    try:
        for i, sa in enumerate(app.sensor_agents.values()):
            if run.meta[sa.simulation_id]["origin"].endswith("twilight site"):
                _twilight_scenes(run, rng, sa, prim)
            elif select(i):
                s = sa.sensors
                keep = (np.array(s.boresight, float).copy(), float(s.time_last_tasked))
                _synthetic_sensor(run, rng, sa, prim, [b1, b2, b3], scale)
                sa.updateInfo({"boresight": keep[0], "time_last_tasked": type(s.time_last_tasked)(keep[1])})
    finally:
        for t, st in zip(tgts, saved):
            t.eci_state = st


def _twilight_scenes(run: Runner, rng, sa, prim):
    """A sunlit target high above a site whose Sun angle sits at the darkness limit +- d."""
    site, _ = run.site_of(sa)
    for az, el, r in ((0.4, 1.1, 1500.0), (2.0, 0.8, 2500.0), (3.9, 1.3, 4000.0), (5.5, 0.6, 1800.0)):
        prim.eci_state = place(site, az, el, r, rand_vel(rng))
        Lp = site.look(prim.eci_state)
        run.attempt(sa, prim, np.array(prim.eci_state, float), [], "twilight",
                    (rotate_from(Lp["sez"], 0.2, rng), 0.0))


def _synthetic_sensor(run: Runner, rng, sa, prim, bgs, scale):   # noqa: C901, PLR0912, PLR0915
    s = sa.sensors
    m = run.meta[sa.simulation_id]
    kind = str(getattr(m["cfg"]["sensor"]["type"], "value", m["cfg"]["sensor"]["type"]))
    host = run.host_kind(sa)
    P = G.sensor_params(s, kind, host, m["cfg"]["sensor"])
    site, _ = run.site_of(sa)
    k = run.k
    now = float(sa.time)
    step = float(sa.dt_step)
    sun = np.asarray(run.Sun.getPosition(sa.julian_date_epoch), float).reshape(3)
    a0, a1 = P["az_mask"]
    e0, e1 = sorted(P["el_mask"])                  # documented as an order-independent pair
    span = a1 - a0 if a1 >= a0 else a1 - a0 + G.TWO_PI
    az_mid = (a0 + span / 2.0) % G.TWO_PI
    el_mid = max(e0, 0.35) if e1 > 0.5 else (e0 + e1) / 2.0
    el_mid = min(el_mid + 0.3, (e0 + e1) / 2.0 + 0.2, e1 - 0.05)
    r_nom = 1800.0 if host == "ground" else 3000.0
    half_az, half_el = ((P["fov"][1] / 2.0,) * 2 if P["fov"][0] == "conic" else (P["fov"][1] / 2.0, P["fov"][2] / 2.0))
    free = (rotate_from([0, 0, 1.0], 0.7, rng), 0.0)              # prior: tasked at t=0, far away

    def reach(Lp_state):
        """prior boresight from which the slew is comfortably possible"""
        Lp = site.look(Lp_state)
        ang = min(0.5 * P["slew_rate"] * now, 3.0)
        return (rotate_from(Lp["sez"], ang, rng), 0.0)

    def go(tag, t_state, est_state=None, bg_states=(), prior="reach"):
        prim.eci_state = np.asarray(t_state, float)
        est = np.asarray(t_state if est_state is None else est_state, float)
        used = []
        for a, st in zip(bgs, bg_states):
            a.eci_state = np.asarray(st, float)
            used.append(a)
        pr = reach(est) if prior == "reach" else prior
        run.attempt(sa, prim, est, used, tag, pr)

    n_d = len(DELTAS) if scale > 1 else 3
    deltas = DELTAS[:n_d]
    # -- 1. azimuth / elevation mask edges
    for d in deltas:
        for sgn in (-1, 1):
            for edge in (a0, a1):
                go("az-edge", place(site, (edge + sgn * d) % G.TWO_PI, el_mid, r_nom, rand_vel(rng)))
            for edge in (e0, e1):
                el = edge + sgn * d
                if abs(el) < math.pi / 2:
                    go("el-edge", place(site, az_mid, el, r_nom * (1 if el > 0.02 or host == "space" else 0.2),
                                        rand_vel(rng)))
    # -- 2. the 0/360 seam: commanded pointing on one side, truth on the other
    for e_p, e_t in ((1e-3, 1e-3), (3e-3, 2e-3), (2e-7, 3e-3), (half_az * 0.6, half_az * 0.3), (half_az * 0.7, half_az * 0.7)):
        for flip in (0, 1):
            azp, azt = ((G.TWO_PI - e_p), e_t) if flip == 0 else (e_p, (G.TWO_PI - e_t))
            el = max(min(el_mid, e1 - 0.1), e0 + 0.05)
            go("seam", place(site, azt, el, r_nom, rand_vel(rng)), place(site, azp, el, r_nom, [0, 0, 0]),
               bg_states=[place(site, (azt + 0.4 * half_az) % G.TWO_PI, el, r_nom * 1.1, rand_vel(rng))])
    # -- 3. near the zenith
    for eps in (1e-2, 1e-4, 1e-6, 1e-9, 0.0):
        for azt in (0.3, 2.1, 4.0)[:2 if scale == 1 else 3]:
            el = math.pi / 2 - eps
            go("zenith", place(site, azt, el, r_nom, rand_vel(rng)),
               place(site, (azt + 1.0) % G.TWO_PI, math.pi / 2 - eps * 0.5 - 1e-3, r_nom, [0, 0, 0]))
    # -- 4. field-of-view edges
    for d in deltas:
        for sgn in (-1, 1):
            azp, elp = az_mid, max(min(el_mid, 1.2), e0 + half_el + 0.02)
            est = place(site, azp, elp, r_nom, [0, 0, 0])
            if P["fov"][0] == "conic":
                Lp = site.look(est)
                dirv = rotate_from(Lp["d_eci"], half_az + sgn * d, rng)
                go("fov-edge", place_dir(site, dirv, r_nom, rand_vel(rng)), est,
                   bg_states=[place_dir(site, rotate_from(Lp["d_eci"], half_az - sgn * d, rng), r_nom * 0.9, rand_vel(rng))])
            else:
                go("fov-edge-az", place(site, (azp + half_az + sgn * d) % G.TWO_PI, elp, r_nom, rand_vel(rng)), est,
                   bg_states=[place(site, (azp - half_az - sgn * d) % G.TWO_PI, elp, r_nom, rand_vel(rng))])
                go("fov-edge-el", place(site, azp, elp + half_el + sgn * d, r_nom, rand_vel(rng)), est,
                   bg_states=[place(site, azp, elp - half_el + sgn * d, r_nom, rand_vel(rng))])
    # -- 4b. non-square rectangular field of view: offsets BETWEEN the two half-extents
    if P["fov"][0] == "rect" and abs(half_az - half_el) > 1e-3:
        mid = 0.5 * (half_az + half_el)
        azp = az_mid
        elp = min(max(min(el_mid, 1.0), e0 + mid + 0.02), e1 - mid - 0.02)
        est = place(site, azp, elp, r_nom, [0, 0, 0])
        for sgn in (-1, 1):
            beside = place(site, (azp + sgn * mid) % G.TWO_PI, elp, r_nom, rand_vel(rng))
            above = place(site, azp, elp + sgn * mid, r_nom * 1.05, rand_vel(rng))
            go("fov-between", beside, est, bg_states=[above, place(site, azp, elp, r_nom * 0.9, rand_vel(rng))])
            go("fov-between", above, est, bg_states=[beside])
    # -- 5. range limits
    for lim in (P["min_range"], P["max_range"]):
        if lim is None or not (50.0 < lim < 1e5):
            continue
        for d in deltas:
            for sgn in (-1, 1):
                go("range-edge", place(site, az_mid, max(el_mid, 0.6), lim * (1 + sgn * d), rand_vel(rng)))
    # -- 6. radar sensitivity edge (range equation)
    if kind != "optical":
        rad = P["radar"]
        lam = rad["C"] / rad["f"]
        for area in (float(prim.visual_cross_section),):
            sigma = 4 * math.pi * area ** 2 / lam ** 2
            rstar = (rad["P"] * rad["eta"] ** 2 * math.pi * rad["D"] ** 4 * sigma / (64 * lam ** 2 * rad["Pmin"])) ** 0.25 / 1000.0
            for d in deltas:
                for sgn in (-1, 1):
                    if 200.0 < rstar < 5e5:
                        go("radar-edge", place(site, az_mid, max(el_mid, 0.9), rstar * (1 + sgn * d), rand_vel(rng)))
    # -- 7. line-of-sight tangency (the ray grazes the sphere of Earth radius)
    rs = float(np.linalg.norm(site.s[:3]))
    if host == "space":
        for d in deltas:
            for sgn in (-1, 1):
                eta = math.asin(min(1.0, k["RE"] * (1 + sgn * d) / rs))
                dirv = rotate_from(-site.s[:3], eta, rng)
                go("los-tangent", place_dir(site, dirv, rs * math.cos(eta) * rng.choice((0.5, 1.6, 2.0)), rand_vel(rng)))
        # -- 8. Earth-limb tangency (sphere of Earth radius + atmosphere), optical only matters
        for d in (1e-9, 1e-4, 5e-3, 2e-2, 0.2):
            for sgn in (-1, 1):
                eta = math.asin((k["RE"] + k["ATM"]) / rs) + sgn * d
                dirv = rotate_from(-site.s[:3], eta, rng)
                go("limb-tangent", place_dir(site, dirv, rs * math.cos(eta) * rng.choice((0.4, 1.7)), rand_vel(rng)))
        # -- 8b. the same cone seen by targets at a clearly DIFFERENT geocentric radius than the sensor (the
        #         limb cone belongs to the OBSERVER): far above and far below, just inside / outside the limb
        #         cone and inside the atmosphere band between the line-of-sight cone and the limb cone
        if kind == "optical":
            eta_los, eta_limb = math.asin(k["RE"] / rs), math.asin((k["RE"] + k["ATM"]) / rs)
            etas = [eta_limb + d for d in (-2e-2, -5e-3, 6e-3, 1.7e-2)] + [0.5 * (eta_los + eta_limb)]
            for eta in etas[:3 if scale == 1 else 5] + etas[4:] * (scale == 1):
                for r_t in (max(rs * math.sin(eta) * 1.03, k["RE"] + 250.0), max(3.0 * rs, 42164.0)):
                    if 0.6 < r_t / rs < 1.6:
                        continue
                    disc = r_t ** 2 - (rs * math.sin(eta)) ** 2
                    if disc <= 0:
                        continue
                    rho = rs * math.cos(eta) + (math.sqrt(disc) if r_t > rs else -math.sqrt(disc))
                    if rho > 10.0:
                        go("limb-radius-ratio", place_dir(site, rotate_from(-site.s[:3], eta, rng), rho, rand_vel(rng)))
    else:
        for el in (-2e-3, -1e-5, 0.0, 1e-5, 2e-3, 6e-3):
            for azt in (0.0, 1.6, 3.1, 4.7)[:2 if scale == 1 else 4]:
                go("horizon", place(site, azt, el, 2500.0, rand_vel(rng)))
    if kind == "optical":
        D = float(np.linalg.norm(sun))
        shat = sun / D
        sin_a = (k["RSUN"] - k["RE"]) / D
        # -- 9. shadow: target on the umbra cone +- delta (km)
        for xb in (7500.0, 15000.0, 42000.0)[:2 if scale == 1 else 3]:
            rad_c = (k["RE"] / sin_a - xb) * sin_a / math.sqrt(1 - sin_a ** 2)
            for d in (1e-7, 1e-2, 5.0, 300.0):
                for sgn in (-1, 1):
                    if rad_c + sgn * d <= 0:
                        continue
                    pos = -xb * shat + (rad_c + sgn * d) * perp(shat, rng)
                    if np.linalg.norm(pos) < k["RE"] + 150.0:
                        continue
                    go("umbra-edge", np.concatenate([pos, rand_vel(rng)]))
        # -- 11. galactic exclusion cone
        for d in (1e-9, 1e-5, 1e-2, 0.1):
            for sgn in (-1, 1):
                go("galactic-edge", place_dir(site, rotate_from(G.galactic_dir(), math.pi / 30 + sgn * d, rng),
                                              rng.choice((1500.0, 20000.0)), rand_vel(rng)))
        # -- 12. limiting magnitude
        det = P["detectable_vismag"]
        for d in (1e-10, 1e-5, 1e-2, 1.0):
            for sgn in (-1, 1):
                dirv = rotate_from(-sun if host == "space" else site.R.T @ site.U, 0.5, rng)
                r_try = 20000.0
                for _ in range(6):
                    st = place_dir(site, dirv, r_try, [0, 0, 0])
                    L = site.look(st)
                    mag = G.vismag(site, L, sun, float(prim.visual_cross_section), float(prim.reflectivity))
                    if not math.isfinite(mag):
                        break
                    r_try *= 10 ** ((det + sgn * d - mag) / 5.0)
                if 100.0 < r_try < 5e6:
                    go("vismag-edge", place_dir(site, dirv, r_try, rand_vel(rng)))
        # -- 12b. limiting magnitude reached at close range with a fast relative motion (range in km and
        #         relative speed in km/s of the same order): the magnitude depends on the RANGE only
        if det < 5.0:
            for dv in (1.0, 5.0, 15.0):
                for d in (1e-5, 1e-2, 0.3):
                    for sgn in (-1, 1):
                        up = site.s[:3] if host == "space" else site.R.T @ site.U
                        dirv = rotate_from(up, rng.uniform(0.2, 0.8), rng)
                        if G.ang(dirv, sun - site.s[:3]) < 0.5:
                            dirv = rotate_from(up, 0.1, rng)
                        r_try = 20.0
                        for _ in range(8):
                            L = site.look(place_dir(site, dirv, r_try, [0, 0, 0]))
                            mag = G.vismag(site, L, sun, float(prim.visual_cross_section), float(prim.reflectivity))
                            if not math.isfinite(mag):
                                break
                            r_try *= 10 ** ((det + sgn * d - mag) / 5.0)
                        if 1.0 < r_try < 500.0:
                            vel = site.s[3:] + dv * perp(dirv, rng) * 0.3 - dv * 0.954 * np.asarray(dirv) / np.linalg.norm(dirv)
                            go("vismag-close", place_dir(site, dirv, r_try, vel))
        if host == "space":
            # -- 10. Sun exclusion cone
            for d in (1e-9, 1e-5, 1e-3, 5e-2):
                for sgn in (-1, 1):
                    go("suncone-edge", place_dir(site, rotate_from(sun - site.s[:3], math.pi / 12 + sgn * d, rng),
                                                 rng.choice((900.0, 30000.0)), rand_vel(rng)))
    # -- 13. slew reachability edges and prior pointing states
    t_ok = place(site, az_mid, max(el_mid, 0.6), r_nom, rand_vel(rng))
    Lp = site.look(t_ok)
    for tlt in (0.0, now - step, now):
        budget = P["slew_rate"] * (now - tlt)
        for d in (*deltas, 0.2):
            for sgn in (-1, 1):
                a = budget + sgn * d
                if 0.0 <= a <= math.pi:
                    go("slew-edge", t_ok, prior=(rotate_from(Lp["sez"], a, rng), tlt),
                       bg_states=[place(site, az_mid, max(el_mid, 0.6), r_nom * 1.2, rand_vel(rng))])
        go("slew-same", t_ok, prior=(Lp["sez"].copy(), tlt))
    # -- 14. background targets in / on the edge of / outside the field of view
    for n in range(3 * scale):
        azp, elp = az_mid, max(min(el_mid, 1.2), e0 + half_el + 0.02)
        est = place(site, azp, elp, r_nom, [0, 0, 0])
        Lp = site.look(est)
        bgst = []
        for frac in (rng.choice((0.2, 0.9)), rng.choice((0.999, 1.001, 1.3)), rng.choice((0.1, 2.5))):
            if P["fov"][0] == "conic":
                bgst.append(place_dir(site, rotate_from(Lp["d_eci"], frac * half_az, rng),
                                      r_nom * rng.uniform(0.5, 3.0), rand_vel(rng)))
            else:
                bgst.append(place(site, (azp + frac * half_az * rng.choice((-1, 1))) % G.TWO_PI,
                                  elp + rng.uniform(-0.9, 0.9) * half_el, r_nom * rng.uniform(0.5, 3.0), rand_vel(rng)))
        prior = "reach" if n % 3 else free if n % 2 else (rotate_from(Lp["sez"], 3.0, rng), now)
        go("background", place(site, azp, elp, r_nom, rand_vel(rng)) if n % 2 == 0 else bgst[0], est, bgst, prior)


# ----------------------------------------------------------------------------- validation
def trace_cfg():
    return ("SPECIFICATION TraceSpec\n"
            f"CONSTANTS MaxBg = 0 VaryPrim = {{}} VaryBg = {{}} Vals = {{0, 1}} OnlyRelevant = TRUE\n"
            + "".join(f"INVARIANT {i}\n" for i in TRACE_INVS))


def classify(inv: str, rec: dict, inp: dict) -> tuple[str, str]:
    """Stable signature + sentence for a violated property of one record."""
    o, p = rec["out"], rec["p"]
    who = f"{rec['kind']}/{rec['host']}"
    if inv == "Measurement_impl":
        shifts = [d.get("epoch_shift") for d in inp["outcome"]["meas"] if isinstance(d, dict) and "epoch_shift" in d]
        if shifts and all(s is not None for s in shifts):
            return ("obs-epoch-off-by-1s", f"{who}: reported az/el equal the geometry {shifts[0]:+.0f} s from the "
                    "authoritative epoch (Observation.fromMeasurement inverts the Julian date)")
        worst = sorted({d.get("worst", "?") for d in inp["outcome"]["meas"] if isinstance(d, dict) and "worst" in d})
        return (f"obs-measurement-mismatch-{'+'.join(worst)}",
                f"{who}: reported measurement ({', '.join(worst)}) differs from the independent geometry")
    if inv == "MissReasonTrue_impl":
        for m in o["miss"]:
            vec = p if m["t"] == 0 else rec["bg"][m["t"] - 1]
            if m["r"] == "fov" and vec.get("fov") == 1 and inp["outcome"]["fov"][0] == "rect":
                azp = inp["pointing_azel"][0]
                azt = inp["target_azelrng"][m["t"]][0]
                elp, elt = inp["pointing_azel"][1], inp["target_azelrng"][m["t"]][1]
                tight = min(inp["outcome"]["fov"][1:]) / 2.0       # inside whichever way the extents are read
                if abs(azp - azt) > math.pi and abs(G.wrap_pi(azp - azt)) < tight and abs(elp - elt) < tight:
                    return ("rectfov-seam-not-wrapped", f"{who}: miss 'Field of View' although the target is inside the "
                            f"rectangular field of view across the 0/360 seam (pointing az {math.degrees(azp):.4f}, "
                            f"target az {math.degrees(azt):.4f} deg)")
            if m["r"] == "el" and vec.get("el") == 1:
                er = inp["sensor_cfg"]["sensor"].get("elevation_range")
                if er and er[0] > er[1]:
                    return ("elevation-range-decreasing-order-rejects-target", f"{who}: miss 'Elevation Mask' although the "
                            f"elevation {math.degrees(inp['target_azelrng'][m['t']][1]):.3f} deg lies inside the configured "
                            f"(documented order-independent) elevation_range {er}")
            if m["r"] == "vismag" and vec.get("vismag") == 1 and "sun_eci" in inp:
                tg = inp["targets"][m["t"]]
                rel = np.array(tg["eci"], float) - np.array(inp["sensor_eci"], float)
                r3, r6 = float(np.linalg.norm(rel[:3])), float(np.linalg.norm(rel))
                det = inp["sensor_cfg"]["sensor"].get("detectable_vismag")
                site = G.Site(inp["sensor_eci"], datetime.fromisoformat(inp["epoch"]))
                m3 = G.vismag(site, site.look(tg["eci"]), np.array(inp["sun_eci"], float), tg["area"], tg["refl"])
                m6 = m3 + 5.0 * math.log10(r6 / r3)
                if det is not None and m3 <= det < m6:
                    return ("vismag-range-from-6-vector-norm", f"{who}: miss 'Visual Magnitude' although the magnitude at the "
                            f"true range {r3:.3f} km is {m3:.3f} <= limit {det}; the reported miss is explained by the norm of "
                            f"the full state difference ({r6:.3f}, relative speed {math.sqrt(r6 * r6 - r3 * r3):.2f} km/s "
                            f"mixed in): magnitude {m6:.3f}")
            if m["r"] == "unknown" or vec.get(m["r"]) == 1 or m["r"] not in ["slew", "fov", *G.needed(rec["kind"], rec["host"])]:
                return (f"miss-reason-false-{m['r']}", f"{who}: miss reason '{m['r']}' names a constraint that does not fail")
        return "miss-reason-false", f"{who}: miss reason is not a failing constraint"
    if inv == "ObservationAllowed_impl":
        for t, n in enumerate(o["obsN"]):
            if n:
                vec = p if t == 0 else rec["bg"][t - 1]
                bad = [c for c in ["slew" if t == 0 else "fov", "fov", *G.needed(rec["kind"], rec["host"])] if vec.get(c) == 0]
                if bad:
                    return (f"obs-despite-{bad[0]}-{'primary' if t == 0 else 'background'}",
                            f"{who}: observation reported although constraint(s) {sorted(set(bad))} fail")
        return "obs-not-allowed", f"{who}: observation reported that the constraints do not allow"
    if inv == "BackgroundNeedsSlew_impl":
        if p["slew"] != 0 and o["bs"] == 3:
            return classify("BoresightUpdatedIffSlew_impl", rec, inp)
        return ("background-obs-after-failed-slew", f"{who}: serendipitous observation reported although the commanded "
                "pointing was not reached (canSlew false, boresight unchanged)")
    if inv == "ExactlyOneMissForPrimary_impl":
        return (f"primary-records-obs{o['obsN'][0]}-miss{sum(1 for m in o['miss'] if m['t'] == 0)}",
                f"{who}: tasked attempt produced {o['obsN'][0]} observation(s) and "
                f"{sum(1 for m in o['miss'] if m['t'] == 0)} miss record(s) of the primary")
    if inv == "BackgroundOnlyObservations_impl":
        return "background-miss-record", f"{who}: serendipitous attempt produced a miss record / duplicate / disabled-flag observation"
    if inv == "BoresightUpdatedIffSlew_impl":
        oc = inp["outcome"]
        b_new = max(abs(a - b) for a, b in zip(oc["boresight_after"], inp["pointing_sez"])) <= 1e-9
        b_old = oc["boresight_after"] == inp["prior_boresight"]
        t_new = oc["time_last_tasked_after"] == inp["time"]
        t_old = oc["time_last_tasked_after"] == inp["prior_time_last_tasked"]
        if p["slew"] == 1 and b_new and t_old and not t_new:
            return ("time-last-tasked-not-updated-after-slew", f"{who}: the sensor slewed (boresight = commanded pointing) but "
                    f"time_last_tasked stayed {oc['time_last_tasked_after']} instead of {inp['time']}: later slew "
                    "reachability is judged from a stale time")
        if p["slew"] == 1 and t_new and b_old and not b_new:
            return ("boresight-not-updated-after-slew", f"{who}: time_last_tasked updated but the boresight was not moved")
        if p["slew"] == 0 and (b_new or t_new) and o["bs"] != 2:
            return ("pointing-state-changed-without-slew", f"{who}: boresight/time_last_tasked changed although the "
                    "commanded pointing is not reachable")
        return (f"boresight-bs{o['bs']}-slew{p['slew']}", f"{who}: boresight/time_last_tasked state {o['bs']} "
                f"(0 unchanged, 1 updated, 3 other) with slew reachability {p['slew']}")
    return inv, f"{who}: {inv}"


def validate(ctx: Ctx, records, inputs):
    nshards = 1 if len(records) < 20000 else min(8, len(records) // 20000)
    shards = [list(range(k, len(records), nshards)) for k in range(nshards)]
    cfg = trace_cfg()

    def one(k):
        d = ctx.sub(f"trace{k}")
        (d / "records.json").write_text(json.dumps([records[i] for i in shards[k]]))
        return tlc.run_tlc("TraceSensorChain", cfg, d, workers=max(2, ctx.cpus // nshards), cont=True,
                           env={"RECORDS_FILE": "records.json"}, timeout=3000)

    with ThreadPoolExecutor(nshards) as ex:
        results = list(ex.map(one, range(nshards)))
    flagged = {}
    matched = set()
    for k, res in enumerate(results):
        tlc.require_ok(res, f"TraceSensorChain shard {k}")
        ctx.add_tlc(res, f"trace validation of {len(shards[k])} real collectObservations records (shard {k})")
        for row in res.tuples("MATCHED"):
            matched.add(shards[k][row[0] - 1])
        for inv, states in res.invariant_violations:
            if inv == "EmitMatched":
                raise tlc.MachineryError("EmitMatched reported as violated")
            mm = re.findall(r"/\\ i = (\d+)", "\n".join(states))
            if not mm:
                raise tlc.MachineryError(f"cannot map violation of {inv} to a record:\n" + "\n".join(states[-1:]))
            flagged.setdefault(shards[k][int(mm[-1]) - 1], []).append(inv)
    for idx, invs in sorted(flagged.items()):
        for inv in invs:
            sig, what = classify(inv, records[idx], inputs[idx])
            ctx.violation(sig, f"{what} [{inv[:-5]}; case {inputs[idx]['tag']}]",
                          {"record": records[idx], "inputs": inputs[idx], "invariant": inv})
    unexplained = [i for i in range(len(records)) if i not in matched and i not in flagged]
    if unexplained:
        i = unexplained[0]
        raise tlc.MachineryError(f"{len(unexplained)} record(s) satisfy every property predicate but are not a behaviour "
                                 f"of SensorChain, e.g. {json.dumps(records[i])}")
    wrongly = [i for i in matched if i in flagged and set(flagged[i]) - {"Measurement_impl"}]
    if wrongly:
        raise tlc.MachineryError(f"record {wrongly[0]} violates {flagged[wrongly[0]]} yet is a behaviour of SensorChain")
    ctx.traces_validated += len(records)
    ctx.extra["records_matched_as_spec_behaviour"] = len(matched)
    ctx.extra["records_flagged"] = len(flagged)


def binding_selftest(ctx: Ctx):
    """Binding mutants (DESIGN.md 8): hand-written records (independent of anything the implementation
    returned): the sound ones must be accepted as behaviours of SensorChain, each corrupted one must be
    rejected for exactly the property its corruption breaks."""
    ones = {c: 1 for c in G.CONSTRAINTS}

    def rec(p=None, bg=(), out=None, kind="adv_radar", host="ground", calc=True):
        return {"kind": kind, "host": host, "calcBg": calc, "p": {**ones, **(p or {})},
                "bg": [{**ones, **b} for b in bg], "out": out}

    good = [
        rec(bg=[{}], out={"bs": 1, "obsN": [1, 1], "miss": [], "stray": 0, "meas": [3, 40]}),
        rec(p={"los": 0}, bg=[{"fov": 0}], out={"bs": 1, "obsN": [0, 0], "miss": [{"t": 0, "r": "los"}], "stray": 0, "meas": []}),
        rec(p={"slew": 0}, bg=[{"slew": 0}], out={"bs": 0, "obsN": [0, 0], "miss": [{"t": 0, "r": "slew"}], "stray": 0, "meas": []}),
        rec(p={"limb": 0, "flux": 2}, kind="optical", host="space", calc=False,
            out={"bs": 1, "obsN": [0], "miss": [{"t": 0, "r": "flux"}], "stray": 0, "meas": []}),
    ]
    bad = [
        ("ObservationAllowed_impl", rec(p={"los": 0}, out={"bs": 1, "obsN": [1], "miss": [], "stray": 0, "meas": [1]})),
        ("MissReasonTrue_impl", rec(p={"los": 0}, out={"bs": 1, "obsN": [0], "miss": [{"t": 0, "r": "az"}], "stray": 0, "meas": []})),
        ("MissReasonTrue_impl", rec(p={"los": 0}, out={"bs": 1, "obsN": [0], "miss": [{"t": 0, "r": "limb"}], "stray": 0, "meas": []})),
        ("BoresightUpdatedIffSlew_impl", rec(out={"bs": 0, "obsN": [1], "miss": [], "stray": 0, "meas": [1]})),
        ("BoresightUpdatedIffSlew_impl", rec(out={"bs": 3, "obsN": [1], "miss": [], "stray": 0, "meas": [1]})),
        ("ExactlyOneMissForPrimary_impl", rec(p={"el": 0}, out={"bs": 1, "obsN": [0], "miss": [{"t": 0, "r": "el"}] * 2, "stray": 0, "meas": []})),
        ("ExactlyOneMissForPrimary_impl", rec(p={"el": 0}, out={"bs": 1, "obsN": [0], "miss": [], "stray": 0, "meas": []})),
        ("BackgroundOnlyObservations_impl", rec(bg=[{"fov": 0}], out={"bs": 1, "obsN": [1, 0], "miss": [{"t": 1, "r": "fov"}], "stray": 0, "meas": [1]})),
        ("Measurement_impl", rec(out={"bs": 1, "obsN": [1], "miss": [], "stray": 0, "meas": [101]})),
        ("BackgroundNeedsSlew_impl", rec(p={"slew": 0}, bg=[{"slew": 0}],
                                         out={"bs": 0, "obsN": [0, 1], "miss": [{"t": 0, "r": "slew"}], "stray": 0, "meas": [1]})),
    ]
    cases = [("", g) for g in good] + bad
    d = ctx.sub("binding")
    (d / "records.json").write_text(json.dumps([c[1] for c in cases]))
    res = tlc.require_ok(tlc.run_tlc("TraceSensorChain", trace_cfg(), d, workers=2, cont=True,
                                     env={"RECORDS_FILE": "records.json"}, timeout=900))
    ctx.add_tlc(res, "binding self-test: corrupted records must be rejected")
    hit = {}
    for inv, states in res.invariant_violations:
        mm = re.findall(r"/\\ i = (\d+)", "\n".join(states))
        if mm:
            hit.setdefault(int(mm[-1]) - 1, set()).add(inv)
    ok_rows = {row[0] - 1 for row in res.tuples("MATCHED")}
    wrong = [(k, exp, sorted(hit.get(k, ()))) for k, (exp, _) in enumerate(cases)
             if (exp and hit.get(k, set()) != {exp}) or (not exp and (k in hit or k not in ok_rows))]
    if wrong:
        raise tlc.MachineryError(f"binding self-test (hand-written records) failed: {wrong}")
    ctx.extra["binding_selftest"] = {"sound_records_accepted": len(good),
                                     "corrupted_records_rejected": [c[0][:-5] for c in bad]}


# ----------------------------------------------------------------------------- entry points
def run(ctx: Ctx):
    from .. import sched
    sched.install()
    rng = random.Random(ctx.seed * 104729 + 2)
    np.random.seed((ctx.seed * 7919 + 11) % (2 ** 31))
    ctx.rule = ("one case = one real Sensor.collectObservations call; (a) sweep: sensors x sampled targets of a running real "
                "scenario (real estimates, displaced estimates, scenario / random prior pointing), (b) synthetic: targets "
                "placed at mask, FoV, range, radar-range, line-of-sight, limb, umbra, Sun-cone, galactic-cone, limiting-"
                "magnitude and slew edges +- delta, across the 0/360 seam and at the zenith; distinct by (kind, host, FoV "
                "shape, background flag, constraint vectors of primary and background targets); non-trivial = the slew is "
                "not certainly refused or background targets are present")
    ctx.assumptions = [
        "trusted inputs of the independent geometry: the ECI->ECEF rotation of the code's FK5 reduction built at the "
        "authoritative datetime (start + timedelta), the code's Sun ephemeris at host.julian_date_epoch, model constants",
        "tolerance bands (value 2 = undecided, either answer accepted): 1e-9 relative for ranges and the Earth-radius "
        "distance of the line of sight, 1e-9 rad for elevation / cone angles, 1e-9/cos(el) rad for azimuth (undefined "
        "below cos(el) = 1e-6), 1e-8 relative for received radar power, 1e-5 km for the umbra cone, 1e-8 mag, 1e-7 rad "
        "for the galactic cone; WIDER where the formulation differs by model: Sun cone +- the target/sensor solar "
        "parallax (code measures at the target), Earth limb +- the geodetic/geocentric deflection of the vertical at "
        "the spacecraft (code uses the geodetic horizon), slew +- arccos conditioning (<= 2e-8 rad)",
        "line of sight: the point of the sensor-target segment closest to the geocentre, if interior, is at least one "
        "Earth radius away (DESIGN.md 12.7); spherical Earth as documented",
        "measurement: |reported - independent| <= 1e-9 (azimuth 1e-9/cos el, range 1e-9 relative, range rate 1e-8) + 6 sigma "
        "of the sensor's covariance; 'noise off' = covariance 1e-24 (attemptObservation hard-codes noisy=True); a non-finite "
        "reported value is never within tolerance",
        f"noise statistics (driver-side, statistical, outside the TLC-validated clauses): {NOISE_N} repeated observations per "
        "selected sensor (three sensors with correlated, non-diagonal covariance on the truth-only side + one configured sensor "
        "per kind/origin); the errors whitened with the inverse symmetric square root of the CONFIGURED covariance must have "
        f"mean 0 and covariance I within {NOISE_BOUND} standard errors (Gaussian standard errors sqrt(1/n), sqrt(2/n)); the numpy "
        "generator is seeded, so the verdict is reproducible",
        "elevation_range is read as the documented order-independent pair (variants in decreasing order included); "
        "time-bias events not explored",
        "photometric formulas are re-evaluated as documented (wiring only), not validated against physics",
    ]
    with ThreadPoolExecutor(1) as ex:
        fut = ex.submit(run_spec_level, ctx)               # TLC explores the machine while the driver drives the code
        records, inputs, stats = drive(ctx, rng)
        t0 = time.time()
        spec_results, cov = fut.result()
    t1 = time.time()
    account_spec_level(ctx, spec_results)
    coverage_selftest(ctx, cov)
    t2 = time.time()
    validate(ctx, records, inputs)
    binding_selftest(ctx)
    ctx.extra["wall_breakdown_s"] = {"drive": round(t0 - ctx.t0, 1), "wait_for_spec_level": round(t1 - t0, 1),
                                     "trace_validation": round(time.time() - t2, 1)}
    ctx.extra["attempts"] = stats


def _advance_truth_only(app_b, app_a):
    app_b.stepForward()
    if float(app_b.clock.time) != float(app_a.clock.time):
        raise tlc.MachineryError("the two scenarios of a plan are out of step")
    for tid, t in app_b.target_agents.items():
        if not np.allclose(t.eci_state, app_a.target_agents[tid].eci_state, rtol=0, atol=1e-6):
            raise tlc.MachineryError(f"truth of target {tid} differs between the two scenarios of a plan")


def drive(ctx: Ctx, rng):
    from .. import scenario_util as su
    sensors, meta = sensor_set(ctx, rng)
    optical_site = su._parsed("main_init.json")["engines"][0]["sensors"][3]
    plans = [("2018-12-01T12:00:00", 300, 2), ("2019-06-21T03:14:07", 60, 1)] if ctx.quick else \
            [("2018-12-01T12:00:00", 300, 3), ("2019-06-21T03:14:07", 60, 2), ("2020-03-20T18:29:43", 120, 2),
             ("2021-09-10T08:00:30", 600, 2)]
    records, inputs = [], []
    stats_all = []
    # Two real scenarios per plan, stepped in lockstep: A = sensors with their configured noise inside the
    # full simulation (estimation + tasking; supplies the real estimates), B = the "noise off" variants
    # (covariance 1e-24) in a truth-only simulation, so that the simulator's own filters never ingest
    # their (unrealistically exact) observations.
    sens_a = [d for d in sensors if meta[d["id"]]["noise"] == "config"]
    sens_b = [d for d in sensors if meta[d["id"]]["noise"] != "config"]
    for pi, (start, step, nsteps) in enumerate(plans):
        last = su.parse_iso(start) + timedelta(seconds=step * nsteps)
        extra = twilight_sites(optical_site, last, 140000 + 10 * pi)
        pmeta = dict(meta)
        for d in extra:
            pmeta[d["id"]] = {"noise": "tiny", "origin": "main_init+twilight site", "cfg": d}
        n_tg = 10 if ctx.quick else 24
        app_b, start_dt = build_app(ctx, start, step, nsteps + 1, n_tg, sens_b + extra, truth_only=True)
        app_a, _ = build_app(ctx, start, step, nsteps + 1, n_tg, sens_a)        # built last: owns the shared DB
        runs = [Runner(ctx, app_a, start_dt, pmeta), Runner(ctx, app_b, start_dt, pmeta, app_a.estimate_agents)]
        for n in range(nsteps):
            app_a.stepForward()
            _advance_truth_only(app_b, app_a)
            two_step(runs[1], rng)
            for ri, run in enumerate(runs):
                sweep(run, rng, per_sensor=4 if ctx.quick else 12, max_bg=3)
                if n == nsteps - 1 and (pi == 0 or not ctx.quick):
                    seen: dict = {}

                    def want(sa, m, ri=ri, seen=seen):
                        if m["noise"] == "corr":
                            return True
                        k = (str(m["cfg"]["sensor"]["type"]), m["origin"])
                        if ri == 0 and m["noise"] == "config" and seen.get(k, 0) < (1 if ctx.quick else 3):
                            seen[k] = seen.get(k, 0) + 1
                            return True
                        return False
                    run.stats["noise_statistics"] = noise_statistics(run, rng, want)
                if n == nsteps - 1:
                    if ctx.quick:
                        synthetic(run, rng, 1, lambda i, pi=pi: i % len(plans) == pi)
                    else:
                        synthetic(run, rng, 2, lambda i: True)
        for run in runs:
            records += run.records
            inputs += run.inputs
            run.stats["start"] = start
            run.stats["twilight_sites"] = len(extra)
            stats_all.append(run.stats)
    return records, inputs, stats_all


def replay(ctx: Ctx, rp: dict):
    """Rebuild the stored attempt (sensor config, epoch, states, prior pointing) and re-validate it."""
    from .. import sched
    sched.install()
    inp = rp["replay"].get("inputs")
    if not inp:
        return run(ctx)
    np.random.seed((ctx.seed * 7919 + 11) % (2 ** 31))
    from datetime import datetime
    epoch = datetime.fromisoformat(inp["epoch"])
    now = float(inp["time"])
    start = epoch - timedelta(seconds=now)
    cfgd = inp["sensor_cfg"]
    meta = {cfgd["id"]: {"noise": "tiny" if cfgd["sensor"]["covariance"][0][0] == TINY else "config", "cfg": cfgd,
                         "origin": "replay"}}
    app, start_dt = build_app(ctx, start.strftime("%Y-%m-%dT%H:%M:%S"), int(now) if now > 0 else 60, 2,
                              len(inp["targets"]), [cfgd], inp["targets"])
    if now > 0:
        app.stepForward()
    run_ = Runner(ctx, app, start_dt, meta)
    sa = next(iter(app.sensor_agents.values()))
    tg = list(app.target_agents.values())
    for a, t in zip(tg, inp["targets"]):
        a.eci_state = np.array(t["eci"], float)
    rec = run_.attempt(sa, tg[0], np.array(inp["estimate_eci"], float), tg[1:len(inp["targets"])], "replay",
                       (np.array(inp["prior_boresight"], float), type(sa.sensors.time_last_tasked)(inp["prior_time_last_tasked"])))
    ctx.case(("replay", json.dumps(rec["p"] if rec else None, sort_keys=True)))
    if run_.records:
        validate(ctx, run_.records, run_.inputs)
