"""C11 - ground facilities stay fixed at their configured geodetic location.

1. TLC checks GroundSite.tla (Earth-fixed coordinates never change, the epoch of the site's
   inertial state is the clock: SiteEpochAgrees, StartInversionExact, SiteFixed, VelIsRotation)
   over every start second x step x site-longitude class x number of scenario steps before the
   site JOINS (0 = built with the scenario, > 0 = added mid-run) and prints the configurations;
   a second configuration enumerates step plans (a first step to hours / days of elapsed time
   followed by steps of 2-10 s, whole-day steps, mixtures).  Calendar.tla supplies the midnights
   (day / month / leap-day / year ends inside the Earth-orientation table) the runs are placed
   around, and is itself checked there (StartInversionExact).
   The site's configuration OBJECT is a participant of the specification: it may already have been
   converted at another epoch (ConvertIgnoresHistory).
2. The named deviations of the specification must each be refuted by TLC (non-vacuity): the as-coded
   start inversion (InvertStartBySecTruncation), the site captured at the join epoch but converted
   with the start epoch (CaptureAtJoinEpoch) and a conversion memo on the config object that ignores
   the epoch (CacheIgnoresEpoch) and step epochs built through the host's local time zone
   (LocalTimeEpoch) and a dynamics memo keyed without the location (MemoIgnoresSite) each break
   SiteFixed.  The site an agent id refers to may change over the life of the process
   (SiteFromCurrentConfig): for a third of the sites a scenario with the SAME start instant and the same
   sensor ids at other sites is built first, and in a third of the scenarios a sensor is removed
   (Scenario.removeSensor) and added again under the same id at another site mid-run.
3. impl -> spec: REAL scenarios with ground sensors configured in latitude / longitude /
   altitude (public configuration keys), start instants sweeping the second of the minute and
   crossing midnights, steps 2-900 s; in every scenario one or two of the sites are left out of
   the initial configuration and added after `join` real steps (1 step .. hours) through the
   public Scenario.addSensor(SensingAgentConfig object, engine_id).  Scenarios are built from
   validated config OBJECTS; for about half of the sites a "scenario A" starting 6 h 17 min 43 s
   earlier is built from the same objects first.  Every agent is also observed at the instant it
   is created / joins, before any propagation.  The HOST's time zone is part of the posed
   environment: a share of the scenarios runs in dedicated spawned worker processes with TZ set
   (POSIX strings: US, EU, southern-hemisphere daylight-saving rules, a fixed offset) before anything
   is imported, with start instants placed so that the run, read as local wall-clock time, crosses the
   zone's spring-forward / fall-back switch.  For elapsed times of days and whole-day
   steps, ground agents are built like ScenarioBuilder builds them and stepped directly through
   the step plans printed by TLC.  After every real step the driver projects each ground
   agent to integers: displacement (mm) between the configured Earth-fixed position
   lla2ecef(lat, lon, alt) and eci2ecef(agent.eci_state, start + k*step) with start + k*step
   from datetime arithmetic; Earth-fixed velocity and inertial-speed error (1e-9 km/s); the
   agent's own epoch fields, ecef_state and lla_state; the truth row written to the database.
   TLC validates every trace against TraceGroundSite.tla (displacement < 1000 mm, velocity
   error < 1e-6 km/s, epochs equal to the clock).
The frame transformation eci2ecef / lla2ecef is a trusted projection here (subject of C04).
"""
from __future__ import annotations

import json
import math
import multiprocessing as mp
import random
from concurrent.futures import ThreadPoolExecutor
from datetime import datetime, timedelta

from .. import tlc
from ..core import Ctx
from . import _calendar as cal

LEVEL = "model_checking"
EOP_FIRST, EOP_LAST = (2014, 1, 3), (2022, 9, 25)
OMEGA = 7.292115e-5            # rad/s, WGS-84 Earth rotation rate (independent of the code's constant)
R_EARTH = 6378.137             # km, only to scale angle errors to millimetres
LATS = (0.0, 30.57222, 70.36694, -33.93, -77.85, 51.4778, 1.0e-4, 80.0)
ALTS = (0.0, 0.036, 1.51, 3.0, -0.2, 0.063)

SIG_OF_INV = {"TrStartInversionExact": "ground-site-start-instant-not-recovered",
              "TrClockAgrees": "scenario-clock-not-start-plus-k-dt",
              "TrEpochAgrees": "ground-agent-epoch-differs-from-clock",
              "TrSiteEpochAgrees": "ground-site-evaluated-at-wrong-epoch",
              "TrSiteFixed": "ground-site-displaced",
              "TrOwnFieldsFixed": "ground-agent-reported-ecef-lla-displaced",
              "TrDbRowFixed": "ground-site-truth-row-displaced",
              "TrVelIsRotation": "ground-site-velocity-not-earth-rotation",
              "SiteEpochAgrees": "ground-site-evaluated-at-wrong-epoch",
              "SiteFixed": "ground-site-displaced", "VelIsRotation": "ground-site-velocity-not-earth-rotation"}


# host time zones as POSIX TZ strings (no tz database needed): (TZ, spring-forward rule, fall-back rule),
# a rule = (month, week of the month (5 = last), naive local hour at which the clock switches), Sundays
TZ_RULES = {"us": ("EST5EDT,M3.2.0,M11.1.0", (3, 2, 2), (11, 1, 2)),
            "eu": ("CET-1CEST,M3.5.0,M10.5.0/3", (3, 5, 2), (10, 5, 3)),
            "au": ("AEST-10AEDT,M10.1.0,M4.1.0/3", (10, 1, 2), (4, 1, 3))}
TZ_FIXED = "UTC+7"


def _switch_instant(year: int, rule) -> datetime:
    """Naive wall-clock instant of a daylight-saving switch: the week-th Sunday of the month, at hour."""
    month, week, hour = rule
    first = datetime(year, month, 1)
    sundays = [first + timedelta(days=d) for d in range(31)
               if (first + timedelta(days=d)).month == month and (first + timedelta(days=d)).weekday() == 6]
    return (sundays[-1] if week == 5 else sundays[week - 1]) + timedelta(hours=hour)


def _lon_deg(ticks: int, n: int = 86400) -> float:
    """Abstract longitude class of GroundSite.tla (ticks of a day) -> degrees in (-180, 180]."""
    deg = ticks * 360.0 / n
    return deg - 360.0 if deg > 180.0 else deg


# ======================================================================================
# worker side: one real scenario
# ======================================================================================
def _init_worker():
    from .. import scenario_util  # noqa: F401


def _init_tz_worker(tz: str):
    """A dedicated (spawned) worker process whose HOST time zone is `tz`: set before anything of the
    simulator is imported or built; the process serves only tasks of this zone and is discarded."""
    import os
    import time
    os.environ["TZ"] = tz
    time.tzset()
    from .. import scenario_util  # noqa: F401


def _site_record(ag, site, agent_id, start):
    """What the driver knows about one configured site + the agent built for it."""
    import numpy as np
    from resonaate.physics.transforms.methods import lla2ecef
    lat, lon, alt = site
    lla = np.array([math.radians(lat), math.radians(lon), alt])
    x_cfg = lla2ecef(lla)                       # the configured Earth-fixed position (projection)
    dyn_start = getattr(ag.dynamics, "datetime_start", None)
    return {"ag": ag, "lla": lla, "x": x_cfg, "rho": math.hypot(x_cfg[0], x_cfg[1]), "dyn_start": dyn_start,
            "rec": {"site": [lat, lon, alt], "agent_id": agent_id,
                    # (not observable if the dynamics object has no such attribute)
                    "invMs": cal.ms_between(dyn_start, start) if dyn_start else 0, "st": []}}


def _observe(a, start, auth, clock_ms):
    """Integer projection of one ground agent at the authoritative epoch `auth` of the current step."""
    import numpy as np
    from resonaate.physics.transforms.methods import eci2ecef
    ag = a["ag"]
    eci = np.asarray(ag.eci_state, dtype=float)
    ecef = eci2ecef(eci, auth)
    own = np.asarray(ag.ecef_state, dtype=float)
    lla = np.asarray(ag.lla_state, dtype=float)
    dlon = (lla[1] - a["lla"][1] + math.pi) % (2 * math.pi) - math.pi
    lla_err_km = max(abs(lla[0] - a["lla"][0]) * R_EARTH,
                     abs(dlon) * R_EARTH * math.cos(a["lla"][0]), abs(lla[2] - a["lla"][2]))
    site_epoch = (a["dyn_start"] + timedelta(seconds=float(ag.time))) if a["dyn_start"] else None
    return {"clockMs": clock_ms,
            "epochMs": cal.ms_between(ag.datetime_epoch, start),
            "jd": float(ag.julian_date_epoch),
            "siteEpochMs": cal.ms_between(site_epoch, start) if site_epoch else clock_ms,
            "dispMm": cal.cap(float(np.linalg.norm(ecef[:3] - a["x"][:3])) * 1e6),
            "velErr": cal.cap(float(np.linalg.norm(ecef[3:])) * 1e9),
            "speedErr": cal.cap(abs(float(np.linalg.norm(eci[3:])) - OMEGA * a["rho"]) * 1e9),
            "ownDispMm": cal.cap(float(np.linalg.norm(own[:3] - a["x"][:3])) * 1e6),
            "llaErrMm": cal.cap(lla_err_km * 1e6),
            "dbDispMm": -1}


PRIOR_SHIFT = timedelta(hours=6, minutes=17, seconds=43)     # start of "scenario A" before the real start


def _build_from_objects(cfg):
    """Real ScenarioConfig -> ScenarioBuilder -> Scenario like scenario_util.build, but WITHOUT copying
    the configuration: validated config objects placed in cfg are used as they are."""
    from .. import scenario_util as su
    from resonaate.scenario.config import ScenarioConfig
    from resonaate.scenario.scenario import Scenario
    from resonaate.scenario.scenario_builder import ScenarioBuilder
    su.sched.reset()
    su.reset_db()
    b = ScenarioBuilder(ScenarioConfig(**cfg))
    return Scenario(b.config, b.clock, b.target_agents, b.estimate_agents, b.sensor_agents, b.tasking_engines,
                    importer_db_path=None, logger=b.logger)


def _other_site(site):
    """Another site for the same agent id: 125 degrees further east, another latitude."""
    lat, lon, alt = site
    lon2 = lon + 125.0
    return (round(5.0 - lat / 2.0, 6), round(lon2 - 360.0 if lon2 > 180.0 else lon2, 6), alt)


def _run_sites(task):
    """One REAL scenario, built from validated SensingAgentConfig OBJECTS (one per site).

    Sites flagged `resited`: the same sensor id stood for a facility at ANOTHER site before - a
    scenario with the SAME start instant and the same ids at other sites is built first in this
    process.  Sites with readd = r > 0: after r real steps the sensor is removed
    (Scenario.removeSensor) and added again under the same id at another site (Scenario.addSensor).

    Sites flagged `reused` had their config object used before: "scenario A" with another start
    instant is built from the same objects first (ScenarioBuilder converts them at A's start).
    Sites with join > 0 are left out of the initial configuration and added after `join` real steps
    through the public Scenario.addSensor(SensingAgentConfig object, engine_id).  Every agent is
    observed at the instant it is created (st0) and after every step."""
    import copy
    import numpy as np
    from .. import scenario_util as su
    from resonaate.data.ephemeris import TruthEphemeris
    from resonaate.data.epoch import Epoch
    from resonaate.physics.transforms.methods import eci2ecef
    from resonaate.scenario.config.agent_config import SensingAgentConfig
    from sqlalchemy.orm import Query
    start = su.parse_iso(task["start"])
    dt, nsteps, sites = task["dt"], task["steps"], task["sites"]
    joins = task.get("joins") or [0] * len(sites)
    reused = task.get("reused") or [0] * len(sites)
    resited = task.get("resited") or [0] * len(sites)
    readd = task.get("readd") or [0] * len(sites)
    out = {"id": task["id"], "crash": None, "agents": []}
    try:
        cfg = su.base_config(start=start, step=dt, n_steps=nsteps, n_targets=1, n_sensors=len(sites),
                             truth_only=True, model="two_body")
        sensors = cfg["engines"][0]["sensors"]
        for sc, (lat, lon, alt) in zip(sensors, sites):
            if sc["platform"]["type"] != "ground_facility":
                raise RuntimeError("test configuration sensor is not a ground facility")
            sc["state"] = {"type": "lla", "latitude": lat, "longitude": lon, "altitude": alt}
        objs = [SensingAgentConfig(**sc) for sc in sensors]          # the validated config objects
        if any(reused):      # scenario A: other start instant, built (not run) from the same objects
            cfg_a = su.base_config(start=start - PRIOR_SHIFT, step=dt, n_steps=1, n_targets=1, n_sensors=1,
                                   truth_only=True, model="two_body")
            cfg_a["engines"][0]["sensors"] = [o for o, r in zip(objs, reused) if r]
            _build_from_objects(cfg_a)
        if any(resited):     # same start instant, same ids, other sites: built (not run) earlier in this process
            cfg_b = su.base_config(start=start, step=dt, n_steps=1, n_targets=1, n_sensors=1, truth_only=True, model="two_body")
            others = []
            for sc, site, rs in zip(sensors, sites, resited):
                if rs:
                    sc2 = copy.deepcopy(sc)
                    lat2, lon2, alt2 = _other_site(site)
                    sc2["state"] = {"type": "lla", "latitude": lat2, "longitude": lon2, "altitude": alt2}
                    others.append(SensingAgentConfig(**sc2))
            cfg_b["engines"][0]["sensors"] = others
            _build_from_objects(cfg_b)
        late = [(o, sc["id"], site, j, r) for o, sc, site, j, r in zip(objs, sensors, sites, joins, reused) if j > 0]
        first = [(o, sc["id"], site, r) for o, sc, site, j, r in zip(objs, sensors, sites, joins, reused) if j == 0]
        if not first:
            raise RuntimeError("driver: a scenario needs a sensor from the start")
        cfg["engines"][0]["sensors"] = [o for o, _, _, _ in first]
        engine_id = cfg["engines"][0]["unique_id"]
        app = _build_from_objects(cfg)
        agents = []

        rs_of = {sc["id"]: int(bool(rs)) for sc, rs in zip(sensors, resited)}
        all_recs = []

        def enrol(agent_id, site, j, r, rs=None):
            a = _site_record(app.sensor_agents[agent_id], site, agent_id, start)
            a["join"] = a["rec"]["join"] = j
            a["rec"]["reused"] = int(bool(r))
            a["rec"]["resited"] = rs_of[agent_id] if rs is None else rs
            all_recs.append(a)
            a["rec"]["st0"] = _observe(a, start, start + timedelta(seconds=j * dt),
                                       cal.ms_between(app.clock.datetime_epoch, start))
            agents.append(a)

        for _o, agent_id, site, r in first:
            enrol(agent_id, site, 0, r)
        k = [0]
        real_step = app.stepForward

        def traced_step():
            real_step()
            k[0] += 1
            if k[0] > nsteps + 2:
                raise RuntimeError("run-away: more steps than requested")
            auth = start + timedelta(seconds=k[0] * dt)          # authoritative epoch of this step
            clock_ms = cal.ms_between(app.clock.datetime_epoch, start)
            for a in agents:
                a["rec"]["st"].append(_observe(a, start, auth, clock_ms))

        app.stepForward = traced_step                  # wrapper on the instance, no source hook
        done = 0
        moves = [(sc, site, r) for sc, site, r, j in zip(sensors, sites, readd, joins) if r > 0 and j == 0 and r < nsteps]
        for stop in sorted({j for _, _, _, j, _ in late if j < nsteps} | {r for _, _, r in moves}) + [nsteps]:
            if stop > done:
                su.run_for(app, (stop - done) * dt)    # public Scenario.propagateTo
                done = stop
            if k[0] != done:
                break                                  # (unexpected step count: reported by the caller)
            for o, agent_id, site, j, r in late:
                if j == stop:
                    app.addSensor(o, engine_id)        # public call with the config OBJECT, clock at start + j*dt
                    enrol(agent_id, site, j, r)
            for sc, site, r in moves:
                if r == stop:                          # the same id moves: removed, then added again at another site
                    app.removeSensor(sc["id"], engine_id)
                    agents[:] = [a for a in agents if a["rec"]["agent_id"] != sc["id"]]
                    sc2 = copy.deepcopy(sc)
                    site2 = _other_site(site)
                    sc2["state"] = {"type": "lla", "latitude": site2[0], "longitude": site2[1], "altitude": site2[2]}
                    app.addSensor(SensingAgentConfig(**sc2), engine_id)
                    enrol(sc["id"], site2, r, 0, rs=1)
        db = app.database
        iso_of = {float(e.julian_date): e.timestampISO for e in db.getData(Query(Epoch))}
        for a in all_recs:
            rows = db.getData(Query(TruthEphemeris).filter(TruthEphemeris.agent_id == a["rec"]["agent_id"]))
            for r in rows:
                iso = iso_of.get(float(r.julian_date))
                if iso is None:
                    continue
                t = datetime.fromisoformat(iso)
                off = (t - start).total_seconds()
                j = round(off / dt) - a["join"]        # index of the step after the agent exists
                if j < 1 or j > len(a["rec"]["st"]) or abs(off - (j + a["join"]) * dt) > 1e-6:
                    continue                           # the row of the start / join epoch, or not on a step
                ecef = eci2ecef(np.asarray(r.eci, dtype=float), start + timedelta(seconds=(j + a["join"]) * dt))
                a["rec"]["st"][j - 1]["dbDispMm"] = cal.cap(float(np.linalg.norm(ecef[:3] - a["x"][:3])) * 1e6)
        out["agents"] = [a["rec"] for a in all_recs]
        out["steps_taken"] = k[0]
        if "tz" in task:     # what the environment of this process really is (evidence, not an oracle)
            import os
            import time
            out["tz_env"] = [os.environ.get("TZ"), list(time.tzname)]
            out["tz_switch_seen"] = any(datetime.fromtimestamp(start.timestamp() + j * dt) != start + timedelta(seconds=j * dt)
                                        for j in range(1, nsteps + 1))
            for a in out["agents"]:
                a["tz"] = task["tz"]
    except Exception as ex:  # noqa: BLE001
        import traceback
        out["crash"] = f"{type(ex).__name__}: {ex}"
        out["tb"] = traceback.format_exc()[-1500:]
    return out


def _run_plans(task):
    """Ground agents built the way ScenarioBuilder builds them (public configuration ->
    ScenarioClock.fromConfig, dynamicsFactory, SensingAgent.fromConfig) and stepped directly the way
    the propagation job does (dynamics.propagate(t, t + d, state); agent.time = t + d;
    agent.eci_state = result) through every step plan of the task: no Scenario, no database rows."""
    from .. import scenario_util as su
    from resonaate.agents.sensing_agent import SensingAgent
    from resonaate.dynamics import dynamicsFactory
    from resonaate.physics.time.stardate import ScenarioTime
    from resonaate.scenario.clock import ScenarioClock
    from resonaate.scenario.config import ScenarioConfig
    start = su.parse_iso(task["start"])
    out = {"id": task["id"], "crash": None, "agents": []}
    try:
        cfg = su.base_config(start=start, step=60, n_steps=1, n_targets=1, n_sensors=len(task["sites"]),
                             truth_only=True, model="two_body")
        sensors = cfg["engines"][0]["sensors"]
        for sc, (lat, lon, alt) in zip(sensors, task["sites"]):
            if sc["platform"]["type"] != "ground_facility":
                raise RuntimeError("test configuration sensor is not a ground facility")
            sc["state"] = {"type": "lla", "latitude": lat, "longitude": lon, "altitude": alt}
        config = ScenarioConfig(**cfg)
        su.sched.reset()
        su.reset_db()
        clock = ScenarioClock.fromConfig(config.time)
        sen_cfgs = {s.id: s for s in config.engines[0].sensors}
        for plan in task["plans"]:
            agents = []
            for sc, site in zip(sensors, task["sites"]):       # fresh agents for every plan
                sen_cfg = sen_cfgs[sc["id"]]
                dynamics = dynamicsFactory(sen_cfg, config.propagation, config.geopotential, config.perturbations, clock)
                ag = SensingAgent.fromConfig(sen_cfg=sen_cfg, clock=clock, dynamics=dynamics, prop_cfg=config.propagation)
                a = _site_record(ag, site, sc["id"], start)
                a["rec"]["plan"] = list(plan)
                a["rec"]["st0"] = _observe(a, start, start, 0)
                agents.append(a)
            elapsed = 0
            for d in plan:
                elapsed += d
                auth = start + timedelta(seconds=elapsed)           # authoritative epoch after this step
                for a in agents:                                     # as PropagateRegistration does
                    ag = a["ag"]
                    t1 = ag.time + ScenarioTime(d)
                    new = ag.dynamics.propagate(ag.time, t1, ag.eci_state, station_keeping=ag.station_keeping,
                                                scheduled_events=ag.propagate_event_queue)
                    ag.time = t1
                    ag.eci_state = new
                    a["rec"]["st"].append(_observe(a, start, auth, 1000 * elapsed))
            out["agents"] += [a["rec"] for a in agents]
    except Exception as ex:  # noqa: BLE001
        import traceback
        out["crash"] = f"{type(ex).__name__}: {ex}"
        out["tb"] = traceback.format_exc()[-1500:]
    return out


def _dispatch(task):
    return _run_plans(task) if "plans" in task else _run_sites(task)


# ======================================================================================
# driver side
# ======================================================================================
def _midnights(ticks, rng):
    out = {"day": set(), "month": set(), "leapday": set(), "year": set()}
    dn = {}
    for tk in ticks:
        y, m, d, sod = tk["to"]
        dn[(y, m, d)] = tk["dn"]
        if sod == 0 and tk["kind"] in out and EOP_FIRST <= (y, m, d) <= EOP_LAST:
            out[tk["kind"]].add(datetime(y, m, d))
    res = {k: sorted(v) for k, v in out.items()}
    for v in res.values():
        rng.shuffle(v)
    if not all(res.values()):
        raise tlc.MachineryError(f"Calendar.tla: no midnight of some kind inside the Earth-orientation table: "
                                 f"{ {k: len(v) for k, v in res.items()} }")
    return res, dn


def _tasks(ctx: Ctx, site_cfgs, mids, rng):
    """Cross the configurations TLC printed with real midnights and sites."""
    by = {}
    for c in site_cfgs:
        by.setdefault((c["startSec"], c["dt"], c["steps"]), []).append(c)
    keys = sorted(by)
    dts = sorted({k[1] for k in keys})
    per_sec = 3 if ctx.quick else len(dts)
    tasks = []
    kinds = ("day", "year", "month", "leapday")
    n_sites = 3 if ctx.quick else 4

    def sites_for(lons, sec, j):
        return [(LATS[(sec + j + q) % len(LATS)], round(_lon_deg(lon), 6), ALTS[(sec + q) % len(ALTS)])
                for q, lon in enumerate(lons[:n_sites])]

    for sec in sorted({k[0] for k in keys}):
        mine = [dts[(sec * per_sec + j) % len(dts)] for j in range(per_sec)] if ctx.quick else dts
        for j, dt in enumerate(mine):
            cands = [k for k in keys if k[0] == sec and k[1] == dt]
            if not cands:
                continue
            key = cands[0]
            classes = sorted(by[key], key=lambda c: (c["theta0"], c["lon"]))
            thetas = sorted({c["theta0"] for c in classes})
            # the spec's Earth-angle class selects where the run sits relative to a midnight
            for theta in ([thetas[(sec + j) % len(thetas)]] if ctx.quick else thetas):
                lons = [c["lon"] for c in classes if c["theta0"] == theta]
                rng.shuffle(lons)
                ti = thetas.index(theta)
                kind = kinds[(sec + j + ti) % 4]
                mid = mids[kind][(sec * 7 + j + ti) % len(mids[kind])]
                # late joiners: the last site(s) are added after `join` steps (join classes printed by TLC)
                jclasses = sorted({c["join"] for c in classes})
                sites = sites_for(lons, sec, j + ti)
                joins = [0] * len(sites)
                for q in range(len(sites) - 1, max(0, len(sites) - (2 if ctx.quick else 3)), -1):
                    joins[q] = jclasses[(sec + j + ti + q) % len(jclasses)]
                # config objects: fresh, or already converted by a scenario with another start (classes by TLC)
                hclasses = sorted({(c["reused"], c["resited"]) for c in classes})     # process histories
                hist = [hclasses[(sec + j + ti + q) % len(hclasses)] for q in range(len(sites))]
                reused, resited = [h[0] for h in hist], [h[1] for h in hist]
                readd = [0] * len(sites)
                if (sec + j + ti) % 3 == 0:          # the first site's id moves to another site after 1-2 steps
                    readd[0] = 1 + (sec + j) % 2
                nsteps = key[2] + max(joins)
                total = dt * nsteps
                if ti == 0:      # a start in the middle of the day before the boundary
                    t0 = mid - timedelta(days=1) + timedelta(hours=1 + (sec * 5 + j) % 21, minutes=(sec * 13 + j) % 60,
                                                              seconds=sec)
                else:            # the run crosses the midnight (after its first / in its last step) where it can
                    want = dt * (1 if ti == 1 else nsteps) - (sec * 3 + j) % max(1, dt // 2)
                    minutes = max(1, -(-(want + sec) // 60)) if want + sec > 60 else 1
                    while minutes > 1 and minutes * 60 - sec > total:
                        minutes -= 1
                    t0 = mid - timedelta(minutes=minutes) + timedelta(seconds=sec)
                tasks.append({"id": len(tasks), "start": cal.fmt(t0), "dt": dt, "steps": nsteps,
                              "sites": sites, "joins": joins, "reused": reused, "resited": resited, "readd": readd,
                              "boundary": kind,
                              "crosses": t0 < mid <= t0 + timedelta(seconds=total), "theta0": theta})
    # long runs (hours to a day, always crossing a midnight): elapsed times beyond the bound TLC explored
    all_lons = sorted({c["lon"] for c in site_cfgs})
    long_secs = (1, 13, 29, 30, 47, 59) if ctx.quick else sorted({k[0] for k in keys})
    for j, sec in enumerate(long_secs):
        kind = kinds[j % 4]
        mid = mids[kind][(j * 5 + 3) % len(mids[kind])]
        dt, steps = (900, 24) if ctx.quick else ((900, 600, 300)[j % 3], 96)
        t0 = mid - timedelta(seconds=dt * (steps // 3)) - timedelta(minutes=1) + timedelta(seconds=sec)
        lons = all_lons[j % len(all_lons):] + all_lons[:j % len(all_lons)]
        sites = sites_for(lons, sec, j)
        joins = [0] * len(sites)
        joins[-1] = 8 + j % 5 if ctx.quick else steps // 4 + j % 7     # joins 1.5 - 6 h into the run
        tasks.append({"id": len(tasks), "start": cal.fmt(t0), "dt": dt, "steps": steps, "sites": sites, "joins": joins,
                      "reused": [(j + q) % 2 for q in range(len(sites))], "boundary": kind, "crosses": True, "theta0": -1})
    return tasks


def _zone_tasks(ctx: Ctx, zone_cfgs, first_id):
    """Scenarios run under a host time zone other than UTC (classes printed by GroundSite.tla): a fixed
    offset, daylight-saving zones on an ordinary day, and runs whose UTC datetimes - read as local
    wall-clock times - cross the zone's spring-forward / fall-back switch after the spec's number of steps."""
    by = {}
    for c in zone_cfgs:
        z = tuple(c["zone"])
        if z[0] != "utc":
            by.setdefault((c["startSec"], c["dt"], z), []).append(c)
    classes = sorted({k[2] for k in by})
    dts = sorted({k[1] for k in by})
    tasks = []
    rules = sorted(TZ_RULES)
    for sec in sorted({k[0] for k in by}):
        picks = [(classes[sec % len(classes)], dts[(sec // len(classes)) % len(dts)])] if ctx.quick else \
                [(z, d) for z in classes for d in dts]
        for j, (z, dt) in enumerate(picks):
            cfgs = by.get((sec, dt, z))
            if not cfgs:
                continue
            steps = cfgs[0]["steps"]
            lons = sorted({c["lon"] for c in cfgs})
            lons = lons[(sec + j) % len(lons):] + lons[:(sec + j) % len(lons)]
            sites = [(LATS[(sec + j + q) % len(LATS)], round(_lon_deg(lon), 6), ALTS[(sec + q) % len(ALTS)])
                     for q, lon in enumerate(lons[:3 if ctx.quick else 4])]
            year = 2014 + (sec + j) % 8
            name = rules[(sec + j) % len(rules)]
            tz, spring, fall = TZ_RULES[name]
            kind, after, jump = z
            if kind == "fixed":
                tz = TZ_FIXED
                t0 = datetime(year, 1 + sec % 12, 1 + sec % 28, (sec * 5) % 24, (sec * 7) % 60, sec)
                crosses = False
            elif after >= steps:        # a daylight-saving zone, no switch during the run
                t0 = datetime(year, 6 if name != "au" else 12, 1 + sec % 28, (sec * 5) % 24, (sec * 7) % 60, sec)
                crosses = False
            else:                       # the switch falls within step after + 1 of the run
                switch = _switch_instant(year, spring if jump > 0 else fall)
                t0 = switch - timedelta(seconds=after * dt + 60) + timedelta(seconds=sec)
                crosses = True
            tasks.append({"id": first_id + len(tasks), "start": cal.fmt(t0), "dt": dt, "steps": steps, "sites": sites,
                          "tz": tz, "zone": list(z), "tz_crosses": crosses, "boundary": "zone", "crosses": False, "theta0": -2})
    return tasks


def _plan_tasks(ctx: Ctx, plan_cfgs, mids, first_id):
    """Cross the step plans TLC printed (per start second, longitude and Earth-angle class) with real
    start instants and sites: one task per start second."""
    by_sec: dict = {}
    for c in plan_cfgs:
        by_sec.setdefault(c["startSec"], {}).setdefault(tuple(c["plan"]), []).append(c)
    kinds = ("month", "day", "leapday", "year")
    tasks = []
    for sec in sorted(by_sec):
        plans = sorted(by_sec[sec])
        late = [p for p in plans if len(p) == 4 and p[0] >= 10800 and max(p[1:]) <= 10]
        other = [p for p in plans if p not in late]
        if ctx.quick:       # a rotating third of the plans per start second (every plan ~ 20 start seconds)
            pick = [late[(sec * 4 + j * 5) % len(late)] for j in range(4)] + \
                   [other[(sec * 3 + j * 2) % len(other)] for j in range(3)]
            pick = sorted(set(pick))
        else:
            pick = plans
        classes = by_sec[sec][pick[0]]
        thetas = sorted({c["theta0"] for c in classes})
        ti = sec % len(thetas)
        lons = sorted({c["lon"] for c in classes if c["theta0"] == thetas[ti]})
        lons = lons[sec % len(lons):] + lons[:sec % len(lons)]
        sites = [(LATS[(sec + q * 3) % len(LATS)], round(_lon_deg(lon), 6), ALTS[(sec + q) % len(ALTS)])
                 for q, lon in enumerate(lons[:2])]
        mid = mids[kinds[sec % 4]][(sec * 11) % len(mids[kinds[sec % 4]])]
        if ti == 0:          # mid-day start
            t0 = mid - timedelta(days=2) + timedelta(hours=2 + sec % 19, minutes=(sec * 7) % 60, seconds=sec)
        elif ti == 1:        # the first step crosses a midnight
            t0 = mid - timedelta(minutes=1) + timedelta(seconds=sec)
        else:                # small late steps run up to / across a midnight 2.5 days later (216000 s)
            t0 = mid - timedelta(seconds=216000) - timedelta(minutes=1) + timedelta(seconds=sec)
        tasks.append({"id": first_id + len(tasks), "start": cal.fmt(t0), "sites": sites, "plans": [list(p) for p in pick],
                      "theta0": thetas[ti]})
    return tasks


def _project(task, rec, idx):
    """Raw agent record -> integer trace for TraceGroundSite.tla."""
    start = datetime.fromisoformat(task["start"])
    plan = rec.get("plan") or [task["dt"]] * len(rec["st"])
    join = rec.get("join", 0)
    st, elapsed = [], join * task.get("dt", 0)
    for d, s in zip(plan, rec["st"]):
        elapsed += d
        s = dict(s)
        s["jdOk"] = idx.jd_ok(s.pop("jd"), start + timedelta(seconds=elapsed))
        st.append(s)
    st0 = dict(rec["st0"])
    st0["jdOk"] = idx.jd_ok(st0.pop("jd"), start + timedelta(seconds=join * task.get("dt", 0)))
    return {"startSec": start.second, "dt": task.get("dt", 1), "plan": plan[:len(st)], "db": 0 if "plan" in rec else (2 if join else 1),
            "join": join, "reused": rec.get("reused", 0), "resited": rec.get("resited", 0), "tz": rec.get("tz", "UTC"), "invMs": rec["invMs"], "st0": st0, "st": st}


def _validate(ctx: Ctx, items, idx):
    """items: [(task, agent record)];  TLC decides every trace against TraceGroundSite.tla."""
    traces = [_project(t, r, idx) for t, r in items]
    # binding self-test: two corrupted copies of one real trace (a step record removed = a missing
    # wrapper; a logged displacement changed) ride along and must be rejected
    n_real = len(traces)
    src = next((j for j, t in enumerate(traces) if len(t["st"]) >= 2), None)
    if src is not None:
        import copy
        a, b = copy.deepcopy(traces[src]), copy.deepcopy(traces[src])
        a["st"].pop(0)
        b["st"][-1]["dispMm"] = 1500
        traces += [a, b]
    d = ctx.sub("trace_sites")
    (d / "traces.json").write_text(json.dumps(traces))
    res = tlc.run_tlc("TraceGroundSite", "TraceGroundSite.cfg", d, workers=min(4, ctx.cpus),
                      env={"TRACE_FILE": "traces.json"}, timeout=2400)
    cal.spec_fail(res, "TraceGroundSite")          # GroundSite's own invariants hold on every replayed state
    ctx.add_tlc(res, f"trace validation of {n_real} real ground-agent traces against GroundSite.tla")
    reached_end = {t[0] for t in res.tuples("ACCEPTED")}
    rejected: dict = {}
    for tid, _k, clause in res.tuples("REJECT"):
        rejected.setdefault(tid, set()).add(clause)
    if src is not None:
        if (src + 1) not in rejected:
            bad = [j for j in (n_real + 1, n_real + 2) if j not in rejected]
            if bad:
                raise tlc.MachineryError(f"TraceGroundSite accepted a corrupted trace (binding self-test): {bad}")
            ctx.extra["binding_mutants_rejected"] = {"step-record-removed": sorted(rejected[n_real + 1]),
                                                     "displacement-field-corrupted": sorted(rejected[n_real + 2])}
        rejected.pop(n_real + 1, None), rejected.pop(n_real + 2, None)
        reached_end -= {n_real + 1, n_real + 2}
        traces = traces[:n_real]
    accepted = reached_end - set(rejected)
    if reached_end != set(range(1, len(traces) + 1)):
        raise tlc.MachineryError(f"TraceGroundSite: {len(traces) - len(reached_end)} traces were not replayed to their end\n"
                                 + res.stdout[-1500:])
    for tid, invs in sorted(rejected.items()):
        task, rec = items[tid - 1]
        tr = traces[tid - 1]
        worst = max([s["dispMm"] for s in tr["st"]] + [tr["st0"]["dispMm"]])
        how = f"stepped directly with plan {rec['plan']} s" if "plan" in rec else f"scenario step {task['dt']} s"
        if rec.get("join", 0):
            how += f", added through Scenario.addSensor after {rec['join']} steps ({rec['join'] * task['dt']} s)"
        if rec.get("reused", 0):
            how += ", config object already used for a scenario starting 6 h 17 min 43 s earlier"
        if rec.get("tz"):
            how += f", host time zone TZ={rec['tz']}"
        if rec.get("resited", 0):
            how += ", same sensor id used before for a facility at another site (same start instant / removed and re-added)"
        mode = "agent" if "plan" in rec else "scenario"
        for inv in sorted(invs):
            ctx.violation(SIG_OF_INV.get(inv, inv),
                          f"ground agent {rec['agent_id']} at lat/lon/alt {rec['site']}, start {task['start']}, {how}: "
                          f"{inv} violated (start inversion error {tr['invMs']} ms, largest displacement "
                          f"{worst / 1000:.1f} m over {len(tr['st'])} steps)",
                          {"mode": mode, "start": task["start"], "dt": task.get("dt"), "steps": task.get("steps"),
                           "plan": rec.get("plan"), "sites": [rec["site"]], "join": rec.get("join", 0),
                           "reused": rec.get("reused", 0), "resited": rec.get("resited", 0), "tz": rec.get("tz"), "trace": tr})
    ctx.traces_validated += len(traces)
    return accepted, rejected, traces


def _mutant_invert(workdir):
    base = (tlc.SPEC_DIR / "GroundSite_quick.cfg").read_text().replace("INVARIANT Emit\n", "").replace("INVARIANT SiteFromCurrentConfig\n", "")
    cfg = base.replace("InvertStartBySecTruncation = FALSE", "InvertStartBySecTruncation = TRUE")
    for name in ("StartInversionExact", "SiteEpochAgrees"):      # (they fail first; the point is SiteFixed)
        cfg = cfg.replace(f"INVARIANT {name}\n", "")
    res = tlc.run_tlc("GroundSite", cfg, workdir, workers=1, timeout=600)
    tlc.require_ok(res, "GroundSite (as-coded start inversion)")
    killed = {v[0] for v in res.invariant_violations}
    if "SiteFixed" not in killed and "VelIsRotation" not in killed:
        raise tlc.MachineryError("GroundSite.tla: the as-coded start inversion does not violate SiteFixed (vacuous spec)")
    return {"GroundSite.InvertStartBySecTruncation": sorted(killed)}


def _mutant_join(workdir):
    base = (tlc.SPEC_DIR / "GroundSite_quick.cfg").read_text().replace("INVARIANT Emit\n", "").replace("INVARIANT SiteFromCurrentConfig\n", "")
    res = tlc.run_tlc("GroundSite", base.replace("CaptureAtJoinEpoch = FALSE", "CaptureAtJoinEpoch = TRUE"), workdir,
                      workers=1, timeout=600)
    tlc.require_ok(res, "GroundSite (site captured at the join epoch)")
    killed_join = sorted({v[0] for v in res.invariant_violations})
    if "SiteFixed" not in killed_join:
        raise tlc.MachineryError("GroundSite.tla: capturing the site at the join epoch does not violate SiteFixed (vacuous spec)")
    return {"GroundSite.CaptureAtJoinEpoch": killed_join}


def _mutant_cache(workdir):
    base = (tlc.SPEC_DIR / "GroundSite_quick.cfg").read_text().replace("INVARIANT Emit\n", "").replace("INVARIANT SiteFromCurrentConfig\n", "")
    res = tlc.run_tlc("GroundSite", base.replace("CacheIgnoresEpoch = FALSE", "CacheIgnoresEpoch = TRUE")
                      .replace("INVARIANT ConvertIgnoresHistory\n", ""), workdir, workers=1, timeout=600)
    tlc.require_ok(res, "GroundSite (conversion memoised on the config object)")
    killed_cache = sorted({v[0] for v in res.invariant_violations})
    if "SiteFixed" not in killed_cache:
        raise tlc.MachineryError("GroundSite.tla: a conversion cache that ignores the epoch does not violate SiteFixed (vacuous spec)")
    return {"GroundSite.CacheIgnoresEpoch": killed_cache}


def _mutant_memo(workdir):
    base = (tlc.SPEC_DIR / "GroundSite_quick.cfg").read_text().replace("INVARIANT Emit\n", "").replace("INVARIANT SiteFromCurrentConfig\n", "")
    res = tlc.run_tlc("GroundSite", base.replace("MemoIgnoresSite = FALSE", "MemoIgnoresSite = TRUE")
                      .replace("INVARIANT SiteFromCurrentConfig\n", ""), workdir, workers=1, timeout=600)
    tlc.require_ok(res, "GroundSite (dynamics memo keyed without the location)")
    killed = sorted({v[0] for v in res.invariant_violations})
    if "SiteFixed" not in killed:
        raise tlc.MachineryError("GroundSite.tla: a dynamics memo that ignores the site does not violate SiteFixed (vacuous spec)")
    return {"GroundSite.MemoIgnoresSite": killed}


def _mutant_zone(workdir):
    zcfg = (tlc.SPEC_DIR / "GroundSite_zones_quick.cfg").read_text().replace("INVARIANT Emit\n", "").replace("INVARIANT SiteFromCurrentConfig\n", "")
    res = tlc.run_tlc("GroundSite", zcfg.replace("LocalTimeEpoch = FALSE", "LocalTimeEpoch = TRUE")
                      .replace("INVARIANT SiteEpochAgrees\n", ""), workdir, workers=1, timeout=600)
    tlc.require_ok(res, "GroundSite (epochs built through the host's local time)")
    killed_zone = sorted({v[0] for v in res.invariant_violations})
    if "SiteFixed" not in killed_zone:
        raise tlc.MachineryError("GroundSite.tla: epochs through the host's local time do not violate SiteFixed (vacuous spec)")
    return {"GroundSite.LocalTimeEpoch": killed_zone}


def run(ctx: Ctx):
    import time
    from .. import scenario_util  # noqa: F401
    import resonaate.scenario.scenario  # noqa: F401
    import resonaate.physics.transforms.methods  # noqa: F401
    rng = random.Random(ctx.seed * 104729 + 11)
    t0 = time.time()
    phase = {}
    ctx.rule = ("every start second 0..59 x steps from GroundSite.tla (quick: 3 of 8 steps per start second, rotating; "
                "thorough: all) x 3-4 ground sites per scenario (longitude classes printed by TLC incl. the +-180 and 0 "
                "seams, latitudes -78..80 deg, altitudes -0.2..3 km); start instants placed by the spec's Earth-angle "
                "class: mid-day, crossing a midnight after the first step, crossing it in the last step, around "
                "day/month/leap-day/year ends printed by Calendar.tla; a case = one (start, step, site); all cases are "
                "non-trivial (>= 4 real steps each); plus long runs (quick 6 x 6 h, thorough 60 x 8-24 h) across a midnight; "
                "plus ground agents built as ScenarioBuilder does and stepped directly through the step plans printed by "
                "GroundSite.tla (first step to 3 h / 2.5 d / 12 d elapsed then steps of 2-10 s, whole-day steps, mixtures), "
                "every start second, quick: 6-7 of 19 plans per start second rotating, thorough: all 87; in every scenario "
                "the last site (thorough: the last two) joins after 0..3 (thorough 0..4) steps (join classes printed by "
                "TLC; long runs: after 1.5-6 h) through Scenario.addSensor(config object); about half of the sites use a "
                "config object already converted by a scenario with another start instant (reuse classes printed by TLC); "
                "every agent is also observed at its creation / join instant; plus one scenario per start second "
                "(thorough: 8) under a non-UTC host time zone (fixed offset; US / EU / southern daylight-saving rules on "
                "ordinary days and across the spring-forward and fall-back switches, zone classes printed by TLC)")
    ctx.assumptions = [
        "eci2ecef / lla2ecef of the implementation are used as the projection to Earth-fixed coordinates (subject of C04)",
        "authoritative epoch of step k is start + k*step by datetime arithmetic",
        "tolerances are those of the statement: displacement < 1 m; Earth-fixed velocity < 1e-6 km/s; "
        "|inertial speed - 7.292115e-5 rad/s x axis distance| < 5e-6 km/s (polar motion and length of day neglected)",
        "lla_state errors are scaled to millimetres with R = 6378.137 km",
        "start instants inside the shipped Earth-orientation table (2014-01-03 .. 2022-09-25)",
    ]
    nproc = max(2, min(10, ctx.cpus - 2))
    pool = mp.get_context("fork").Pool(nproc, initializer=_init_worker)      # forked before any thread exists
    # one dedicated, freshly SPAWNED process per non-UTC host time zone: TZ is set there before anything is
    # imported, the process serves only that zone's tasks and is discarded (no leak into other tasks)
    tzs = [TZ_FIXED] + [TZ_RULES[n][0] for n in sorted(TZ_RULES)]
    tz_pools = {tz: mp.get_context("spawn").Pool(1 if ctx.quick else 2, initializer=_init_tz_worker, initargs=(tz,))
                for tz in tzs}
    try:
        with ThreadPoolExecutor(10) as ex:
            f_zone = ex.submit(tlc.run_tlc, "GroundSite",
                               "GroundSite_zones_quick.cfg" if ctx.quick else "GroundSite_zones_thorough.cfg",
                               ctx.sub("zones"), workers=2, timeout=1500)
            f_site = ex.submit(tlc.run_tlc, "GroundSite", "GroundSite_quick.cfg" if ctx.quick else "GroundSite_thorough.cfg",
                               ctx.sub("site"), workers=max(2, ctx.cpus // 4), timeout=1500)
            f_plan = ex.submit(tlc.run_tlc, "GroundSite",
                               "GroundSite_plans_quick.cfg" if ctx.quick else "GroundSite_plans_thorough.cfg",
                               ctx.sub("plans"), workers=max(2, ctx.cpus // 4), timeout=1500)
            f_cal = ex.submit(cal.run_seconds, "Calendar_c11.cfg", ctx.sub("cal"), max(2, ctx.cpus // 4))
            # non-vacuity of GroundSite.tla: each named deviation must be refuted by TLC
            f_muts = [ex.submit(_mutant_invert, ctx.sub("mutant_invert")), ex.submit(_mutant_join, ctx.sub("mutant_join")),
                      ex.submit(_mutant_cache, ctx.sub("mutant_cache")), ex.submit(_mutant_zone, ctx.sub("mutant_zone")),
                      ex.submit(_mutant_memo, ctx.sub("mutant_memo"))]
            site_res = cal.spec_fail(f_site.result(), "GroundSite.tla")
            cal_res, ticks = f_cal.result()
            phase["tlc_specs"] = round(time.time() - t0, 1)
            ctx.add_tlc(site_res, "GroundSite.tla (SiteEpochAgrees, StartInversionExact, SiteFixed, VelIsRotation)")
            ctx.add_tlc(cal_res, "Calendar.tla midnights inside the Earth-orientation table (StartInversionExact, RoundTrip)")
            site_cfgs = site_res.tagged("SITE")
            if not site_cfgs:
                raise tlc.MachineryError("GroundSite.tla emitted no configuration")
            mids, dn = _midnights(ticks, rng)
            idx = cal.DayIndex(list(dn.items()))
            tasks = _tasks(ctx, site_cfgs, mids, rng)
            sc_async = pool.map_async(_dispatch, tasks, chunksize=2)
            zone_res = cal.spec_fail(f_zone.result(), "GroundSite.tla (host time zones)")
            ctx.add_tlc(zone_res, "GroundSite.tla over host time-zone classes (UTC, fixed offset, daylight-saving switches)")
            ztasks = _zone_tasks(ctx, zone_res.tagged("SITE"), 100000)
            if not ztasks:
                raise tlc.MachineryError("GroundSite.tla emitted no host time-zone configuration")
            z_async = {tz: tz_pools[tz].map_async(_dispatch, [t for t in ztasks if t["tz"] == tz], chunksize=1) for tz in tzs}
            plan_res = cal.spec_fail(f_plan.result(), "GroundSite.tla (step plans)")
            ctx.add_tlc(plan_res, "GroundSite.tla with step plans (late small steps, whole-day steps, mixtures)")
            plan_cfgs = [c for c in plan_res.tagged("SITE") if c["plan"]]
            if not plan_cfgs:
                raise tlc.MachineryError("GroundSite.tla emitted no step plan")
            ptasks = _plan_tasks(ctx, plan_cfgs, mids, len(tasks))
            praw = pool.map(_dispatch, ptasks, chunksize=1)
            raw = sc_async.get(timeout=6000)
            phase["scenarios_and_plans_done"] = round(time.time() - t0, 1)
            zraw = {}
            for tz in tzs:
                for t, r in zip([t for t in ztasks if t["tz"] == tz], z_async[tz].get(timeout=6000)):
                    zraw[t["id"]] = r
            phase["zone_scenarios_done"] = round(time.time() - t0, 1)
            killed = {}
            for f in f_muts:
                killed.update(f.result())
    finally:
        pool.terminate()
        pool.join()
        for zp in tz_pools.values():
            zp.terminate()
            zp.join()
    # the zone tasks really ran in their zone, and the runs placed across a switch really crossed one
    for t in ztasks:
        r = zraw[t["id"]]
        if not r["crash"] and (r["tz_env"][0] != t["tz"] or r["tz_switch_seen"] != t["tz_crosses"]):
            raise tlc.MachineryError(f"host time zone not as posed for {t['start']} TZ={t['tz']}: process reports "
                                     f"{r['tz_env']}, switch seen={r['tz_switch_seen']}, posed={t['tz_crosses']}")
    tasks = tasks + ztasks
    raw = list(raw) + [zraw[t["id"]] for t in ztasks]
    items = []
    n_steps = short = 0
    for t, r in zip(tasks, raw):
        if r["crash"]:
            ctx.violation(f"ground-scenario-raised-{r['crash'].split(':')[0]}",
                          f"scenario start {t['start']} step {t['dt']} sites {t['sites']} raised {r['crash']}",
                          {"start": t["start"], "dt": t["dt"], "steps": t["steps"], "sites": t["sites"], "traceback": r.get("tb")})
            continue
        if r["steps_taken"] != t["steps"]:       # timed runs are C05's subject; here the steps taken are checked
            short += 1
            if r["steps_taken"] == 0:
                continue
        for rec in r["agents"]:
            items.append((t, rec))
            n_steps += len(rec["st"])
            ctx.case((t["start"], t["dt"], tuple(rec["site"]), rec.get("join", 0), rec.get("reused", 0), t.get("tz", "UTC")),
                     sample={"start": t["start"], "dt": t["dt"], "site": rec["site"], "join": rec.get("join", 0),
                             "boundary": t["boundary"],
                             "crosses_midnight": t["crosses"], "last_step": rec["st"][-1]} if len(items) % 131 == 1 else None)
    n_plan_traces = 0
    for t, r in zip(ptasks, praw):
        if r["crash"]:
            ctx.violation(f"ground-agent-raised-{r['crash'].split(':')[0]}",
                          f"ground agents start {t['start']} sites {t['sites']} stepped directly raised {r['crash']}",
                          {"mode": "agent", "start": t["start"], "plans": t["plans"], "sites": t["sites"], "traceback": r.get("tb")})
            continue
        for rec in r["agents"]:
            items.append((t, rec))
            n_plan_traces += 1
            n_steps += len(rec["st"])
            ctx.case((t["start"], tuple(rec["plan"]), tuple(rec["site"])),
                     sample={"start": t["start"], "plan": rec["plan"], "site": rec["site"], "last_step": rec["st"][-1]}
                     if n_plan_traces % 397 == 1 else None)
    if not items:
        raise tlc.MachineryError("no ground-agent trace was produced")
    accepted, rejected, _ = _validate(ctx, items, idx)
    phase["trace_validation"] = round(time.time() - t0, 1)
    ctx.extra.update(scenarios=len(tasks), ground_agent_traces=len(items), directly_stepped_agent_traces=n_plan_traces,
                     step_plans=len({tuple(p) for t in ptasks for p in t['plans']}), agent_steps_checked=n_steps,
                     traces_rejected=len(rejected), scenarios_with_unexpected_step_count=short, scenarios_crossing_midnight=sum(1 for t in tasks if t["crosses"]),
                     start_seconds_covered=len({t["start"][-2:] for t in tasks}),
                     spec_mutants_killed=killed, phase_done_at_s=phase,
                     late_joining_agent_traces=sum(1 for _t, rec in items if rec.get("join", 0) > 0),
                     agent_traces_from_reused_config_objects=sum(1 for _t, rec in items if rec.get("reused", 0)),
                     agent_traces_with_resited_id=sum(1 for _t, rec in items if rec.get("resited", 0)),
                     scenarios_under_non_utc_host_zone=len(ztasks),
                     scenarios_crossing_a_daylight_saving_switch=sum(1 for t in ztasks if t["tz_crosses"]),
                     host_time_zones=["UTC"] + tzs)


def replay(ctx: Ctx, rp: dict):
    """Re-run one stored failing (start, step, site) against the current tree."""
    from .. import scenario_util  # noqa: F401
    rep = rp["replay"]
    if "sites" not in rep:
        return run(ctx)
    cal_res, ticks = cal.run_seconds("Calendar_c11.cfg", ctx.sub("cal"), max(2, ctx.cpus // 4))
    ctx.add_tlc(cal_res, "Calendar.tla midnights")
    idx = cal.DayIndex([((tk["to"][0], tk["to"][1], tk["to"][2]), tk["dn"]) for tk in ticks])
    if rep.get("mode") == "agent":
        t = {"id": 0, "start": rep["start"], "sites": [tuple(s) for s in rep["sites"]],
             "plans": [rep["plan"]] if rep.get("plan") else rep["plans"]}
        r = _run_plans(t)
    else:
        t = {"id": 0, "start": rep["start"], "dt": rep["dt"], "steps": rep["steps"], "sites": [tuple(s) for s in rep["sites"]]}
        if rep.get("join", 0):       # a late joiner needs a scenario with some sensor from the start
            t["sites"] = [(LATS[1], 10.0, ALTS[1])] + t["sites"]
            t["joins"] = [0] + [rep["join"]] * (len(t["sites"]) - 1)
        t["reused"] = [rep.get("reused", 0)] * len(t["sites"])
        t["resited"] = [rep.get("resited", 0) if not rep.get("join", 0) else 0] * len(t["sites"])
        if rep.get("tz") and rep["tz"] != "UTC":
            t["tz"] = rep["tz"]
            with mp.get_context("spawn").Pool(1, initializer=_init_tz_worker, initargs=(rep["tz"],)) as zp:
                r = zp.apply(_run_sites, (t,))
            r_done = True
        else:
            r_done = False
        if not r_done:
            r = _run_sites(t)
    if r["crash"]:
        ctx.violation(f"ground-scenario-raised-{r['crash'].split(':')[0]}", r["crash"], rep)
        return None
    items = [(t, rec) for rec in r["agents"]]
    for _t, rec in items:
        ctx.case((t["start"], t.get("dt"), tuple(rec.get("plan", ())), tuple(rec["site"])))
    ctx.case(("replay", t["start"]))
    _validate(ctx, items, idx)
    return None
