"""C08 - tasking bookkeeping is exact and independent of the order parallel jobs finish.

1. TLC checks Resonaate.tla exhaustively (every completion order of every batch, every
   environment outcome) on small networks for the as-designed constants, and shows that each
   named deviation constant (as coded before the repairs) yields a counterexample
   (spec mutants killed = non-vacuity of the invariants).
2. impl -> spec: REAL scenarios (real engine, executors, registrations, collectObservations,
   scenario loop, SQLite output) run under the deterministic scheduler with every permutation
   of each job batch (<= 4 jobs; sampled beyond) and TLC-chosen/seeded environment outcomes;
   each recorded execution is validated by TLC against TraceResonaate.tla (all invariants in
   every state), and the numeric results of every step must equal those of the FIFO schedule
   of the same scenario (EndStep.same).
3. Runs with fully real geometry (no stubs) and random schedules are validated the same way.
"""
from __future__ import annotations

import itertools
import json
import os
import random
from concurrent.futures import ProcessPoolExecutor, ThreadPoolExecutor

from .. import tlc
from ..core import Ctx

LEVEL = "model_checking"
POL_SHORT = {"MunkresDecision": "munkres", "MyopicNaiveGreedyDecision": "greedy", "RandomDecision": "random",
             "AllVisibleDecision": "allvisible"}
POLICIES = ["MunkresDecision", "MyopicNaiveGreedyDecision", "RandomDecision", "AllVisibleDecision"]
TAGS = ["asyncPropagate", "asyncPredict", "asyncCalculateReward", "asyncExecuteTasking", "asyncUpdateEstimate"]


# ------------------------------------------------------------------------------------------
# worker side (separate processes: each imports resonaate once)
def _run_family(job):
    """One scenario (policy, shape, env seed) under several schedules. Returns list of trace dicts."""
    import random as _r
    from harness import scenario_util as su
    from harness import sysrun, tracer
    cfg = su.base_config(start=job["start"], step=job["step"], n_steps=job["span"], n_targets=job["nt"],
                         n_sensors=job["ns"], decision=job["policy"], out_step=job["step"] * job["out_every"],
                         seed=job["seed"] + 1)
    if job.get("two_engines"):
        import copy as _copy
        eng = cfg["engines"][0]
        e2 = _copy.deepcopy(eng)
        e2["unique_id"] = eng["unique_id"] + 1
        cut_t, cut_s = max(1, job["nt"] // 2), max(1, job["ns"] // 2)
        e2["targets"], e2["sensors"] = eng["targets"][cut_t:], eng["sensors"][cut_s:]
        eng["targets"], eng["sensors"] = eng["targets"][:cut_t], eng["sensors"][:cut_s]
        cfg["engines"] = [eng, e2]
    out = []
    ref = None
    g = None
    for sd in job["schedules"]:
        env = None
        if job["table_env"]:
            env = tracer.TableEnv(_r.Random(job["seed"]), serendipity=job["serendipity"],
                                  p_vis=job.get("p_vis", 0.7), p_slew=job.get("p_slew", 0.8), p_hit=job.get("p_hit", 0.5),
                                  preset={tuple(k): v for k, v in job.get("preset", [])})
        if sd["mode"] == "tlc":
            # a TLC-generated behaviour: completion orders and environment outcomes in spec ids
            tids = sorted(t["id"] for t in cfg["engines"][0]["targets"])
            sids = sorted(s["id"] for s in cfg["engines"][0]["sensors"])
            tm = {f"t{i + 1}": x for i, x in enumerate(tids)}
            sm = {f"s{i + 1}": x for i, x in enumerate(sids)}
            am = {**tm, **sm}
            orders = {(k, tag): [am[x] for x in ids] for k, tag, ids in sd["orders"]}
            preset = {(kind, k, tm[t], sm[s]): v for kind, k, t, s, v in sd["env"] if t in tm and s in sm}
            env = tracer.TableEnv(_r.Random(job["seed"]), serendipity=False, preset=preset)
            sch = sysrun.IdSchedule(orders, lambda: tracer.rec().k if tracer.rec() else 0)
        elif sd["mode"] == "perm":
            sch = sysrun.Schedule("perm", perms={sd["tag"]: sd["perm"]})
        elif sd["mode"] == "perms":
            sch = sysrun.Schedule("perm", perms=sd["perms"])
        else:
            sch = sysrun.Schedule(sd["mode"], rng=_r.Random(sd.get("seed", 0)))
        import numpy as np
        np.random.seed(job["seed"] % (2 ** 31))
        events, digests, app = sysrun.run_traced(cfg, job["nsteps"], sch, env, ref_digests=ref)
        if ref is None:
            ref = digests
            g = sysrun.group_constants(app, cfg, job["span"], job["out_every"])
            g["serendipity"] = True
        multi = _multi_tasked_steps(events)
        out.append({"events": events, "schedule": sd, "multi_tasked_steps": multi})
    return {"job": job, "group": g, "traces": out}


def _multi_tasked_steps(events):
    """Steps in which some sensor is tasked to >= 2 targets (only possible with all-visible)."""
    steps, k = [], 0
    for e in events:
        if e["ev"] == "BeginStep":
            k = e["k"]
        elif e["ev"] == "Decide":
            cnt = {}
            for t, s in e["decision"]:
                cnt[s] = cnt.get(s, 0) + 1
            if any(v >= 2 for v in cnt.values()):
                steps.append(k)
    return steps


# ------------------------------------------------------------------------------------------
def spec_level(ctx: Ctx):
    """Exhaustive model checking of the as-designed model + spec mutants."""
    designed = ["greedy22", "munkres22", "random22", "allvisible22", "greedy22_2eng", "greedy22_ser", "truthonly", "faults"]
    if not ctx.quick:
        designed += ["munkres23", "greedy32", "random23", "munkres33", "greedy33", "random33", "munkres22_3steps"]
    mutants = {"coded_reset": "PointingReflectsTasking", "coded_squared": "OneRecordPerTasking",
               "coded_keep": "LastStepMissesOnly", "coded_lastmerge": "PointingReflectsTasking"}

    def one(name):
        return name, tlc.run_tlc("MCResonaate", f"MCResonaate_{name}.cfg", ctx.sub("mc_" + name),
                                 workers=max(2, ctx.cpus // 3), timeout=3000, coverage=(name == "greedy22"))

    with ThreadPoolExecutor(3) as ex:
        results = list(ex.map(one, designed + list(mutants)))
    killed = 0
    for name, res in results:
        tlc.require_ok(res, name)
        ctx.add_tlc(res, f"Resonaate.tla exhaustive, config {name}")
        viol = [v[0] for v in res.invariant_violations]
        if name in mutants:
            if mutants[name] not in viol:
                raise tlc.MachineryError(f"spec mutant {name} not killed (expected {mutants[name]}, got {viol})")
            killed += 1
        elif viol:
            raise tlc.MachineryError(f"as-designed model {name} violates {viol}:\n" + res.invariant_violations[0][1][-1])
        if name == "greedy22":
            never = [a for a, (d, t) in res.coverage.items() if t == 0 and a.startswith("Resonaate!")]
            ctx.extra["actions_never_taken_greedy22"] = never
    ctx.extra["spec_mutants_killed"] = killed


def tlc_behaviours(ctx: Ctx):
    """spec -> impl: behaviours of Resonaate.tla generated by TLC (-simulate), one job family per behaviour."""
    from .. import sysrun
    jobs = []
    n_beh = 6 if ctx.quick else 60
    shapes = {"greedy32": ("MyopicNaiveGreedyDecision", 3, 2), "munkres23": ("MunkresDecision", 2, 3),
              "random23": ("RandomDecision", 2, 3), "greedy22_ser": ("MyopicNaiveGreedyDecision", 2, 2)}
    total = 0
    for name, (pol, nt, ns) in shapes.items():
        cfg = (tlc.SPEC_DIR / f"MCResonaate_{name}.cfg").read_text()
        cfg = "\n".join(l for l in cfg.splitlines() if not l.startswith(("INVARIANT", "PROPERTY")))
        cfg = cfg.replace("NSteps = 1", "NSteps = 2").replace("WithSerendipity = TRUE", "WithSerendipity = FALSE") + "\nINVARIANT SimEmit\n"
        res = tlc.require_ok(tlc.run_tlc("MCResonaate", cfg, ctx.sub("sim_" + name), workers=1, simulate=f"num={n_beh}",
                                         depth=120, seed=ctx.seed + 11, timeout=600))
        ctx.add_tlc(res, f"Resonaate.tla -simulate: {n_beh} behaviours of config {name} for spec->impl replay")
        ident_t = {f"t{i}": f"t{i}" for i in range(1, 6)}
        ident_s = {f"s{i}": f"s{i}" for i in range(1, 6)}
        for bi, beh in enumerate(sysrun.behaviours_from_sim(res.tagged("SIM"), ident_t, ident_s)[:n_beh]):
            if beh["steps"] < 1:
                continue
            total += 1
            sd = {"mode": "tlc", "orders": [[k, tag, ids] for (k, tag), ids in sorted(beh["orders"].items())],
                  "env": [[kind, k, t, s, v] for (kind, k, t, s), v in sorted(beh["env"].items())], "config": name, "index": bi}
            jobs.append({"policy": pol, "nt": nt, "ns": ns, "seed": ctx.seed * 50 + bi, "start": "2018-12-01T12:00:00",
                         "step": 60, "nsteps": 2, "span": 2, "out_every": 1, "table_env": True, "serendipity": False,
                         "schedules": [dict(sd, orders=[], reference=True), sd]})
    ctx.extra["tlc_behaviours_replayed"] = total
    return jobs


def make_jobs(ctx: Ctx, rng):
    jobs = []
    shapes = [(2, 2), (3, 2), (2, 3)] if ctx.quick else [(1, 1), (2, 1), (1, 2), (2, 2), (3, 2), (2, 3), (3, 3), (4, 3), (5, 4)]
    env_seeds = 2 if ctx.quick else 8
    for pol in POLICIES:
        for nt, ns in shapes:
            for es in range(env_seeds):
                seed = ctx.seed * 1000 + es * 17 + nt * 3 + ns
                sizes = {"asyncPropagate": nt + ns, "asyncPredict": nt, "asyncCalculateReward": nt,
                         "asyncExecuteTasking": nt, "asyncUpdateEstimate": nt}
                schedules = [{"mode": "fifo"}, {"mode": "lifo"}]
                for tag in ("asyncExecuteTasking", "asyncCalculateReward", "asyncUpdateEstimate", "asyncPropagate", "asyncPredict"):
                    n = sizes[tag]
                    perms = list(itertools.permutations(range(n)))
                    cap = (4 if tag == "asyncExecuteTasking" else 1) if ctx.quick else 24
                    if len(perms) > cap:
                        perms = rng.sample(perms, cap)
                    for p in perms:
                        if list(p) != list(range(n)):
                            schedules.append({"mode": "perm", "tag": tag, "perm": list(p)})
                for r in range(1 if ctx.quick else 6):
                    schedules.append({"mode": "random", "seed": seed * 31 + r})
                jobs.append({"policy": pol, "nt": nt, "ns": ns, "seed": seed, "start": "2018-12-01T12:00:00",
                             "step": 60, "nsteps": 3, "span": 3, "out_every": 1 if es % 2 == 0 else 2,
                             "table_env": True, "serendipity": es % 2 == 1, "schedules": schedules})
    # two engines with disjoint networks (each assessed in turn within a step)
    for i, pol in enumerate(POLICIES[:3] if ctx.quick else POLICIES):
        seed = ctx.seed * 333 + i
        jobs.append({"policy": pol, "nt": 4, "ns": 4, "seed": seed, "start": "2018-12-01T12:00:00", "step": 60, "nsteps": 3,
                     "span": 3, "out_every": 1 + i % 2, "table_env": True, "serendipity": i % 2 == 0, "two_engines": True,
                     "schedules": [{"mode": "fifo"}, {"mode": "lifo"}, {"mode": "random", "seed": seed},
                                   {"mode": "perm", "tag": "asyncExecuteTasking", "perm": [1, 0]}]})
    # fully real geometry, no stubs
    for i in range(2 if ctx.quick else 10):
        pol = POLICIES[i % 4]
        jobs.append({"policy": pol, "nt": 3 + i % 2, "ns": 5, "seed": ctx.seed * 77 + i, "start": "2018-12-01T12:00:00",
                     "step": 60 if i % 2 == 0 else 300, "nsteps": 3, "span": 3, "out_every": 1, "table_env": False,
                     "serendipity": True,
                     "schedules": [{"mode": "fifo"}, {"mode": "lifo"}, {"mode": "random", "seed": i}, {"mode": "random", "seed": i + 50}]})
    return jobs


def classify(job, tr, verdict):
    """Stable signature for a failed trace."""
    pol = {"MunkresDecision": "munkres", "MyopicNaiveGreedyDecision": "greedy", "RandomDecision": "random",
           "AllVisibleDecision": "allvisible"}[job["policy"]]
    if verdict["kind"] == "invariant":
        what = verdict["invariant"]
    else:
        ev = verdict.get("event") or {}
        what = "unexplained-" + str(ev.get("ev", "end"))
        if ev.get("ev") == "EndStep":
            what = "order-dependent-step-result"
    return f"{pol}:{what}"


def run(ctx: Ctx):
    rng = random.Random(ctx.seed + 8)
    ctx.rule = ("one case = one real scenario execution (policy, network shape, environment table, completion schedule); "
                "schedules: FIFO, LIFO, every permutation of each job batch up to the cap, random; non-trivial = schedule is not FIFO "
                "or a sensor outcome table row differs; distinct by (policy, shape, env seed, schedule)")
    ctx.assumptions = ["harness/sched.py honours Ray's copy semantics; job bodies run at submission, only the merge order varies",
                       "table-driven runs stub Sensor.canSlew / attemptObservation / predictObservation only; everything else is real",
                       "numeric step results compared with the FIFO run at rtol 1e-9 (observation order inside a filter update may differ)"]
    import time
    t0 = time.time()
    jobs = make_jobs(ctx, rng) + tlc_behaviours(ctx)
    with ThreadPoolExecutor(1) as bg:
        spec_future = bg.submit(spec_level, ctx)          # TLC model checking runs alongside the scenarios
        with ProcessPoolExecutor(max_workers=min(ctx.cpus, 10)) as ex:
            fams = list(ex.map(_run_family, sorted(jobs, key=lambda j: -len(j["schedules"])), chunksize=1))
        spec_future.result()
    ctx.extra["t_scenarios_s"] = round(time.time() - t0, 1)
    # group families by identical constants
    groups = {}
    for fam in fams:
        key = json.dumps(fam["group"], sort_keys=True)
        groups.setdefault(key, []).append(fam)
    from .. import sysrun

    def validate_group(item):
        idx, (key, fl) = item
        g = json.loads(key)
        traces, owners = [], []
        for fam in fl:
            for tr in fam["traces"]:
                traces.append(tr["events"])
                owners.append((fam["job"], tr))
        return owners, sysrun.validate(ctx, g, traces, f"grp{idx}")

    with ThreadPoolExecutor(4) as ex:
        results = list(ex.map(validate_group, enumerate(sorted(groups.items()))))
    ctx.extra["t_validated_s"] = round(time.time() - t0, 1)
    n_rej = 0
    for owners, verdicts in results:
        for (job, tr), v in zip(owners, verdicts):
            key = (job["policy"], job["nt"], job["ns"], job["seed"], json.dumps(tr["schedule"], sort_keys=True))
            ctx.case(key, nontrivial=tr["schedule"]["mode"] != "fifo",
                     sample={"policy": job["policy"], "shape": [job["nt"], job["ns"]], "schedule": tr["schedule"],
                             "first_events": tr["events"][:14]} if len(ctx.samples) < 3 else None)
            if not v["ok"]:
                n_rej += 1
                sig = classify(job, tr, v)
                ctx.violation(sig, f"{sig}: trace of real scenario not a behaviour of Resonaate.tla "
                                   f"(at event {v.get('at')}: {json.dumps(v.get('event'))[:300]})",
                              {"job": {k: x for k, x in job.items() if k != "schedules"}, "schedule": tr["schedule"],
                               "verdict": {k: x for k, x in v.items() if k != "state"}, "events": tr["events"]})
    ctx.extra["traces_rejected"] = n_rej
    ctx.extra["scenario_families"] = len(jobs)
    if not ctx.quick:
        real_ray_traces(ctx)


def real_ray_traces(ctx: Ctx):
    """Thorough tier: scenarios under the REAL ray (completion order is whatever Ray produces)."""
    import subprocess
    import sys
    from .. import sysrun
    out = ctx.workdir / "realray.json"
    env = dict(os.environ, VERIF_REAL_RAY="1")
    p = subprocess.run([sys.executable, "-W", "ignore", "-m", "harness.realray_run", str(out), str(ctx.seed), "6"],
                       env=env, capture_output=True, text=True, timeout=1800)
    if p.returncode != 0 or not out.exists():
        # Ray itself is not under test; if it cannot start in this sandbox the traces are simply not available
        ctx.extra["real_ray"] = "unavailable: " + (p.stderr or p.stdout)[-300:]
        return
    runs = json.loads(out.read_text())
    n_bad = 0
    orders = 0
    for i, r in enumerate(runs):
        v = sysrun.validate(ctx, r["group"], [r["events"]], f"realray{i}")[0]
        # was any batch merged out of submission order?  (informational: shows Ray really reorders)
        seq = [e["a"] for e in r["events"] if e["ev"] == "CompletePropagate"]
        orders += int(seq != sorted(seq, key=seq.index))
        ctx.case(("realray", i, r["policy"], r["step"]), nontrivial=True)
        if not v["ok"]:
            n_bad += 1
            what = v.get("invariant") or ("unexplained-" + str((v.get("event") or {}).get("ev", "end")))
            ctx.violation(f"realray:{POL_SHORT.get(r['policy'], r['policy'])}:{what}",
                          f"trace recorded under the real ray is not a behaviour of Resonaate.tla at event {v.get('at')}: "
                          f"{json.dumps(v.get('event'))[:300]}", {"policy": r["policy"], "step": r["step"], "events": r["events"]})
    ctx.extra["real_ray"] = f"{len(runs)} scenarios traced under real ray, {n_bad} rejected"


def replay(ctx: Ctx, rp: dict):
    """Re-run one stored (job, schedule) against the current tree and validate it again."""
    from .. import sysrun
    r = rp["replay"]
    job = dict(r["job"])
    job["schedules"] = [{"mode": "fifo"}] + ([r["schedule"]] if r["schedule"].get("mode") != "fifo" else [])
    fam = _run_family(job)
    traces = [t["events"] for t in fam["traces"]]
    verdicts = sysrun.validate(ctx, fam["group"], traces, "replay")
    for tr, v in zip(fam["traces"], verdicts):
        ctx.case(("replay", json.dumps(tr["schedule"], sort_keys=True)))
        if not v["ok"]:
            sig = classify(job, tr, v)
            ctx.violation(sig, f"{sig} (replay) at event {v.get('at')}", {"job": r["job"], "schedule": tr["schedule"],
                                                                          "verdict": {k: x for k, x in v.items() if k != "state"}})
    ctx.case(("replay-done",))
