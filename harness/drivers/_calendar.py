"""Shared helpers of the C05 / C11 drivers: Calendar.tla tables and projections of time.

Nothing here decides a property: the functions run Calendar.tla, index what TLC printed and
turn real `datetime` / Julian-date floats into the integers the trace specifications read.
"""
from __future__ import annotations

from datetime import date, datetime

from .. import tlc

JD_OF_DN0 = 1721424.5      # JD = dn + 1721424.5 + sod/86400   (Calendar.tla: ToJD)
JD_TOL = 1e-9              # days  (2 ulp of a Julian date; 86 microseconds)
SEC_TOL = 1e-4             # seconds (scenario-second offsets, calendar seconds)
CAP = 2_000_000_000        # integers handed to TLC stay below 2^31 (12 days = 1.04e9 ms)


def spec_fail(res, what):
    """A Calendar/Durations/GroundSite theorem failing in TLC is a machinery error."""
    tlc.require_ok(res, what)
    for inv, states in res.invariant_violations:
        raise tlc.MachineryError(f"{what}: invariant {inv} violated at spec level:\n" + "\n".join(states[-1:]))
    for prop, states in res.property_violations:
        raise tlc.MachineryError(f"{what}: {prop} violated at spec level:\n" + "\n".join(states[-2:]))
    if not res.ok:
        raise tlc.MachineryError(f"{what}: TLC did not finish cleanly:\n" + res.stdout[-1500:])
    return res


def run_walk(workdir, workers):
    """Calendar.tla day walk 1901-2099: list of day records sorted by day number."""
    res = spec_fail(tlc.run_tlc("Calendar", "Calendar_walk.cfg", workdir, workers=workers, timeout=1500),
                    "Calendar.tla walk")
    days = sorted(res.tagged("DAY"), key=lambda r: r["dn"])
    if not days:
        raise tlc.MachineryError("Calendar.tla walk emitted no days")
    # machinery sanity (not a property): the spec's ordinal is the proleptic Gregorian one
    for r in (days[0], days[len(days) // 2], days[-1]):
        if date(r["y"], r["m"], r["d"]).toordinal() != r["dn"]:
            raise tlc.MachineryError(f"Calendar.tla day number differs from the Gregorian ordinal: {r}")
    if [r["dn"] for r in days] != list(range(days[0]["dn"], days[0]["dn"] + len(days))):
        raise tlc.MachineryError("Calendar.tla walk: day numbers are not consecutive")
    return res, days


def run_seconds(cfg, workdir, workers=1):
    """Calendar.tla second ticks around boundary instants: list of TICK transitions.

    These configurations bound the exploration with TLCGet("level"); only a single worker
    explores strictly breadth first, so they run with one worker to stay deterministic."""
    res = spec_fail(tlc.run_tlc("Calendar", cfg, workdir, workers=1, timeout=2400), f"Calendar.tla {cfg}")
    ticks = sorted(res.tagged("TICK"), key=lambda r: (r["dn"], r["to"][3], r["from"][3]))
    if not ticks:
        raise tlc.MachineryError(f"Calendar.tla {cfg} emitted no ticks")
    return res, ticks


def hms(sod: int):
    h, r = divmod(sod, 3600)
    mi, s = divmod(r, 60)
    return h, mi, s


def spec_jd(dn: int, sod: int) -> float:
    """The Julian date Calendar.tla assigns to (day number, second of day), as a float."""
    return dn + JD_OF_DN0 + sod / 86400.0


def jd_err(jd: float, dn: int, sod: int) -> float:
    """jd minus the spec's Julian date, evaluated so that the subtraction is exact."""
    return (float(jd) - (dn + JD_OF_DN0)) - sod / 86400.0


class DayIndex:
    """(y, m, d) -> day number, built from what TLC printed (extended by whole days only)."""

    def __init__(self, pairs):
        self.dn = dict(pairs)            # {(y, m, d): dn}
        (y, m, d), n = next(iter(self.dn.items()))
        self._off = n - date(y, m, d).toordinal()   # 0 when the spec is right (checked by C05)

    def of(self, dt: datetime) -> int:
        key = (dt.year, dt.month, dt.day)
        if key in self.dn:
            return self.dn[key]
        return dt.toordinal() + self._off

    def jd_ok(self, jd, dt: datetime) -> int:
        sod = dt.hour * 3600 + dt.minute * 60 + dt.second
        return int(abs(jd_err(jd, self.of(dt), sod) - dt.microsecond / 86400e6) <= JD_TOL)


def ms_between(a: datetime, b: datetime) -> int:
    """(a - b) in integer milliseconds (exact datetime arithmetic), capped for TLC."""
    td = a - b
    v = (td.days * 86400 + td.seconds) * 1000 + round(td.microseconds / 1000)
    return max(-CAP, min(CAP, v))


def cap(x: float) -> int:
    if x != x:          # NaN
        return CAP
    return int(max(-CAP, min(CAP, round(x))))


def fmt(dt: datetime) -> str:
    return dt.strftime("%Y-%m-%dT%H:%M:%S")


def tid_of_states(states) -> int | None:
    import re
    m = re.findall(r"/\\ i = (\d+)", "\n".join(states))
    return int(m[-1]) if m else None
