"""C07 - tasking decisions are feasible and optimal as each policy documents.

1. TLC checks the spec-level theorems of Decisions.tla over the whole bounded instance
   space (NonEmpty, DecisionFeasible, RelabelEquivariant, MunkresOptimal, GreedyOptimal).
2. impl -> spec: records (policy, R, V, D) produced by the REAL Decision.calculate are
   validated by TLC against TraceDecisions.tla (D must be in Admissible(policy, R, V));
   relabelled twins (D2 computed by the real code on a permuted copy) likewise.
3. Large munkres instances (to 40x40): TLC verifies a dual certificate proving that the
   total of the REAL assignment is maximal.
4. spec -> impl: every "rewarded" state of Rewards.tla (exact rationals) is replayed into
   the real Reward.normalizeMetrics / Reward.calculate.
"""
from __future__ import annotations

import itertools
import json
import random

import numpy as np

from .. import tlc
from ..core import Ctx

LEVEL = "model_checking"
POL = {"munkres": "MunkresDecision", "greedy": "MyopicNaiveGreedyDecision",
       "random": "RandomDecision", "allvisible": "AllVisibleDecision"}


def _decisions(seed):
    from resonaate.tasking.decisions.decisions import (AllVisibleDecision, MunkresDecision,
                                                       MyopicNaiveGreedyDecision, RandomDecision)
    return {"munkres": MunkresDecision(), "greedy": MyopicNaiveGreedyDecision(),
            "random": RandomDecision(seed=seed), "allvisible": AllVisibleDecision()}


def _calc(dec, R, V):
    D = dec.calculate(np.array(R, dtype=float), np.array(V, dtype=bool))
    return np.asarray(D).astype(int).tolist()


def hungarian_max(R):
    """Independent O(n^3) assignment with potentials (max version); returns (assign, u, v)."""
    n = len(R)
    cost = [[-R[i][j] for j in range(n)] for i in range(n)]
    INF = float("inf")
    u = [0] * (n + 1)
    v = [0] * (n + 1)
    p = [0] * (n + 1)
    way = [0] * (n + 1)
    for i in range(1, n + 1):
        p[0] = i
        j0 = 0
        minv = [INF] * (n + 1)
        used = [False] * (n + 1)
        while True:
            used[j0] = True
            i0, delta, j1 = p[j0], INF, 0
            for j in range(1, n + 1):
                if not used[j]:
                    cur = cost[i0 - 1][j - 1] - u[i0] - v[j]
                    if cur < minv[j]:
                        minv[j], way[j] = cur, j0
                    if minv[j] < delta:
                        delta, j1 = minv[j], j
            for j in range(n + 1):
                if used[j]:
                    u[p[j]] += delta
                    v[j] -= delta
                else:
                    minv[j] -= delta
            j0 = j1
            if p[j0] == 0:
                break
        while True:
            j1 = way[j0]
            p[j0] = p[j1]
            j0 = j1
            if j0 == 0:
                break
    assign = [0] * n
    for j in range(1, n + 1):
        assign[p[j] - 1] = j
    return assign, [-x for x in u[1:]], [-x for x in v[1:]]


def _masks(nt, ns, rng, how):
    full = [[1] * ns for _ in range(nt)]
    if how == "all":
        for bits in itertools.product((0, 1), repeat=nt * ns):
            yield [list(bits[t * ns:(t + 1) * ns]) for t in range(nt)]
        return
    yield full
    for _ in range(how):
        yield [[rng.randint(0, 1) for _ in range(ns)] for _ in range(nt)]


def gen_records(ctx: Ctx, rng):
    decs = _decisions(ctx.seed)
    recs = []

    def add(p, R, V, relabel=False):
        nt, ns = len(R), len(R[0])
        rec = {"p": p, "nt": nt, "ns": ns, "R": R, "V": V, "D": _calc(decs[p], R, V)}
        if relabel:
            pi = list(range(nt))
            sg = list(range(ns))
            rng.shuffle(pi)
            rng.shuffle(sg)
            R2 = [[R[pi[t]][sg[s]] for s in range(ns)] for t in range(nt)]
            V2 = [[V[pi[t]][sg[s]] for s in range(ns)] for t in range(nt)]
            rec.update(pi=[x + 1 for x in pi], sg=[x + 1 for x in sg], D2=_calc(decs[p], R2, V2))
        recs.append(rec)
        ties = p in ("munkres", "greedy") and len({x for row in R for x in row}) < nt * ns
        ctx.case((p, R, V), nontrivial=ties or nt * ns > 1, sample=rec if len(recs) % 9973 == 1 else None)

    small_vals = (-1, 0, 1, 2)
    big = ((3, 3),) if ctx.quick else ((3, 3), (3, 4), (4, 3))
    shapes = [(a, b) for a in (1, 2, 3) for b in (1, 2, 3)]
    for nt, ns in shapes:
        if (nt, ns) == (3, 3):
            vals = (0, 1, 2)
            nmask = 1 if ctx.quick else 4
        elif nt * ns == 6:
            vals, nmask = (0, 1, 2), 3
        else:
            vals, nmask = small_vals, "all" if nt * ns <= 3 else 6
        for flat in itertools.product(vals, repeat=nt * ns):
            R = [list(flat[t * ns:(t + 1) * ns]) for t in range(nt)]
            relabel = rng.random() < 0.15
            for V in _masks(nt, ns, rng, nmask):
                add("munkres", R, V, relabel)
                add("greedy", R, V, relabel)
        # random / all-visible depend on V only: all masks (R arbitrary)
        for V in _masks(nt, ns, rng, "all"):
            R = [[rng.choice(small_vals) for _ in range(ns)] for _ in range(nt)]
            add("random", R, V, relabel=True)
            add("allvisible", R, V, relabel=True)
    # 4x4 (and larger in thorough) tie-heavy samples, brute force still feasible in TLC
    n44 = 1500 if ctx.quick else 20000
    for _ in range(n44):
        nt, ns = rng.choice(((4, 4), (4, 3), (3, 4), (2, 4), (4, 2), (4, 1), (1, 4)) + (() if ctx.quick else ((5, 4), (4, 5), (5, 5))))
        vals = rng.choice(((0, 1), (0, 1, 2), (-1, 0, 1, 2), (-3, -2, -1)))
        R = [[rng.choice(vals) for _ in range(ns)] for _ in range(nt)]
        V = [[int(rng.random() < 0.7) for _ in range(ns)] for _ in range(nt)]
        p = rng.choice(("munkres", "greedy", "random", "allvisible"))
        add(p, R, V, relabel=rng.random() < 0.5)
    return recs


def gen_certs(ctx: Ctx, rng):
    """Large instances: the REAL munkres assignment + independent integer duals."""
    from resonaate.tasking.decisions.decisions import MunkresDecision
    dec = MunkresDecision()
    certs = []
    n_certs = 60 if ctx.quick else 600
    for k in range(n_certs):
        nt, ns = rng.randint(5, 40), rng.randint(5, 40)
        if k % 5 == 0:
            ns = nt
        vals = rng.choice(((0, 1), (0, 1, 2, 3), tuple(range(-5, 6)), tuple(range(0, 100))))
        R = [[rng.choice(vals) for _ in range(ns)] for _ in range(nt)]
        D = _calc(dec, R, [[1] * ns for _ in range(nt)])
        n = max(nt, ns)
        P = [[R[i][j] if i < nt and j < ns else 0 for j in range(n)] for i in range(n)]
        # the real decision as a permutation of the padded square problem
        A = [0] * n
        used_c = set()
        rows_free = []
        for i in range(n):
            js = [j for j in range(ns) if i < nt and D[i][j]]
            if len(js) > 1:
                ctx.violation("munkres-many-per-target", f"munkres tasked target row {i} to {len(js)} sensors",
                              {"R": R, "D": D})
            if js:
                A[i] = js[0] + 1
                used_c.add(js[0])
            else:
                rows_free.append(i)
        free_c = [j for j in range(n) if j not in used_c]
        # unmatched real rows/cols: complete with the remaining (dummy or zero-padded) cells
        for i, j in zip(rows_free, free_c):
            A[i] = j + 1
        # a real row left unmatched although the smaller side must be complete is caught by
        # CertOk (its padded partner has reward R[i][j], the total will fall short) only if that
        # matters for optimality; completeness itself is checked here against the statement.
        matched = sum(1 for i in range(nt) for j in range(ns) if D[i][j])
        if matched != min(nt, ns):
            ctx.violation("munkres-incomplete", f"munkres matched {matched} pairs of a {nt}x{ns} full-visibility problem",
                          {"R": R, "D": D})
        _, u, v = hungarian_max(P)
        certs.append({"n": n, "R": P, "A": A, "u": u, "v": v})
        ctx.case(("cert", R), sample={"cert_shape": [nt, ns], "vals": list(vals)[:4]} if k == 0 else None)
    return certs


def validate_records(ctx: Ctx, recs, certs):
    """Hand the records to TLC in shards (one TLC process per shard, run in parallel)."""
    from concurrent.futures import ThreadPoolExecutor
    nshards = min(8, max(1, len(recs) // 20000))
    shards = [recs[i::nshards] for i in range(nshards)]
    cfg = (tlc.SPEC_DIR / "TraceDecisions.cfg").read_text()

    def one(k):
        d = ctx.sub(f"trace{k}")
        (d / "records.json").write_text(json.dumps(shards[k]))
        (d / "certs.json").write_text(json.dumps(certs if k == 0 else []))
        return tlc.run_tlc("TraceDecisions", cfg, d, workers=max(2, ctx.cpus // nshards), cont=True,
                           env={"RECORDS_FILE": "records.json", "CERTS_FILE": "certs.json"}, timeout=3000)

    with ThreadPoolExecutor(nshards) as ex:
        results = list(ex.map(one, range(nshards)))
    import re
    for k, res in enumerate(results):
        tlc.require_ok(res, f"TraceDecisions shard {k}")
        ctx.add_tlc(res, f"trace validation of {len(shards[k])} real decision records (shard {k})")
        for c in res.tuples("BADCERT"):
            cert = certs[c[0] - 1]
            ctx.violation("munkres-not-optimal-cert",
                          f"dual certificate refutes optimality of the real munkres assignment (n={cert['n']})",
                          {"cert": cert})
        if any("Assumption" in e for e in res.errors) and not res.tuples("BADCERT"):
            raise tlc.MachineryError("ASSUME failed without BADCERT line:\n" + res.stdout[-2000:])
        for inv, states in res.invariant_violations:
            m = re.findall(r"/\\ i = (\d+)", "\n".join(states))
            rec = shards[k][int(m[-1]) - 1] if m else None
            pol = rec["p"] if rec else "?"
            ctx.violation(f"{pol}-{inv}", f"real {POL.get(pol, pol)} record violates {inv}", {"record": rec})
        expected = 2 * len(shards[k]) + 65
        if res.ok and res.distinct_states != expected:
            raise tlc.MachineryError(f"trace shard {k}: {res.distinct_states} states, expected {expected}")
    ctx.traces_validated += len(recs) + len(certs)


def replay_rewards(ctx: Ctx):
    from resonaate.tasking.metrics.information import ShannonInformation
    from resonaate.tasking.metrics.sensor import SlewTimeMinimization
    from resonaate.tasking.metrics.stability import LyapunovStability
    from resonaate.tasking.metrics.target import TimeSinceObservation
    from resonaate.tasking.rewards.rewards import CombinedReward, CostConstrainedReward, SimpleSummationReward
    cfg = "Rewards_quick.cfg" if ctx.quick else "Rewards_thorough.cfg"
    res = tlc.require_ok(tlc.run_tlc("Rewards", cfg, ctx.sub("rewards"), workers=ctx.cpus, timeout=3000))
    ctx.add_tlc(res, "Rewards.tla exhaustive (normalisation invariants + expected rewards)")
    for inv, states in res.invariant_violations:
        raise tlc.MachineryError(f"Rewards.tla invariant {inv} violated at spec level:\n" + "\n".join(states[-1:]))
    m3 = [LyapunovStability(), ShannonInformation(), SlewTimeMinimization()]
    m4 = [*m3, TimeSinceObservation()]
    n = 0
    for st in res.tagged("REWARD"):
        d = st["delta"][0] / st["delta"][1]
        if st["kind"] == "sum":
            rw = SimpleSummationReward(m3)
        elif st["kind"] == "cost":
            rw = CostConstrainedReward(m3, delta=d)
        else:
            rw = CombinedReward(m4, delta=d)
        cube = np.array(st["cube"], dtype=float)
        normed = rw.normalizeMetrics(cube.copy())
        got = np.asarray(rw.calculate(normed.copy()), dtype=float).reshape(len(st["cube"]), len(st["cube"][0]))
        exp_n = np.array([[[q[0] / q[1] for q in s] for s in t] for t in st["norm"]])
        exp_r = np.array([[q[0] / q[1] for q in t] for t in st["reward"]])
        n += 1
        ctx.case(("reward", st["kind"], st["delta"], st["cube"]), sample=st if n == 1 else None)
        if not np.allclose(normed, exp_n, rtol=0, atol=1e-12):
            ctx.violation(f"reward-normalize-{st['kind']}", "normalizeMetrics differs from exact normalisation",
                          {"state": st, "got": normed.tolist()})
        elif normed.max() > 1 + 1e-12 and (np.array(st["cube"]).max(axis=(0, 1)) > 0).all():
            ctx.violation("reward-normalize-gt1", "normalised metric above one", {"state": st})
        if not np.allclose(got, exp_r, rtol=0, atol=1e-12):
            ctx.violation(f"reward-value-{st['kind']}", "Reward.calculate differs from the documented combination",
                          {"state": st, "got": got.tolist()})
    if n == 0:
        raise tlc.MachineryError("Rewards.tla emitted no states")
    ctx.traces_validated += n
    ctx.extra["reward_states_replayed"] = n


def run(ctx: Ctx):
    from .. import sched
    sched.install()
    rng = random.Random(ctx.seed * 7919 + 17)
    ctx.rule = ("records: every R over small integers for all shapes up to 3x3 (x masks), tie-heavy 4x4(+) samples, "
                "all masks for random/all-visible; non-trivial = more than one cell (ties counted); distinct by (policy,R,V). "
                "certs: random 5..40 x 5..40 integer matrices; rewards: every state of Rewards.tla")
    ctx.assumptions = ["documented sense of each policy: selection on R, then AND with V (Decision.calculate)",
                       "rewards are integers in the records (ties are exact); floats only inside the implementation"]
    for cfgname in (["Decisions_quick.cfg"] if ctx.quick else ["Decisions_thorough2.cfg", "Decisions_thorough.cfg"]):
        spec = tlc.require_ok(tlc.run_tlc("Decisions", cfgname, ctx.sub("spec_" + cfgname[:-4]), workers=ctx.cpus, timeout=6000))
        ctx.add_tlc(spec, f"Decisions.tla spec-level theorems ({cfgname})")
        for inv, states in spec.invariant_violations:
            raise tlc.MachineryError(f"Decisions.tla theorem {inv} fails at spec level:\n" + "\n".join(states[-1:]))
    recs = gen_records(ctx, rng)
    certs = gen_certs(ctx, rng)
    validate_records(ctx, recs, certs)
    replay_rewards(ctx)
    ctx.extra["records"] = len(recs)
    ctx.extra["certificates"] = len(certs)


def replay(ctx: Ctx, rp: dict):
    """Re-evaluate one stored record with the current tree and re-validate it."""
    from .. import sched
    sched.install()
    rec = rp["replay"].get("record")
    if not rec:
        return run(ctx)
    decs = _decisions(ctx.seed)
    rec = dict(rec)
    rec["D"] = _calc(decs[rec["p"]], rec["R"], rec["V"])
    rec.pop("pi", None), rec.pop("sg", None), rec.pop("D2", None)
    ctx.case(("replay", rec["p"], rec["R"], rec["V"]))
    ctx.case(("replay2", rec["p"]))
    validate_records(ctx, [rec], [])
