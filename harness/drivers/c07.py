"""C07 - tasking decisions are feasible and optimal as each policy documents.

1. TLC checks the spec-level theorems of Decisions.tla over the whole bounded instance
   space (NonEmpty, DecisionFeasible, RelabelEquivariant, MunkresOptimal, GreedyOptimal).
2. impl -> spec: records (policy, R, V, D) produced by the REAL Decision.calculate are
   validated by TLC against TraceDecisions.tla (D must be in Admissible(policy, R, V));
   relabelled twins (D2 computed by the real code on a permuted copy) likewise.
3. Large munkres instances (to 40x40): TLC verifies a dual certificate proving that the
   total of the REAL assignment is maximal.
4. spec -> impl: every "rewarded" state of Rewards.tla (exact rationals) is replayed into
   the real Reward.normalizeMetrics / Reward.calculate.  A state poses the metric values per KIND and the
   ORDER in which the reward configuration lists the kinds (all 24 / 6 / 6 orders); the reward is built
   through the public RewardConfig -> rewardsFactory path with the metric configs in that order and is fed
   the matrix with its columns in that order.  The documented formula is on kinds (RewardIsDocumentedCombination);
   two named wrong column lookups of the spec must be refuted by TLC in every run (non-vacuity).
   Metric values are rationals cube/den (one denominator per kind): column maxima above one, exactly one, strictly
   between 0 and 1, zero and negative are mixed; the spec deviation "divisor floored at one" must be refuted too.
   calculate() must leave its argument unchanged and give the same result when evaluated again.
5. units: every munkres / greedy record is replayed with the rewards times powers of two (a differing decision must be
   admissible for the same instance: ScaleExplained / ScaleInvariant); near-tie records of ordinary magnitude are large
   integers handed to the real code times 2^-23.  Deviation "absolute bonus for visible pairs" refuted by TLC.
"""
from __future__ import annotations

import itertools
import json
import random

import numpy as np

from .. import tlc
from ..core import Ctx

LEVEL = "model_checking"
POL = {"munkres": "MunkresDecision", "greedy": "MyopicNaiveGreedyDecision",
       "random": "RandomDecision", "allvisible": "AllVisibleDecision"}


def _decisions(seed):
    from resonaate.tasking.decisions.decisions import (AllVisibleDecision, MunkresDecision,
                                                       MyopicNaiveGreedyDecision, RandomDecision)
    return {"munkres": MunkresDecision(), "greedy": MyopicNaiveGreedyDecision(),
            "random": RandomDecision(seed=seed), "allvisible": AllVisibleDecision()}


def _calc(dec, R, V, scale=1.0):
    """The real decision on the reward matrix R * scale (scale is a power of two: the product is exact, ties stay ties)."""
    D = dec.calculate(np.array(R, dtype=float) * scale, np.array(V, dtype=bool))
    return np.asarray(D).astype(int).tolist()


# optimality does not depend on the unit of the rewards: D(c R, V) must be admissible for (R, V) for every c > 0
# (Decisions.tla, theorem ScaleInvariant).  Powers of two keep every product, sum and comparison of the lattice exact.
SCALES = (2.0 ** -24, 2.0 ** -30, 2.0 ** 20)


def hungarian_max(R):
    """Independent O(n^3) assignment with potentials (max version); returns (assign, u, v)."""
    n = len(R)
    cost = [[-R[i][j] for j in range(n)] for i in range(n)]
    INF = float("inf")
    u = [0] * (n + 1)
    v = [0] * (n + 1)
    p = [0] * (n + 1)
    way = [0] * (n + 1)
    for i in range(1, n + 1):
        p[0] = i
        j0 = 0
        minv = [INF] * (n + 1)
        used = [False] * (n + 1)
        while True:
            used[j0] = True
            i0, delta, j1 = p[j0], INF, 0
            for j in range(1, n + 1):
                if not used[j]:
                    cur = cost[i0 - 1][j - 1] - u[i0] - v[j]
                    if cur < minv[j]:
                        minv[j], way[j] = cur, j0
                    if minv[j] < delta:
                        delta, j1 = minv[j], j
            for j in range(n + 1):
                if used[j]:
                    u[p[j]] += delta
                    v[j] -= delta
                else:
                    minv[j] -= delta
            j0 = j1
            if p[j0] == 0:
                break
        while True:
            j1 = way[j0]
            p[j0] = p[j1]
            j0 = j1
            if j0 == 0:
                break
    assign = [0] * n
    for j in range(1, n + 1):
        assign[p[j] - 1] = j
    return assign, [-x for x in u[1:]], [-x for x in v[1:]]


def _masks(nt, ns, rng, how):
    full = [[1] * ns for _ in range(nt)]
    if how == "all":
        for bits in itertools.product((0, 1), repeat=nt * ns):
            yield [list(bits[t * ns:(t + 1) * ns]) for t in range(nt)]
        return
    yield full
    for _ in range(how):
        yield [[rng.randint(0, 1) for _ in range(ns)] for _ in range(nt)]


def gen_records(ctx: Ctx, rng):
    decs = _decisions(ctx.seed)
    recs = []

    scaled = {"replays": 0, "differing": 0}

    def add(p, R, V, relabel=False, scale=1.0, all_scales=False):
        nt, ns = len(R), len(R[0])
        rec = {"p": p, "nt": nt, "ns": ns, "R": R, "V": V, "D": _calc(decs[p], R, V, scale)}
        if p in ("munkres", "greedy") and scale == 1.0:
            # the same record in other units: one scale in rotation (all three for the small shapes / samples); a decision
            # that differs from D is handed to TLC as well (field Ds) and must be admissible for the unscaled (R, V)
            for c in (SCALES if all_scales or nt * ns < 9 else (SCALES[len(recs) % 3],)):
                Dc = _calc(decs[p], R, V, c)
                scaled["replays"] += 1
                if Dc != rec["D"]:
                    scaled["differing"] += 1
                    rec.setdefault("Ds", []).append(Dc)
                    rec.setdefault("scales", []).append(c)
        if relabel:
            pi = list(range(nt))
            sg = list(range(ns))
            rng.shuffle(pi)
            rng.shuffle(sg)
            R2 = [[R[pi[t]][sg[s]] for s in range(ns)] for t in range(nt)]
            V2 = [[V[pi[t]][sg[s]] for s in range(ns)] for t in range(nt)]
            rec.update(pi=[x + 1 for x in pi], sg=[x + 1 for x in sg], D2=_calc(decs[p], R2, V2, scale))
        recs.append(rec)
        ties = p in ("munkres", "greedy") and len({x for row in R for x in row}) < nt * ns
        ctx.case((p, R, V), nontrivial=ties or nt * ns > 1, sample=rec if len(recs) % 9973 == 1 else None)

    small_vals = (-1, 0, 1, 2)
    big = ((3, 3),) if ctx.quick else ((3, 3), (3, 4), (4, 3))
    shapes = [(a, b) for a in (1, 2, 3) for b in (1, 2, 3)]
    for nt, ns in shapes:
        if (nt, ns) == (3, 3):
            vals = (0, 1, 2)
            nmask = 1 if ctx.quick else 4
        elif nt * ns == 6:
            vals, nmask = (0, 1, 2), 3
        else:
            vals, nmask = small_vals, "all" if nt * ns <= 3 else 6
        for flat in itertools.product(vals, repeat=nt * ns):
            R = [list(flat[t * ns:(t + 1) * ns]) for t in range(nt)]
            relabel = rng.random() < 0.15
            for V in _masks(nt, ns, rng, nmask):
                add("munkres", R, V, relabel)
                add("greedy", R, V, relabel)
        # random / all-visible depend on V only: all masks (R arbitrary)
        for V in _masks(nt, ns, rng, "all"):
            R = [[rng.choice(small_vals) for _ in range(ns)] for _ in range(nt)]
            add("random", R, V, relabel=True)
            add("allvisible", R, V, relabel=True)
    # 4x4 (and larger in thorough) tie-heavy samples, brute force still feasible in TLC
    n44 = 1500 if ctx.quick else 20000
    for _ in range(n44):
        nt, ns = rng.choice(((4, 4), (4, 3), (3, 4), (2, 4), (4, 2), (4, 1), (1, 4)) + (() if ctx.quick else ((5, 4), (4, 5), (5, 5))))
        vals = rng.choice(((0, 1), (0, 1, 2), (-1, 0, 1, 2), (-3, -2, -1)))
        R = [[rng.choice(vals) for _ in range(ns)] for _ in range(nt)]
        V = [[int(rng.random() < 0.7) for _ in range(ns)] for _ in range(nt)]
        p = rng.choice(("munkres", "greedy", "random", "allvisible"))
        add(p, R, V, relabel=rng.random() < 0.5, all_scales=True)
    # near ties at ordinary magnitudes: large integer rewards (zero where invisible, as the engine produces them) handed
    # to the real code times 2^-23 (values of order 0.1 .. 1); two assignments, one of them through an invisible pair,
    # whose totals differ by 1..3 units (1.2e-7 .. 3.6e-7).  TLC decides admissibility on the integers.
    n_near = 800 if ctx.quick else 12000
    for k in range(n_near):
        nt, ns = rng.choice(((2, 2), (2, 2), (2, 3), (3, 2), (3, 3)))
        m = min(nt, ns)
        V = [[int(rng.random() < 0.75) for _ in range(ns)] for _ in range(nt)]
        R = [[rng.randint(2 ** 19, 2 ** 22) * V[t][s] for s in range(ns)] for t in range(nt)]
        rows, cols = rng.sample(range(nt), m), rng.sample(range(ns), m)
        cols2 = cols[1:] + cols[:1]
        tot = lambda cs: sum(R[t][s] for t, s in zip(rows, cs))  # noqa: E731
        t0, s0 = rows[0], cols[0]
        if V[t0][s0]:       # make assignment (rows, cols) better than (rows, cols2) by delta through a visible entry
            R[t0][s0] = max(0, R[t0][s0] + tot(cols2) - tot(cols) + rng.choice((1, 2, 3, -1, 0)))
        add(rng.choice(("munkres", "munkres", "greedy")), R, V, relabel=k % 4 == 0, scale=2.0 ** -23)
    ctx.extra["scaled_decision_replays"] = scaled["replays"]
    ctx.extra["scaled_decisions_differing_handed_to_tlc"] = scaled["differing"]
    return recs


def gen_certs(ctx: Ctx, rng):
    """Large instances: the REAL munkres assignment + independent integer duals."""
    from resonaate.tasking.decisions.decisions import MunkresDecision
    dec = MunkresDecision()
    certs = []
    n_certs = 60 if ctx.quick else 600
    for k in range(n_certs):
        nt, ns = rng.randint(5, 40), rng.randint(5, 40)
        if k % 5 == 0:
            ns = nt
        vals = rng.choice(((0, 1), (0, 1, 2, 3), tuple(range(-5, 6)), tuple(range(0, 100))))
        R = [[rng.choice(vals) for _ in range(ns)] for _ in range(nt)]
        D = _calc(dec, R, [[1] * ns for _ in range(nt)])
        n = max(nt, ns)
        P = [[R[i][j] if i < nt and j < ns else 0 for j in range(n)] for i in range(n)]
        # the real decision as a permutation of the padded square problem
        A = [0] * n
        used_c = set()
        rows_free = []
        for i in range(n):
            js = [j for j in range(ns) if i < nt and D[i][j]]
            if len(js) > 1:
                ctx.violation("munkres-many-per-target", f"munkres tasked target row {i} to {len(js)} sensors",
                              {"R": R, "D": D})
            if js:
                A[i] = js[0] + 1
                used_c.add(js[0])
            else:
                rows_free.append(i)
        free_c = [j for j in range(n) if j not in used_c]
        # unmatched real rows/cols: complete with the remaining (dummy or zero-padded) cells
        for i, j in zip(rows_free, free_c):
            A[i] = j + 1
        # a real row left unmatched although the smaller side must be complete is caught by
        # CertOk (its padded partner has reward R[i][j], the total will fall short) only if that
        # matters for optimality; completeness itself is checked here against the statement.
        matched = sum(1 for i in range(nt) for j in range(ns) if D[i][j])
        if matched != min(nt, ns):
            ctx.violation("munkres-incomplete", f"munkres matched {matched} pairs of a {nt}x{ns} full-visibility problem",
                          {"R": R, "D": D})
        _, u, v = hungarian_max(P)
        certs.append({"n": n, "R": P, "A": A, "u": u, "v": v})
        ctx.case(("cert", R), sample={"cert_shape": [nt, ns], "vals": list(vals)[:4]} if k == 0 else None)
    return certs


def validate_records(ctx: Ctx, recs, certs):
    """Hand the records to TLC in shards (one TLC process per shard, run in parallel)."""
    from concurrent.futures import ThreadPoolExecutor
    nshards = min(8, max(1, len(recs) // 20000))
    shards = [recs[i::nshards] for i in range(nshards)]
    cfg = (tlc.SPEC_DIR / "TraceDecisions.cfg").read_text()

    def one(k):
        d = ctx.sub(f"trace{k}")
        (d / "records.json").write_text(json.dumps(shards[k]))
        (d / "certs.json").write_text(json.dumps(certs if k == 0 else []))
        return tlc.run_tlc("TraceDecisions", cfg, d, workers=max(2, ctx.cpus // nshards), cont=True,
                           env={"RECORDS_FILE": "records.json", "CERTS_FILE": "certs.json"}, timeout=3000)

    with ThreadPoolExecutor(nshards) as ex:
        results = list(ex.map(one, range(nshards)))
    import re
    for k, res in enumerate(results):
        tlc.require_ok(res, f"TraceDecisions shard {k}")
        ctx.add_tlc(res, f"trace validation of {len(shards[k])} real decision records (shard {k})")
        for c in res.tuples("BADCERT"):
            cert = certs[c[0] - 1]
            ctx.violation("munkres-not-optimal-cert",
                          f"dual certificate refutes optimality of the real munkres assignment (n={cert['n']})",
                          {"cert": cert})
        if any("Assumption" in e for e in res.errors) and not res.tuples("BADCERT"):
            raise tlc.MachineryError("ASSUME failed without BADCERT line:\n" + res.stdout[-2000:])
        for inv, states in res.invariant_violations:
            m = re.findall(r"/\\ i = (\d+)", "\n".join(states))
            rec = shards[k][int(m[-1]) - 1] if m else None
            pol = rec["p"] if rec else "?"
            if inv == "ScaleExplained":
                ctx.violation(f"{pol}-depends-on-reward-scale",
                              f"real {POL.get(pol, pol)}: the decision on the rewards times {rec.get('scales') if rec else '?'} differs from the "
                              "unscaled one and is not admissible for the same problem (optimality does not depend on the unit of the rewards)",
                              {"record": rec})
            else:
                ctx.violation(f"{pol}-{inv}", f"real {POL.get(pol, pol)} record violates {inv}", {"record": rec})
        expected = 2 * len(shards[k]) + 65
        if res.ok and res.distinct_states != expected:
            raise tlc.MachineryError(f"trace shard {k}: {res.distinct_states} states, expected {expected}")
    ctx.traces_validated += len(recs) + len(certs)


# metric KIND of Rewards.tla -> public metric names whose METRIC_TYPE is that kind (the reward classes
# identify a metric by its type label, so every class of the type must behave alike)
KIND_LABELS = {"stab": ("LyapunovStability",),
               "info": ("ShannonInformation", "FisherInformation", "KLDivergence"),
               "sens": ("SlewTimeMinimization", "SlewDistanceMinimization", "SlewTimeMaximization", "SlewDistanceMaximization"),
               "beh": ("TimeSinceObservation",)}
KIND_TYPE = {"stab": "stability", "info": "information", "sens": "sensor", "beh": "target"}
REWARD_NAME = {"sum": "simple-summation", "cost": "cost-constrained", "combined": "combined"}
DOC_ORDER = ("stab", "info", "sens", "beh")
# spec deviation cfg -> (name of the deviation, the invariant TLC has to refute with it)
DEVIATIONS = {"Rewards_deviation_sublist.cfg": ("ColumnsByPositionInSublist", "RewardIsDocumentedCombination"),
              "Rewards_deviation_docorder.cfg": ("ColumnsInDocumentedOrder", "RewardIsDocumentedCombination"),
              "Rewards_deviation_floor.cfg": ("DivisorFlooredAtOne", "NormalisedByKind"),
              "Rewards_deviation_inplace.cfg": ("CalculateScalesSensorInPlace", "CalculateKeepsArgument")}
DEVIATIONS_THOROUGH = {"Rewards_deviation_inplace2.cfg": ("CalculateScalesSensorInPlace", "RecalculateIsStuttering")}
# control (thorough tier): without the fractional columns the floored divisor is NOT refuted - the reason they are posed
CONTROL = "Rewards_deviation_floor_unscaled.cfg"


def _reward_builder():
    """Rewards built through the PUBLIC path: RewardConfig (metric configs in the posed order) -> rewardsFactory."""
    from resonaate.common.labels import MetricLabel
    from resonaate.scenario.config.reward_config import (CombinedRewardConfig, CostConstrainedRewardConfig,
                                                         MetricConfig, SimpleSummationRewardConfig)
    from resonaate.tasking.rewards import rewardsFactory
    cfg_cls = {"sum": SimpleSummationRewardConfig, "cost": CostConstrainedRewardConfig, "combined": CombinedRewardConfig}
    cache = {}

    def build(kind, delta, order, pick):
        names = tuple(KIND_LABELS[k][pick % len(KIND_LABELS[k])] for k in order)
        key = (kind, tuple(delta), names)
        if key not in cache:
            conf = cfg_cls[kind](metrics=[MetricConfig(name=MetricLabel(nm)) for nm in names])
            if kind != "sum":
                # the config schema only validates the default delta (gt=0, lt=0 bounds): other values are set
                # on a copy of the validated config, the factory path (fromConfig) is the same
                conf = conf.model_copy(update={"delta": delta[0] / delta[1]})
            rw = rewardsFactory(conf)
            # Reward.calculateMetrics assembles one column per metric of reward.metrics, in THAT order: the columns
            # handed to the real code follow the built object (normally the configured order; a factory that
            # rearranges its metric list consistently is not a defect).  A different SET of metric types is one.
            got_types = [str(getattr(m.metric_type, "value", m.metric_type)) for m in rw.metrics]
            want_types = [KIND_TYPE[k] for k in order]
            if sorted(got_types) != sorted(want_types):
                raise _FactoryMismatch(f"rewardsFactory built metrics of types {got_types} from a configuration listing {want_types}")
            cache[key] = (rw, None if got_types == want_types else [want_types.index(t) for t in got_types])
        return cache[key]

    return build


def _colmax(cube):
    return [max(cell[c] for row in cube for cell in row) for c in range(len(cube[0][0]))]


def _close(a, b):
    """|a - b| <= 1e-12 everywhere (b finite: exact rationals of the spec); NaN / inf / a wrong shape are never close."""
    return a.shape == b.shape and bool((np.abs(a - b) <= 1e-12).all())


class _FactoryMismatch(Exception):
    pass


class _ArgumentModified(Exception):
    pass


class _NotRepeatable(Exception):
    pass


def _real_reward(built, cube, den=None, twice=False):
    """normalizeMetrics + calculate of the real reward on the matrix cube[t][s][c] / den[c]; `normed` is returned
    with its columns in the POSED order."""
    rw, cols = built
    nt, ns = len(cube), len(cube[0])
    arr = np.array(cube, dtype=float)
    if den is not None:
        arr = arr / np.array(den, dtype=float)
    if cols is not None:
        arr = arr[..., cols].copy()
    normed = np.asarray(rw.normalizeMetrics(arr), dtype=float)      # may normalise `arr` in place (engine usage)
    keep = normed.copy()
    got = np.array(rw.calculate(normed), dtype=float).reshape(nt, ns)      # a copy: the result may alias the argument
    if not np.array_equal(normed, keep):
        raise _ArgumentModified(f"calculate() modified its argument: {keep.tolist()} became {normed.tolist()}")
    if twice:
        again = np.array(rw.calculate(normed), dtype=float).reshape(nt, ns)
        if not np.array_equal(got, again) or not np.array_equal(normed, keep):
            raise _NotRepeatable(f"a second calculate() on the same matrix gave {again.tolist()} after {got.tolist()}")
    if cols is not None and normed.shape == arr.shape:
        back = np.empty_like(normed)
        back[..., cols] = normed
        normed = back
    return normed, got


def replay_rewards(ctx: Ctx):
    from concurrent.futures import ThreadPoolExecutor
    cfgs = ["Rewards_quick.cfg"] if ctx.quick else ["Rewards_quick.cfg", "Rewards_orders_thorough.cfg", "Rewards_thorough.cfg"]
    deviations = dict(DEVIATIONS) if ctx.quick else {**DEVIATIONS, **DEVIATIONS_THOROUGH}
    side = list(deviations) + ([] if ctx.quick else [CONTROL])
    with ThreadPoolExecutor(len(side) + 1) as ex:
        # non-vacuity of the order / fractional-maximum strata: TLC must refute each named wrong column lookup and the
        # floored normalisation divisor (small runs, one worker each, beside the main run)
        dev_f = {c: ex.submit(tlc.run_tlc, "Rewards", c, ctx.sub("rewards_" + c[:-4]), workers=1, timeout=600) for c in side}
        main = [tlc.run_tlc("Rewards", c, ctx.sub("rewards_" + c[:-4]), workers=ctx.cpus, timeout=3000) for c in cfgs]
        devs = {c: f.result() for c, f in dev_f.items()}
    for c, res in devs.items():
        if c == CONTROL:
            ctx.add_tlc(res, "Rewards.tla with deviation DivisorFlooredAtOne on integer-valued metrics only: NOT refutable (control)")
            tlc.require_ok(res, c)
            continue
        name, inv = deviations[c]
        ctx.add_tlc(res, f"Rewards.tla with deviation {name}: refutation by {inv} expected")
        violated = [i for i, _ in res.invariant_violations] + [i for i, _ in res.property_violations]
        if violated != [inv] or res.errors:
            raise tlc.MachineryError(f"spec deviation {name} not refuted by {inv} (violated: {violated}, errors: {res.errors[:2]})")
    ctx.extra["reward_spec_deviations_refuted"] = sorted({nm for nm, _ in deviations.values()})
    build = _reward_builder()
    n = 0
    orders_seen = set()
    max_classes = {"above one": 0, "exactly one": 0, "strictly between 0 and 1": 0, "zero": 0, "negative": 0}
    for cfg, res in zip(cfgs, main):
        for inv, states in list(res.invariant_violations) + list(res.property_violations):
            raise tlc.MachineryError(f"Rewards.tla invariant/property {inv} violated at spec level ({cfg}):\n" + "\n".join(states[-1:]))
        tlc.require_ok(res, cfg)
        ctx.add_tlc(res, f"Rewards.tla exhaustive, metric order x cube ({cfg}: kind-level reward formula, normalisation invariants, expected rewards)")
        for st in res.tagged("REWARD"):
            kind, order, cube, den = st["kind"], tuple(st["order"]), st["cube"], st["den"]
            if max(den) > 1:    # a state of the fractional stratum: which classes of column maxima does it pose
                for c, mx in enumerate(_colmax(cube)):
                    max_classes["negative" if mx < 0 else "zero" if mx == 0 else "strictly between 0 and 1" if mx < den[c]
                                else "exactly one" if mx == den[c] else "above one"] += 1
            exp_n = np.array([[[q[0] / q[1] for q in s] for s in t] for t in st["norm"]])
            exp_r = np.array([[q[0] / q[1] for q in t] for t in st["reward"]])
            n += 1
            orders_seen.add((kind, order))
            ctx.case(("reward", kind, st["delta"], order, cube, den), sample=st if n == 1 else None)
            # which metric class of each type: a function of the posed state (TLC's output order is not deterministic)
            pick = ctx.seed + sum((i + 1) * v for i, v in enumerate(x for row in cube for cell in row for x in cell))
            try:
                normed, got = _real_reward(build(kind, st["delta"], order, pick), cube, den, twice=pick % 3 == 0)
            except tlc.MachineryError:
                raise
            except _ArgumentModified as exc:
                ctx.violation(f"reward-calculate-modifies-argument-{kind}", f"{REWARD_NAME[kind]} reward: {exc}", {"state": st})
                continue
            except _NotRepeatable as exc:
                ctx.violation(f"reward-calculate-not-repeatable-{kind}", f"{REWARD_NAME[kind]} reward: {exc}", {"state": st})
                continue
            except _FactoryMismatch as exc:
                ctx.violation("reward-factory-metrics", str(exc), {"state": st})
                continue
            except Exception as exc:  # noqa: BLE001 - every exception of the real code on a valid configuration is a violation
                ctx.violation(f"reward-exception-{kind}", f"{REWARD_NAME[kind]} reward raised {type(exc).__name__}: {exc}",
                              {"state": st})
                continue
            if not _close(normed, exp_n):
                bad = ({c for c in range(len(den)) if not _close(normed[..., c], exp_n[..., c])}
                       if normed.shape == exp_n.shape else set())
                if bad and bad <= {c for c, mx in enumerate(_colmax(cube)) if 0 < mx < den[c]}:
                    ctx.violation("reward-normalize-max-below-one",
                                  "normalizeMetrics does not scale a metric whose maximum over all pairs lies strictly between 0 and 1 "
                                  "(documented: divide by the maximum whenever it is positive)",
                                  {"state": st, "got": normed.tolist()})
                else:
                    ctx.violation(f"reward-normalize-{kind}", "normalizeMetrics differs from exact normalisation",
                                  {"state": st, "got": normed.tolist()})
            elif normed.max() > 1 + 1e-12 and (np.array(cube).max(axis=(0, 1)) > 0).all():
                ctx.violation("reward-normalize-gt1", "normalised metric above one", {"state": st})
            if not _close(got, exp_r):
                # is the listing order to blame?  the same metric values listed in the documented order
                doc = tuple(k for k in DOC_ORDER if k in order)
                by_order = False
                if order != doc:
                    cube_doc = [[[cell[order.index(k)] for k in doc] for cell in row] for row in cube]
                    try:
                        den_doc = [den[order.index(k)] for k in doc]
                        by_order = _close(_real_reward(build(kind, st["delta"], doc, pick), cube_doc, den_doc)[1], exp_r)
                    except Exception:  # noqa: BLE001
                        by_order = False
                if by_order:
                    ctx.violation(f"{REWARD_NAME[kind]}-reward-metric-order",
                                  f"{REWARD_NAME[kind]} reward depends on the order in which the configuration lists the metrics "
                                  f"(order {list(order)} differs from the documented combination, order {list(doc)} agrees)",
                                  {"state": st, "got": got.tolist()})
                else:
                    ctx.violation(f"reward-value-{kind}", "Reward.calculate differs from the documented combination",
                                  {"state": st, "got": got.tolist()})
    if n == 0:
        raise tlc.MachineryError("Rewards.tla emitted no states")
    want = {"sum": 6, "cost": 6, "combined": 24}
    have = {k: len({o for kk, o in orders_seen if kk == k}) for k in want}
    if have != want:
        raise tlc.MachineryError(f"metric orders replayed {have}, expected {want}")
    ctx.traces_validated += n
    ctx.extra["reward_states_replayed"] = n
    ctx.extra["reward_metric_orders_replayed"] = have
    ctx.extra["reward_fractional_stratum_columns_by_maximum"] = max_classes
    if min(max_classes.values()) == 0:
        raise tlc.MachineryError(f"a class of column maxima was never posed: {max_classes}")


def run(ctx: Ctx):
    from .. import sched
    sched.install()
    rng = random.Random(ctx.seed * 7919 + 17)
    ctx.rule = ("records: every R over small integers for all shapes up to 3x3 (x masks), tie-heavy 4x4(+) samples, "
                "all masks for random/all-visible; non-trivial = more than one cell (ties counted); distinct by (policy,R,V). "
                "certs: random 5..40 x 5..40 integer matrices; rewards: every state of Rewards.tla = reward class x delta x "
                "every order of its metric kinds x cube (whole lattice for the documented order, kind-distinct columns for all orders), "
                "reward built by rewardsFactory from the config listing the metrics in that order, metric class rotating within its type")
    ctx.assumptions = ["documented sense of each policy: selection on R, then AND with V (Decision.calculate)",
                       "rewards are integers in the records (ties are exact); floats only inside the implementation; scaled replays "
                       "multiply them by powers of two (2^-30, 2^-24, 2^-23, 2^20: exact products and sums, ties stay ties)",
                       "Reward.normalizeMetrics may normalise the matrix it is given in place (engine usage); Reward.calculate must not "
                       "modify its argument (compared with a copy, exact) and a second calculate() on the same array must return the "
                       "same values (driver-side relations, every state / every third state; spec: CalculateKeepsArgument, RecalculateIsStuttering)",
                       "reward values / normalised metrics compared with the exact rationals to 1e-12 absolute; the metric matrix handed "
                       "to the real code is the float quotient numerator/denominator (denominators 1..4)",
                       "a reward identifies its metrics by METRIC_TYPE (class docstrings: 'one metric of each of the following types'), "
                       "so every listing order of the kinds is a valid configuration",
                       "delta other than the default is set on a copy of the validated RewardConfig (the schema's gt=0/lt=0 bounds "
                       "reject every explicit delta); the reward is still built by rewardsFactory/fromConfig"]
    from concurrent.futures import ThreadPoolExecutor
    with ThreadPoolExecutor(2) as ex:
        # non-vacuity of the scale stratum: an ABSOLUTE bonus for visible pairs must be refuted on rewards of its own
        # magnitude (and, thorough tier, is not refutable on well separated rewards: the control)
        side = {c: ex.submit(tlc.run_tlc, "Decisions", c, ctx.sub("spec_" + c[:-4]), workers=1, timeout=600)
                for c in ["Decisions_deviation_bonus.cfg"] + ([] if ctx.quick else ["Decisions_deviation_bonus_coarse.cfg"])}
        for cfgname in (["Decisions_quick.cfg"] if ctx.quick else ["Decisions_thorough2.cfg", "Decisions_thorough.cfg"]):
            spec = tlc.run_tlc("Decisions", cfgname, ctx.sub("spec_" + cfgname[:-4]), workers=ctx.cpus, timeout=6000)
            for inv, states in spec.invariant_violations:
                raise tlc.MachineryError(f"Decisions.tla theorem {inv} fails at spec level:\n" + "\n".join(states[-1:]))
            tlc.require_ok(spec, cfgname)
            ctx.add_tlc(spec, f"Decisions.tla spec-level theorems incl. ScaleInvariant ({cfgname})")
        for c, f in side.items():
            res = f.result()
            if c.endswith("coarse.cfg"):
                ctx.add_tlc(res, "Decisions.tla with deviation AbsoluteVisibleBonus on well separated rewards: NOT refutable (control)")
                tlc.require_ok(res, c)
            else:
                ctx.add_tlc(res, "Decisions.tla with deviation AbsoluteVisibleBonus (VisBonus = 1): refutation by MunkresOptimal expected")
                if [i for i, _ in res.invariant_violations] != ["MunkresOptimal"] or res.errors:
                    raise tlc.MachineryError(f"spec deviation AbsoluteVisibleBonus not refuted by MunkresOptimal: {res.invariant_violations[:1]} {res.errors[:2]}")
    ctx.extra["decision_spec_deviations_refuted"] = ["AbsoluteVisibleBonus"]
    recs = gen_records(ctx, rng)
    certs = gen_certs(ctx, rng)
    validate_records(ctx, recs, certs)
    replay_rewards(ctx)
    ctx.extra["records"] = len(recs)
    ctx.extra["certificates"] = len(certs)


def replay(ctx: Ctx, rp: dict):
    """Re-evaluate one stored record with the current tree and re-validate it."""
    from .. import sched
    sched.install()
    rec = rp["replay"].get("record")
    if not rec:
        return run(ctx)
    decs = _decisions(ctx.seed)
    rec = dict(rec)
    rec["D"] = _calc(decs[rec["p"]], rec["R"], rec["V"])
    rec.pop("pi", None), rec.pop("sg", None), rec.pop("D2", None)
    ctx.case(("replay", rec["p"], rec["R"], rec["V"]))
    ctx.case(("replay2", rec["p"]))
    validate_records(ctx, [rec], [])
