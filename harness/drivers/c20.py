"""C20 - Lambert solutions and orbit determination reproduce the arc they were given.

1. TLC checks OrbitLattice.tla with arcs: for every lattice state and dq in {1, 3} quarter turns
   (90 deg short way, 270 deg long way) the theorems ArcSameOrbit / ArcLagrange and one ARC record:
   exact end-point positions and velocities, exact time of flight as a coefficient triple
   (c_pi pi + c_acos acos e + c_1) sqrt(a^3/mu), transfer sense.
2. spec -> impl: every ARC, scaled to 2-4 sizes and unscaled, is handed to the REAL
   lambertUniversal and lambertBattin (told the true sense); both returned velocities must equal
   the spec's to 1e-8 relative.
   The minimum-energy arcs of the spec (between the mirror points (-2ae, +-p): r1 + r2 + chord = 4a,
   time of flight exactly Lambert's t_min) are replayed at t_min (exact velocities) and at
   t_min (1 +- 1e-12, 1e-9, 1e-6) (relation); seeded chords likewise.  A non-finite velocity is
   never within tolerance.
3. Seeded non-lattice arcs (e <= 0.7, transfer angle in (5, 175) u (185, 355) deg, time of flight
   below one period, both senses): RELATION only - propagating r1 with the returned v1 for the
   time of flight with the repository's own Kepler solver arrives at r2 with the returned v2.
4. radarObs2eciPosition on observations produced by the REAL measurement model
   (Observation.fromMeasurement, noise free) must return the target position.
5. LambertIOD.determineNewEstimateState through a REAL (in-memory) output database holding the
   earlier radar observation, for lattice circular orbits (90 deg arcs) and seeded near-circular
   orbits less than 40 % of a period apart, must return the orbit's state at the second epoch.
6. OrbitLatticeTrack.tla enumerates TRACKS: every time-ordered sequence of up to 4 (thorough 5)
   stored observations of kinds arc / before-detection / other-target / optical.  Each is stored
   as REAL rows and determineNewEstimateState is called with the current radar observation: with
   an eligible stored observation the result must be the orbit's state at the current observation
   whatever their number (chord and transit time from the same one - SameArc), else no solution.
   Spec mutant Pairing = "mixed" must be refuted by TLC.
"""
from __future__ import annotations

import math
import random
from datetime import datetime, timedelta

import numpy as np

from ..core import Ctx
from . import _orbits as O

LEVEL = "model_checking"

TOL_LATTICE = 1e-8       # relative, both velocities (the statement's figure; worst measured 7.7e-9)
TOL_TMIN_BATTIN = 5e-7   # Battin exactly at the minimum-energy time of flight: alpha = 2 asin sqrt(s/2a) sits at pi where
                         # asin(sqrt(.)) resolves only sqrt(eps); worst measured 9.7e-8 (after the clamp; NaN before it)
TOL_TMIN_V1 = 3e-6       # relation at / next to t_min: admissible relative error of the returned v1 (worst implied by 36000
                         # seeded chords: 6e-7, Battin; universal stays below 1e-8 there)
TMIN_FACTORS = (1e-12, -1e-12, 1e-9, -1e-9, 1e-6, -1e-6)
TOL_ARC_TIGHT = 1e-8     # seeded arcs: propagated end point accepted outright below this (relative)
TOL_ARC_V1 = 5e-7        # otherwise: admissible relative error of the returned v1 (Battin iterates to 1.48e-8 in its
                         # own variable x; 9e-8 in v1 is the worst seen), propagated to the end point to first order
TOL_RADAR_KM = 1e-6      # km, plus TOL_RADAR_REL * range: radarObs2eciPosition against the true target position
TOL_RADAR_REL = 5e-9     # (worst measured 1.3e-9 of the range: the frame rotations are inverse only to that level)
START = datetime(2021, 3, 30, 6, 0, 0)


class Sink:
    def __init__(self, ctx: Ctx):
        self.ctx = ctx
        self.count: dict = {}

    def fail(self, sig: str, what: str, replay: dict):
        n = self.count.get(sig, 0)
        self.count[sig] = n + 1
        if n < 3:
            self.ctx.violation(sig, what, replay)


class Impl:
    def __init__(self):
        from resonaate.data.observation import Observation
        from resonaate.estimation.initial_orbit_determination import LambertIOD
        from resonaate.physics.bodies import Earth
        from resonaate.physics.measurements import Measurement
        from resonaate.physics.orbit_determination import lambert
        from resonaate.physics.orbits import kepler
        from resonaate.physics.time.stardate import JulianDate, ScenarioTime, datetimeToJulianDate
        from resonaate.physics.transforms import methods
        self.mu = Earth.mu
        self.radius = Earth.radius
        self.solvers = {"universal": lambert.lambertUniversal, "battin": lambert.lambertBattin}
        self.kepler = kepler
        self.Observation = Observation
        self.LambertIOD = LambertIOD
        self.methods = methods
        self.JulianDate, self.ScenarioTime, self.dt2jd = JulianDate, ScenarioTime, datetimeToJulianDate
        self.meas = Measurement.fromMeasurementLabels(
            ["azimuth_rad", "elevation_rad", "range_km", "range_rate_km_p_sec"], np.eye(4))
        self.meas_optical = Measurement.fromMeasurementLabels(["azimuth_rad", "elevation_rad"], np.eye(2))
        # the sensor_type strings REAL sensors write on their observations (sensor_base: getTypeString(self))
        from resonaate.sensors.advanced_radar import AdvRadar
        from resonaate.sensors.optical import Optical
        from resonaate.sensors.radar import Radar
        self.radar_types = (Radar.__name__, AdvRadar.__name__)
        self.optical_type = Optical.__name__


def _vrel(a, b):
    return float(np.linalg.norm(np.asarray(a) - b) / np.linalg.norm(b))


# ------------------------------------------------------------------------------- lattice arcs
def replay_arcs(ctx: Ctx, sink: Sink, I: Impl, arcs: list):
    n = 0
    worst = {k: 0.0 for k in I.solvers}
    for arc in arcs:
        ecc = O.qf(arc["e"])
        for a_km in O.sizes_for(ecc, ctx.quick):
            S = O.Scaled(arc, a_km, I.mu)
            r1, v1, r2, v2 = S.pos(arc["r1"]), S.vel(arc["v1"]), S.pos(arc["r2"]), S.vel(arc["v2"])
            tof = O.triple(arc["tof"], ecc) * S.time_unit
            if not 0.0 < tof < S.period:
                raise O.tlc.MachineryError(f"lattice arc with time of flight {tof} outside (0, period {S.period})")
            rp = {"family": arc["fam"], "rot": arc["rot"], "q": arc["q"], "kind": arc["kind"], "a_km": a_km, "mu": S.mu,
                  "r1": r1.tolist(), "r2": r2.tolist(), "tof": tof, "transfer_method": arc["tm"],
                  "v1_exact": v1.tolist(), "v2_exact": v2.tolist()}
            n += 1
            key = (arc["fam"], str(arc["rot"]), arc["q"], arc["kind"], a_km)
            ctx.case(key, nontrivial=True, sample=rp if n in (1, 1000) else None)
            for name, solver in I.solvers.items():
                way = "short" if arc["tm"] == 1 else "long"
                try:
                    va, vb = solver(r1, r2, tof, arc["tm"], mu=S.mu)
                except Exception as ex:  # noqa: BLE001
                    sink.fail(f"lambert-{name}-lattice-exception-{way}", f"{name} raised {ex!r} on a lattice arc (e = {ecc}, {way} way)", rp)
                    continue
                err = max(_vrel(va, v1), _vrel(vb, v2))
                me = arc["minenergy"]
                tol = TOL_TMIN_BATTIN if (me and name == "battin") else TOL_LATTICE
                what = "minimum-energy arc, tof = t_min" if me else f"{90 * arc['dq']} deg"
                if not (np.all(np.isfinite(va)) and np.all(np.isfinite(vb))):
                    sink.fail(f"lambert-{name}-nonfinite-velocity" + ("-at-tmin" if me else ""),
                              f"{name} returned a non-finite velocity {np.asarray(va).tolist()} on a lattice arc (family {arc['fam']}, {what}, {way} way)", rp)
                elif not err <= tol:
                    sink.fail(f"lambert-{name}-lattice-velocity-{way}" + ("-at-tmin" if me else ""),
                              f"{name}: end-point velocities differ from the exact ones by {err:.3g} relative "
                              f"(family {arc['fam']}, {what}, {way} way)",
                              dict(rp, v1=np.asarray(va).tolist(), v2=np.asarray(vb).tolist()))
                else:
                    wk = name + ("_at_tmin" if me else "")
                    worst[wk] = max(worst.get(wk, 0.0), err)
    ctx.traces_validated += n
    ctx.extra["lattice_arcs_replayed"] = n
    ctx.extra["worst_lattice_velocity_error"] = worst


# ------------------------------------------------------------------------ seeded generic arcs
def _sensitivity(I: Impl, start: np.ndarray, tof: float, mu: float):
    """2-norms of d(end position)/d(v1) [s] and d(end velocity)/d(v1) [-] by central differences."""
    h = 1e-6 * float(np.linalg.norm(start[3:]))
    cols = []
    for j in range(3):
        d = np.zeros(6)
        d[3 + j] = h
        try:
            hi = I.kepler.solveKeplerProblemUniversal(start + d, tof, mu=mu)
            lo = I.kepler.solveKeplerProblemUniversal(start - d, tof, mu=mu)
        except Exception:  # noqa: BLE001
            hi, lo = O.propagate_elliptic(start + d, tof, mu), O.propagate_elliptic(start - d, tof, mu)
        cols.append((hi - lo) / (2 * h))
    phi = np.array(cols).T
    return float(np.linalg.norm(phi[:3], 2)), float(np.linalg.norm(phi[3:], 2))


def _new_stats(I: Impl) -> dict:
    return {"worst": {k: [0.0, 0.0] for k in I.solvers}, "fallbacks": 0, "amplified": 0}


def _propagate(I: Impl, start, tof, mu, stats):
    try:
        return I.kepler.solveKeplerProblemUniversal(start, tof, mu=mu)
    except Exception:  # noqa: BLE001 - the repository's propagator gave up: not this property's concern
        stats["fallbacks"] += 1
        if float(start[3:] @ start[3:]) >= 2 * mu / np.linalg.norm(start[:3]):
            return None
        return O.propagate_elliptic(start, tof, mu)


def _arc_relation(sink: Sink, I: Impl, r1, r2, tof, tm, mu, rp, what: str, tag: str, stats: dict, tol_v1: float = 0.0):
    """THE RELATION of C20: propagating r1 with the returned v1 for the time of flight (repository's
    own Kepler solver) arrives at r2 with the returned v2.  A non-finite velocity never passes."""
    way = "short" if tm == 1 else "long"
    for name, solver in I.solvers.items():
        try:
            va, vb = solver(r1, r2, tof, tm, mu=mu)
        except Exception as ex:  # noqa: BLE001
            sink.fail(f"lambert-{name}-exception-{way}{tag}", f"{name} raised {ex!r} on a valid arc {what}", rp)
            continue
        va, vb = np.asarray(va, float), np.asarray(vb, float)
        if not (np.all(np.isfinite(va)) and np.all(np.isfinite(vb))):
            sink.fail(f"lambert-{name}-nonfinite-velocity{tag}", f"{name} returned a non-finite velocity {va.tolist()} {what}", rp)
            continue
        start = np.concatenate([r1, va])
        end = _propagate(I, start, tof, mu, stats)
        if end is None or not np.all(np.isfinite(end)):
            sink.fail(f"lambert-{name}-arc-not-reproduced-{way}{tag}", f"{name}: returned initial velocity is not a bound orbit / not finite {what}", dict(rp, v1=va.tolist()))
            continue
        ep = float(np.linalg.norm(end[:3] - r2) / np.linalg.norm(r2))
        ev = _vrel(end[3:], vb)
        tol_p = tol_v = TOL_ARC_TIGHT
        bounded = ep > tol_p or ev > tol_v
        if bounded:
            # near a full revolution of an eccentric orbit the end point amplifies an error of v1
            # by orders of magnitude: bound by the first-order sensitivity (finite differences
            # through the same propagator)
            amp_r, amp_v = _sensitivity(I, start, tof, mu)
            rel = tol_v1 or TOL_ARC_V1
            dv1 = rel * float(np.linalg.norm(va))
            tol_p += amp_r * dv1 / float(np.linalg.norm(r2))
            tol_v += (amp_v * dv1) / float(np.linalg.norm(vb)) + rel
            stats["amplified"] += 1
        if ep > tol_p or ev > tol_v:
            sink.fail(f"lambert-{name}-arc-not-reproduced-{way}{tag}",
                      f"{name}: propagating r1 with the returned v1 for the time of flight misses r2 by {ep:.3g} |r2| "
                      f"and the returned v2 by {ev:.3g} (allowed {tol_p:.3g}, {tol_v:.3g}) {what}",
                      dict(rp, v1=va.tolist(), v2=vb.tolist(), propagated=end.tolist()))
        elif bounded:
            w = stats["worst"][name]
            w[0], w[1] = max(w[0], ep / tol_p), max(w[1], ev / tol_v)


def seeded_arcs(ctx: Ctx, sink: Sink, I: Impl, rng: random.Random):
    n_arc = 1200 if ctx.quick else 30000
    stats = _new_stats(I)
    for k in range(n_arc):
        sma = rng.uniform(6600.0, 50000.0)
        ecc = rng.choice((rng.uniform(0.0, 0.7), rng.uniform(0.0, 0.7), 0.7, 10 ** rng.uniform(-6, -2)))
        inc = math.acos(rng.uniform(-1, 1)) if k % 5 else rng.choice((0.0, math.pi, 0.5 * math.pi, 1e-7, math.pi - 1e-7))
        raan, argp, nu1 = (rng.uniform(0, O.TWOPI) for _ in range(3))
        dnu = math.radians(rng.choice((rng.uniform(5.0, 175.0), rng.uniform(185.0, 355.0))))
        if k % 7 == 0:
            dnu = math.radians(rng.choice((5.0, 175.0, 185.0, 355.0, 90.0, 270.0)))
        x1 = O.kep2cart(sma, ecc, inc, raan, argp, nu1, I.mu)
        x2 = O.kep2cart(sma, ecc, inc, raan, argp, nu1 + dnu, I.mu)
        d_m = math.fmod(O.true2mean(nu1 + dnu, ecc) - O.true2mean(nu1, ecc) + 2 * O.TWOPI, O.TWOPI)
        period = O.TWOPI * math.sqrt(sma ** 3 / I.mu)
        tof = d_m / O.TWOPI * period
        tm = 1 if dnu < math.pi else -1
        way = "short" if tm == 1 else "long"
        rp = {"sma": sma, "ecc": ecc, "inc": inc, "raan": raan, "argp": argp, "nu1": nu1, "dnu_deg": math.degrees(dnu),
              "r1": x1[:3].tolist(), "r2": x2[:3].tolist(), "tof": tof, "transfer_method": tm}
        ctx.case(("arc", round(sma, 6), round(ecc, 12), round(inc, 12), round(raan, 9), round(argp, 9), round(nu1, 9), round(dnu, 9)),
                 nontrivial=True, sample=rp if k == 0 else None)
        _arc_relation(sink, I, x1[:3], x2[:3], tof, tm, I.mu, rp,
                            f"(e = {ecc:.4f}, transfer {math.degrees(dnu):.2f} deg, tof/period = {tof / period:.4f})", "", stats)
    ctx.traces_validated += n_arc
    ctx.extra["seeded_arcs"] = n_arc
    ctx.extra["worst_error_over_allowed_among_sensitivity_bounded_arcs_pos_vel"] = stats["worst"]
    ctx.extra["repo_kepler_solver_failures_replaced_by_fallback"] = stats["fallbacks"]
    ctx.extra["seeded_arcs_judged_with_sensitivity_bound"] = stats["amplified"]



# ------------------------------------------------ the neighbourhood of the minimum-energy time
def _tmin_of_chord(r1, r2, tm, mu):
    """Lambert's minimum-energy time of flight of a chord (Battin / Vallado algorithm 59) - used to
    CHOOSE the time of flight of a seeded chord; the relation judges the answer."""
    r1m, r2m = float(np.linalg.norm(r1)), float(np.linalg.norm(r2))
    c = float(np.linalg.norm(r2 - r1))
    s = 0.5 * (r1m + r2m + c)
    beta = 2.0 * math.asin(math.sqrt((s - c) / s)) * (1.0 if tm == 1 else -1.0)
    cos_dnu = float(r1 @ r2) / (r1m * r2m)
    p_min = r1m * r2m * (1.0 - cos_dnu) / c
    ecc_min = math.sqrt(max(0.0, 1.0 - 2.0 * p_min / s))
    return math.sqrt((0.5 * s) ** 3 / mu) * (math.pi - beta + math.sin(beta)), ecc_min


def tmin_neighbourhood(ctx: Ctx, sink: Sink, I: Impl, arcs: list, rng: random.Random):
    """Times of flight t_min (1 + f), f in TMIN_FACTORS, on the specification's minimum-energy arcs
    (t_min exact) and on seeded chords (t_min from the chord geometry): relation only."""
    stats = _new_stats(I)
    n = 0
    me = [a for a in arcs if a["minenergy"]]
    sizes = (26560.0,) if ctx.quick else (None, 17100.0, 26560.0, 42164.0, 49999.9)
    for arc in me:
        ecc = O.qf(arc["e"])
        for a_km in sizes:
            S = O.Scaled(arc, a_km, I.mu)
            r1, r2 = S.pos(arc["r1"]), S.pos(arc["r2"])
            t_min = O.triple(arc["tof"], ecc) * S.time_unit
            for f in TMIN_FACTORS:
                n += 1
                rp = {"family": arc["fam"], "rot": arc["rot"], "kind": arc["kind"], "a_km": a_km, "mu": S.mu, "r1": r1.tolist(),
                      "r2": r2.tolist(), "t_min": t_min, "factor": f, "tof": t_min * (1.0 + f), "transfer_method": arc["tm"]}
                ctx.case(("tmin", arc["fam"], str(arc["rot"]), arc["kind"], a_km, f), nontrivial=True, sample=rp if n == 1 else None)
                _arc_relation(sink, I, r1, r2, t_min * (1.0 + f), arc["tm"], S.mu, rp,
                              f"(lattice minimum-energy chord, family {arc['fam']}, tof = t_min (1 {f:+.0e}))", "-near-tmin", stats, TOL_TMIN_V1)
    n_chord = 150 if ctx.quick else 4000
    k = 0
    while k < n_chord:
        r1m, r2m = rng.uniform(6700.0, 45000.0), rng.uniform(6700.0, 45000.0)
        dnu = math.radians(rng.choice((rng.uniform(10.0, 170.0), rng.uniform(190.0, 350.0), 120.0, 229.5)))
        tm = 1 if dnu < math.pi else -1
        m = O.rot3a(rng.uniform(0, O.TWOPI)) @ O.rot1a(math.acos(rng.uniform(-1, 1))) @ O.rot3a(rng.uniform(0, O.TWOPI))
        if k % 10 == 0:            # the reported geometry: equal radii 10000 km, 120 deg, in the xy-plane
            r1m = r2m = 10000.0
            dnu, tm, m = math.radians(120.0), 1, np.eye(3)
        r1 = m @ np.array([r1m, 0.0, 0.0])
        r2 = m @ np.array([r2m * math.cos(dnu), r2m * math.sin(dnu), 0.0])
        t_min, ecc_min = _tmin_of_chord(r1, r2, tm, I.mu)
        if ecc_min > 0.7:          # outside the quantifier of the property
            if k % 10 == 0:
                k += 1
            continue
        k += 1
        for f in (0.0, *TMIN_FACTORS):
            n += 1
            rp = {"r1": r1.tolist(), "r2": r2.tolist(), "dnu_deg": math.degrees(dnu), "t_min": t_min, "factor": f,
                  "tof": t_min * (1.0 + f), "transfer_method": tm, "ecc_of_minimum_energy_ellipse": ecc_min}
            ctx.case(("tmin-chord", round(r1m, 6), round(r2m, 6), round(dnu, 9), f, k), nontrivial=True)
            _arc_relation(sink, I, r1, r2, t_min * (1.0 + f), tm, I.mu, rp,
                          f"(seeded chord {r1m:.0f} / {r2m:.0f} km, {math.degrees(dnu):.1f} deg, tof = t_min (1 {f:+.0e}), e_min = {ecc_min:.3f})",
                          "-near-tmin", stats, TOL_TMIN_V1)
    ctx.traces_validated += n
    ctx.extra["arcs_at_and_near_tmin"] = n
    ctx.extra["near_tmin_worst_error_over_allowed_pos_vel"] = stats["worst"]


# --------------------------------------------------------------------------- radar inversion
def _site_state(I: Impl, rng: random.Random, when: datetime) -> np.ndarray:
    """A sensor: ground site (geodetic, incl. poles / equator / date line) or a spacecraft."""
    kind = rng.randrange(5)
    if kind == 4:
        return O.kep2cart(rng.uniform(6700, 42164), rng.uniform(0, 0.3), math.acos(rng.uniform(-1, 1)),
                          rng.uniform(0, O.TWOPI), rng.uniform(0, O.TWOPI), rng.uniform(0, O.TWOPI), I.mu)
    lat = (rng.uniform(-90, 90), rng.choice((-90.0, 90.0, 0.0, 89.999, -89.999)), rng.uniform(-90, 90), rng.uniform(-60, 60))[kind]
    lon = rng.choice((rng.uniform(-180, 180), 0.0, 180.0, -180.0, 90.0, -90.0, 179.999999))
    alt = rng.choice((0.0, rng.uniform(0.0, 5.0)))
    lla = np.array([math.radians(lat), math.radians(lon), alt])
    return np.asarray(I.methods.ecef2eci(I.methods.lla2ecef(lla), when), dtype=float)


def _observe(I: Impl, when: datetime, jd: float, target, sensor, tid=40001, sid=50001, kind: str | None = None):
    """The REAL measurement model, noise free.  kind is the sensor_type string a REAL sensor stamps on its
    observations: getTypeString(sensor) = the class name (Radar / AdvRadar / Optical, read from the sensor
    classes); the optical one measures angles only.  Default: advanced radar."""
    kind = kind or I.radar_types[-1]
    return I.Observation.fromMeasurement(epoch_jd=jd, target_id=tid, tgt_eci_state=np.asarray(target, float), sensor_id=sid,
                                         sensor_eci=sensor, sensor_type=kind,
                                         measurement=I.meas_optical if kind == I.optical_type else I.meas, noisy=False)


def radar_inversion(ctx: Ctx, sink: Sink, I: Impl, rng: random.Random):
    n_obs = 1500 if ctx.quick else 30000
    worst = 0.0
    for k in range(n_obs):
        when = START + timedelta(seconds=rng.choice((0, 60, 7, 59, 3600 * 5 + 1, rng.randrange(0, 86400 * 30))))
        jd = float(I.dt2jd(when))
        sensor = _site_state(I, rng, when)
        mode = rng.randrange(4)
        if mode == 0:      # straight overhead / straight below / on the horizon plane
            up = sensor[:3] / np.linalg.norm(sensor[:3])
            tgt = sensor[:3] + rng.choice((1.0, -1.0, 1.0)) * rng.uniform(300, 40000) * up
        elif mode == 1:    # anywhere on a sphere around the Earth
            d = np.array([rng.gauss(0, 1) for _ in range(3)])
            tgt = d / np.linalg.norm(d) * rng.uniform(6600, 50000)
        else:              # anywhere around the sensor
            d = np.array([rng.gauss(0, 1) for _ in range(3)])
            tgt = sensor[:3] + d / np.linalg.norm(d) * 10 ** rng.uniform(0, 4.7)
        target = np.concatenate([tgt, [rng.uniform(-7, 7) for _ in range(3)]])
        rp = {"epoch": when.isoformat(), "julian_date": jd, "sensor_eci": sensor.tolist(), "target_eci": target.tolist()}
        ctx.case(("radar", when.isoformat(), tuple(np.round(sensor[:3], 6)), tuple(np.round(tgt, 6))), nontrivial=True,
                 sample=rp if k == 0 else None)
        try:
            obs = _observe(I, when, jd, target, sensor)
            pos = np.asarray(I.methods.radarObs2eciPosition(obs), dtype=float)
        except Exception as ex:  # noqa: BLE001
            sink.fail(f"radar-inversion-exception-{type(ex).__name__}", f"measurement / inversion raised {ex!r}", rp)
            continue
        err = float(np.linalg.norm(pos - tgt))
        if not err <= TOL_RADAR_KM + TOL_RADAR_REL * obs.range_km:
            sink.fail("radar-inversion-position", f"radarObs2eciPosition misses the observed target by {err:.3g} km (range {obs.range_km:.1f} km)",
                      dict(rp, az=obs.azimuth_rad, el=obs.elevation_rad, range_km=obs.range_km, recovered=pos.tolist()))
        else:
            worst = max(worst, err / obs.range_km)
    ctx.traces_validated += n_obs
    ctx.extra["radar_observations_inverted"] = n_obs
    ctx.extra["worst_radar_inversion_error_over_range"] = worst


# -------------------------------------------------------------------------------------- IOD
class IodBench:
    """One in-memory output database; agents / epochs / observations are REAL rows."""

    def __init__(self, I: Impl):
        from resonaate.data.agent import AgentModel
        from resonaate.data.epoch import Epoch
        from .. import scenario_util as su
        self.I = I
        self.db = su.reset_db()
        self.Epoch = Epoch
        self.AgentModel = AgentModel
        self.sat, self.sen = 40000, 39999
        self.db.insertData(AgentModel(unique_id=self.sen, name="radar"))
        self.jd0 = float(I.dt2jd(START))
        self.epochs: set = set()
        self.k = 0
        self.other = None

    def run(self, solver, x1, x2, tof_nominal: float, sensor_seed: random.Random):
        """Store the first observation, call determineNewEstimateState with the second one.
        Every case observes its own target id (rows of earlier cases stay in the database but
        belong to other targets); the first epoch walks through one day of scenario time."""
        I = self.I
        self.k += 1
        self.sat += 1
        self.db.insertData(self.AgentModel(unique_id=self.sat, name=f"target{self.k}"))
        t1 = 60 + 97 * (self.k % 890)
        t2 = t1 + int(round(tof_nominal))
        jd1 = float(I.ScenarioTime(t1).convertToJulianDate(I.JulianDate(self.jd0)))
        jd2 = float(I.ScenarioTime(t2).convertToJulianDate(I.JulianDate(self.jd0)))
        when1, when2 = START + timedelta(seconds=t1), START + timedelta(seconds=t2)
        for jd, when in ((jd1, when1), (jd2, when2)):
            if jd not in self.epochs:
                self.epochs.add(jd)
                self.db.insertData(self.Epoch(julian_date=jd, timestampISO=when.isoformat(timespec="microseconds")))
        s1, s2 = _site_state(I, sensor_seed, when1), _site_state(I, sensor_seed, when2)
        ob1 = _observe(I, when1, jd1, x1, s1, self.sat, self.sen, I.radar_types[self.k % 2])
        ob2 = _observe(I, when2, jd2, x2, s2, self.sat, self.sen, I.radar_types[(self.k // 2) % 2])
        self.db.insertData(ob1)
        iod = I.LambertIOD(60, solver, self.sat, I.JulianDate(self.jd0))
        sol = iod.determineNewEstimateState([ob2], I.ScenarioTime(t1 - 30), I.ScenarioTime(t2))
        return sol, t2 - t1, (jd2 - jd1) * 86400.0


    def _epoch(self, t: int):
        I = self.I
        jd = float(I.ScenarioTime(t).convertToJulianDate(I.JulianDate(self.jd0)))
        when = START + timedelta(seconds=t)
        if jd not in self.epochs:
            self.epochs.add(jd)
            self.db.insertData(self.Epoch(julian_date=jd, timestampISO=when.isoformat(timespec="microseconds")))
        return jd, when

    def run_track(self, solver, kinds: list, state_at, other_state_at, gap: int, sensor_seed: random.Random):
        """Store one REAL observation row per entry of `kinds` (oldest first, `gap` seconds apart, the
        newest `gap` seconds before the current one), then call determineNewEstimateState with the
        current radar observation.  state_at(dt) is the target's true state dt seconds relative to
        the current epoch.  Returns (solution, detection time, [seconds before current of each entry])."""
        I = self.I
        self.k += 1
        self.sat += 1
        self.db.insertData(self.AgentModel(unique_id=self.sat, name=f"target{self.k}"))
        if self.other is None:
            self.other = 39998
            self.db.insertData(self.AgentModel(unique_id=self.other, name="other target"))
        n = len(kinds)
        t_cur = 36000 + 97 * (self.k % 500)
        back = [(n - i) * gap for i in range(n)]                       # seconds before the current epoch
        first_arc = next((i for i, k in enumerate(kinds) if k == "arc"), None)
        last_before = max((i for i, k in enumerate(kinds) if k == "before"), default=None)
        if first_arc is not None:
            t_det = t_cur - back[first_arc] - 30
        elif last_before is not None:
            t_det = t_cur - back[last_before] + 30
        else:
            t_det = t_cur - back[0] - 30
        for kind, b in zip(kinds, back):
            jd, when = self._epoch(t_cur - b)
            site = _site_state(I, sensor_seed, when)
            if kind == "other":
                ob = _observe(I, when, jd, other_state_at(-float(b)), site, self.other, self.sen, sensor_seed.choice(I.radar_types))
            elif kind == "optical":
                ob = _observe(I, when, jd, state_at(-float(b)), site, self.sat, self.sen, I.optical_type)
            else:                                                        # "arc" / "before": radar, this target
                # every radar kind in turn, so that a track's eligible observations cover both
                ob = _observe(I, when, jd, state_at(-float(b)), site, self.sat, self.sen, I.radar_types[(self.k + b // max(1, gap)) % len(I.radar_types)])
            self.db.insertData(ob)
        jd, when = self._epoch(t_cur)
        cur = _observe(I, when, jd, state_at(0.0), _site_state(I, sensor_seed, when), self.sat, self.sen, I.radar_types[self.k % len(I.radar_types)])
        iod = I.LambertIOD(60, solver, self.sat, I.JulianDate(self.jd0))
        return iod.determineNewEstimateState([cur], I.ScenarioTime(t_det), I.ScenarioTime(t_cur)), t_det, back


def iod_tracks(ctx: Ctx, sink: Sink, I: Impl, arcs: list, rng: random.Random, bench: "IodBench"):
    """Every track of OrbitLatticeTrack.tla on a circular lattice orbit and on a seeded near-circular one."""
    cfg = ("SPECIFICATION Spec\nCONSTANTS MaxStored = %d MaxEligible = 4 Pairing = \"%s\"\n"
           "INVARIANT SameArc\nINVARIANT OnlyEligibleUsed\nINVARIANT ResultFixed\nINVARIANT BeforeIsPrefix\n")
    res = O.tlc.require_ok(O.tlc.run_tlc("OrbitLatticeTrack", cfg % (4 if ctx.quick else 5, "same") + "INVARIANT EmitTrack\n",
                                         ctx.sub("tracks"), workers=1, timeout=600, coverage=True), "OrbitLatticeTrack")
    ctx.add_tlc(res, "OrbitLatticeTrack.tla exhaustive: tracks of stored observations, SameArc / OnlyEligibleUsed / ResultFixed")
    if not res.ok:
        raise O.tlc.MachineryError("OrbitLatticeTrack.tla fails at specification level:\n" + res.stdout[-2000:])
    for act in ("Store", "Query", "Pair"):
        if res.coverage.get(f"OrbitLatticeTrack!{act}", (0, 0))[1] == 0:
            raise O.tlc.MachineryError(f"OrbitLatticeTrack.tla action {act} never taken")
    mut = O.tlc.run_tlc("OrbitLatticeTrack", cfg % (4, "mixed"), ctx.sub("tracksmutant"), workers=1, timeout=600)
    ctx.add_tlc(mut, 'spec mutant Pairing="mixed" (chord and transit time from different observations): SameArc must be refuted')
    if not any(nm == "SameArc" for nm, _ in mut.invariant_violations):
        raise O.tlc.MachineryError("spec mutant Pairing=mixed was not refuted by SameArc:\n" + mut.stdout[-1500:])
    ctx.extra.setdefault("spec_mutants_killed", []).append("Pairing=mixed")
    tracks = sorted(res.tagged("TRACK"), key=lambda t: (len(t["track"]), t["track"]))
    if not tracks:
        raise O.tlc.MachineryError("OrbitLatticeTrack.tla emitted no tracks")
    circ = [a for a in arcs if a["e"][0] == 0 and a["kind"] == "q1"]
    n = 0
    worst = [0.0, 0.0]
    for ti, tr in enumerate(tracks):
        kinds = tr["track"]
        for variant in ("lattice", "seeded"):
            if variant == "lattice":
                arc = circ[(7 * ti) % len(circ)]
                S = O.Scaled(arc, (7000.0, 26560.0, 12000.0, 42164.0)[ti % (2 if ctx.quick else 4)], I.mu)
                r0, v0, nmot, period = S.pos(arc["r1"]), S.vel(arc["v1"]), 1.0 / S.time_unit, S.period

                def state_at(dt, r0=r0, v0=v0, nmot=nmot):              # exact rotation in the exact plane
                    c, s = math.cos(nmot * dt), math.sin(nmot * dt)
                    return np.concatenate([c * r0 + s * v0 / nmot, -s * nmot * r0 + c * v0])
                rp = {"family": arc["fam"], "rot": arc["rot"], "q": arc["q"], "a_km": S.sma}
            else:
                sma, ecc = rng.uniform(6700.0, 42164.0), rng.choice((0.0, rng.uniform(0.0, 0.02)))
                x0 = O.kep2cart(sma, ecc, math.acos(rng.uniform(-1, 1)), rng.uniform(0, O.TWOPI), rng.uniform(0, O.TWOPI),
                                rng.uniform(0, O.TWOPI), I.mu)
                period = O.TWOPI * math.sqrt(sma ** 3 / I.mu)

                def state_at(dt, x0=x0, period=period):
                    return O.propagate_elliptic(x0, dt + period, I.mu) if dt < 0 else O.propagate_elliptic(x0, dt, I.mu) if dt > 0 else x0
                rp = {"sma": sma, "ecc": ecc, "x_current": x0.tolist()}
            y0 = O.kep2cart(rng.uniform(7000.0, 30000.0), 0.01, rng.uniform(0.1, 3.0), rng.uniform(0, 6.0), 1.0, rng.uniform(0, 6.0), I.mu)

            def other_state_at(dt, y0=y0):
                return O.propagate_elliptic(y0, dt + 200000.0, I.mu)
            # all stored observations lie within 36 % of a period before the current one, at least 61 s apart
            gap = max(61, int(rng.uniform(0.15, 0.36) * period / len(kinds)))
            name = ("universal", "battin")[(ti + (variant == "seeded")) % 2]
            n += 1
            ctx.case(("iod-track", tuple(kinds), variant, name, gap, ti), nontrivial=True,
                     sample={"track": kinds, "expected": tr["expected"], "gap_s": gap, "solver": name} if n == 9 else None)
            rp = dict(rp, track=kinds, gap_s=gap, period_s=period, solver=name, expected=tr["expected"])
            try:
                sol, t_det, back = bench.run_track(I.solvers[name], kinds, state_at, other_state_at, gap, rng)
            except Exception as ex:  # noqa: BLE001
                sink.fail(f"iod-track-exception-{type(ex).__name__}", f"LambertIOD raised {ex!r} on track {kinds}", rp)
                continue
            n_el = len(tr["eligible"])
            rp = dict(rp, message=sol.message, seconds_before_current=back)
            if tr["expected"] == "no-solution":
                if sol.convergence or sol.state_vector is not None:
                    sink.fail("iod-track-used-excluded-observation",
                              f"LambertIOD returned a state although no radar observation of the target since the detection time is stored (track {kinds}): {sol.message!r}", rp)
                continue
            if not sol.convergence or sol.state_vector is None:
                why = "not-single-pass" if "single pass" in (sol.message or "") else "other"
                sink.fail(f"iod-no-solution-{why}", f"LambertIOD returned no state with {n_el} eligible stored observation(s), track {kinds}: {sol.message!r}", rp)
                continue
            x2 = state_at(0.0)
            newest = min(b for b, k in zip(back, kinds) if k == "arc")
            ep = float(np.linalg.norm(sol.state_vector[:3] - x2[:3]))
            ev = float(np.linalg.norm(sol.state_vector[3:] - x2[3:]))
            ev_allowed = np.linalg.norm(x2[3:]) * (3e-7 + 3.0 * 1e-4 / newest)     # Julian-date resolution 4e-5 s at either end
            if ep > 1e-5 or ev > ev_allowed:
                sink.fail(f"iod-track-wrong-state-{min(n_el, 2)}{'+' if n_el > 1 else ''}-eligible",
                          f"LambertIOD ({name}) with {n_el} eligible stored observation(s) (track {kinds}) returns a state "
                          f"{ep:.3g} km, {ev:.3g} km/s away from the orbit's state at the current observation (allowed 1e-5 km, {ev_allowed:.3g} km/s)",
                          dict(rp, state=np.asarray(sol.state_vector).tolist(), truth=x2.tolist()))
            else:
                worst[0], worst[1] = max(worst[0], ep), max(worst[1], ev / np.linalg.norm(x2[3:]))
    ctx.traces_validated += n
    ctx.extra["iod_track_behaviours"] = n
    ctx.extra["iod_tracks_from_spec"] = len(tracks)
    ctx.extra["worst_iod_track_error_km_and_relative_velocity"] = worst


def iod_checks(ctx: Ctx, sink: Sink, I: Impl, arcs: list, rng: random.Random):
    bench = IodBench(I)
    n = 0
    worst = [0.0, 0.0]

    def one(name, solver, x1_of_tof, period, frac, rp, lattice):
        """x1_of_tof(tof) -> (x1, x2): the true states `tof` seconds apart (tof whole seconds)."""
        nonlocal n
        tof = max(61, int(round(frac * period)))
        x1, x2 = x1_of_tof(float(tof))
        n += 1
        try:
            sol, tof_used, tof_jd = bench.run(solver, x1, x2, tof, rng)
        except Exception as ex:  # noqa: BLE001
            sink.fail(f"iod-{name}-exception-{type(ex).__name__}", f"LambertIOD raised {ex!r}", rp)
            return
        rp = dict(rp, tof_s=tof_used, tof_over_period=tof_used / period, x1=x1.tolist(), x2=x2.tolist(), message=sol.message)
        if not sol.convergence or sol.state_vector is None:
            why = "not-single-pass" if "single pass" in (sol.message or "") else "other"
            sink.fail(f"iod-no-solution-{why}", f"LambertIOD returned no state for two noise-free radar observations "
                      f"{tof_used / period:.3f} of a period apart: {sol.message!r}", rp)
            return
        ep = float(np.linalg.norm(sol.state_vector[:3] - x2[:3]))
        # the solver is handed (jd2 - jd1) * 86400, which differs from the true spacing by the
        # resolution of a Julian date (4e-5 s): allow |dv| = |v| * dt / tof on top of the solver's 1e-8
        ev_allowed = np.linalg.norm(x2[3:]) * (1e-7 + 3.0 * abs(tof_jd - tof_used) / tof_used + 3.0 * 5e-5 / tof_used)
        ev = float(np.linalg.norm(sol.state_vector[3:] - x2[3:]))
        if ep > 1e-5 or ev > ev_allowed:
            sink.fail(f"iod-{name}-wrong-state-{'lattice' if lattice else 'seeded'}",
                      f"LambertIOD ({name}) state differs from the orbit's state by {ep:.3g} km, {ev:.3g} km/s "
                      f"(allowed 1e-5 km, {ev_allowed:.3g} km/s) for observations {tof_used / period:.3f} of a period apart",
                      dict(rp, state=np.asarray(sol.state_vector).tolist()))
        else:
            worst[0], worst[1] = max(worst[0], ep), max(worst[1], ev / np.linalg.norm(x2[3:]))

    # lattice: circular family, every orientation, quarter-period arcs (dq = 1); the time of flight
    # is rounded to whole seconds (scenario times are), so the second state is re-derived by rotating
    # the exact first state in its exact plane by the exact angle n * tof
    circ = [a for a in arcs if a["e"][0] == 0 and a["kind"] == "q1"]
    sizes = (7000.0, 26560.0) if ctx.quick else (6700.0, 7000.0, 12000.0, 26560.0, 42164.0, 50000.0)
    for arc in circ:
        for a_km in sizes:
            S = O.Scaled(arc, a_km, I.mu)
            r1, v1 = S.pos(arc["r1"]), S.vel(arc["v1"])
            nmot = 1.0 / S.time_unit

            def states(tof, r1=r1, v1=v1, nmot=nmot):
                c, s = math.cos(nmot * tof), math.sin(nmot * tof)
                return (np.concatenate([r1, v1]),
                        np.concatenate([c * r1 + s * v1 / nmot, -s * nmot * r1 + c * v1]))
            name = ("universal", "battin")[n % 2]
            ctx.case(("iod-lattice", str(arc["rot"]), arc["q"], a_km, name), nontrivial=True)
            one(name, I.solvers[name], states, S.period, 0.25,
                {"family": arc["fam"], "rot": arc["rot"], "q": arc["q"], "a_km": a_km}, True)
    # seeded near-circular orbits, spacing 2 % .. 40 % of a period
    n_seed = 300 if ctx.quick else 6000
    for k in range(n_seed):
        sma = rng.uniform(6700.0, 45000.0)
        ecc = rng.choice((0.0, rng.uniform(0.0, 0.02), rng.uniform(0.0, 0.02), 10 ** rng.uniform(-7, -3)))
        inc, raan, argp, nu = math.acos(rng.uniform(-1, 1)), rng.uniform(0, O.TWOPI), rng.uniform(0, O.TWOPI), rng.uniform(0, O.TWOPI)
        period = O.TWOPI * math.sqrt(sma ** 3 / I.mu)
        frac = rng.choice((rng.uniform(0.02, 0.35), rng.uniform(0.02, 0.35), rng.uniform(0.355, 0.399)))
        if k % 10 == 9:
            # high orbits whose periods are several days: observations MORE THAN A DAY apart are still less than 40 % of a
            # period apart (seed C20/12: whole days of the time of flight dropped)
            sma, frac = rng.uniform(100000.0, 250000.0), rng.uniform(0.30, 0.399)
            period = O.TWOPI * math.sqrt(sma ** 3 / I.mu)
        x1 = O.kep2cart(sma, ecc, inc, raan, argp, nu, I.mu)

        def states(tof, x1=x1):
            return x1, O.propagate_elliptic(x1, tof, I.mu)
        name = ("universal", "battin")[k % 2]
        ctx.case(("iod-seeded", round(sma, 6), round(ecc, 12), round(inc, 9), round(nu, 9), round(frac, 9), name), nontrivial=True)
        one(name, I.solvers[name], states, period, frac,
            {"sma": sma, "ecc": ecc, "inc": inc, "raan": raan, "argp": argp, "nu": nu}, False)
    ctx.traces_validated += n
    ctx.extra["iod_cases"] = n
    ctx.extra["worst_iod_error_km_and_relative_velocity"] = worst
    iod_tracks(ctx, sink, I, arcs, rng, bench)


def run(ctx: Ctx):
    from .. import sched
    sched.install()
    rng = random.Random(ctx.seed * 15485863 + 20)
    ctx.rule = ("lattice arcs: every ARC state of OrbitLattice.tla (family with e <= 0.7 x 88 orientations x 4 start anomalies x "
                "{90 deg short way, 270 deg long way}) at 2-4 sizes and unscaled, both solvers; seeded arcs: a 6600-50000 km, "
                "e <= 0.7, all inclinations, transfer angle in [5,175] u [185,355] deg; radar: random ground sites (poles, date line, "
                "equator) and spacecraft sensors x targets overhead / anywhere; IOD: circular lattice orbits (quarter period) and "
                "seeded orbits with e <= 0.02 spaced 2-40 % of a period, through a real in-memory database; every track of OrbitLatticeTrack.tla "
                "(<= 4/5 stored observations of kinds arc/before/other/optical) on a lattice and a seeded orbit; minimum-energy arcs at t_min and "
                "t_min(1 +- 1e-12..1e-6), lattice and seeded chords; every case non-trivial "
                "(a solver iteration / a full inversion); distinct by the abstract input tuple")
    ctx.assumptions = [
        "lattice oracle exact (TLC rationals); floats enter through math.pi, math.acos(e), one division per rational and the documented scaling",
        f"lattice arcs: returned velocities within {TOL_LATTICE} relative of the exact ones (worst measured 7.7e-9, Battin 270 deg)",
        f"seeded arcs: relation only, end point reproduced to {TOL_ARC_TIGHT} relative by the repository's own solveKeplerProblemUniversal, or else within the "
        f"first-order image of a {TOL_ARC_V1} relative error of the returned v1 (sensitivity by finite differences through the same propagator; "
        "Battin's iteration tolerance 1.48e-8 is in its own variable); an independent elliptic propagator replaces the repository's only if it raises (counted)",
        "the solvers are told the true sense: +1 for transfer angles below 180 deg, -1 above",
        f"minimum-energy arcs (time of flight = Lambert's t_min, exact from the spec): universal {TOL_LATTICE}, Battin {TOL_TMIN_BATTIN} relative "
        "(2 asin sqrt(s/2a) sits at pi where asin(sqrt(.)) resolves sqrt(eps); worst measured 9.7e-8); at t_min (1 +- 1e-12 .. 1e-6) and on seeded "
        f"chords at t_min: relation with an admissible v1 error of {TOL_TMIN_V1} (worst implied 6e-7, Battin); a non-finite velocity never passes; "
        "seeded chords whose minimum-energy ellipse has e > 0.7 are outside the quantifier and skipped",
        "stored observations carry the sensor_type strings real sensors write (class names Radar / AdvRadar / Optical); radar and advanced-radar observations "
        "are eligible, optical ones are not (documented: 'Only Radar/AdvRadar Obs for Lambert IOD')",
        "IOD tracks: stored observations are evenly spaced (>= 61 s), all within 36 % of a period before the current one; eligible = radar observation of the "
        "target at/after the detection time (the documented query); which eligible one the implementation pairs is its choice, the result is fixed; "
        "velocity tolerance |v| (3e-7 + 3e-4 s / spacing) for the Julian-date resolution",
        f"radar inversion to {TOL_RADAR_KM} km + {TOL_RADAR_REL} x range (worst measured 1.3e-9 x range); epochs are whole seconds, converted with datetimeToJulianDate",
        "IOD: observation spacing is a whole number of seconds >= 61; the velocity tolerance allows for the 4e-5 s resolution of Julian dates "
        "(|v| (1e-7 + 3 (|dt_jd - dt| + 5e-5 s)/dt)); position 1e-5 km; truth at the second epoch from the exact rotation (lattice) or an independent elliptic propagator (seeded)",
        "IOD determines the transfer sense itself from a circular-orbit period estimate; spacings are kept below 40 % of the period as the statement says",
    ]
    cfg = O.lattice_cfg("FamC20Quick" if ctx.quick else "FamAll", arcs=True)
    _res, _orbits, arcs, _cases = O.run_lattice(ctx, cfg, "lattice", "OrbitLattice.tla exhaustive with transfer arcs (theorems + expected velocities), C20",
                                                coverage=not ctx.quick)
    if not arcs:
        raise O.tlc.MachineryError("OrbitLattice.tla emitted no arcs")
    impl = Impl()
    sink = Sink(ctx)
    replay_arcs(ctx, sink, impl, arcs)
    seeded_arcs(ctx, sink, impl, rng)
    tmin_neighbourhood(ctx, sink, impl, arcs, rng)
    radar_inversion(ctx, sink, impl, rng)
    iod_checks(ctx, sink, impl, arcs, rng)
    ctx.extra["violation_counts"] = dict(sorted(sink.count.items()))
