"""Shared helpers of the C16 driver: tick <-> radian projection, exact wrap oracles, the
two-body scene with four sensors that see the target on / next to an angular seam, and the
replay of one ObsGroup state into a REAL UnscentedKalmanFilter.

Nothing here decides the property: expected values come from the TLA+ specs
(spec/Angles.tla, spec/ObsGroup.tla); this module converts ticks to radians, builds real
resonaate objects and measures.
"""
from __future__ import annotations

import copy
import math
from datetime import datetime, timedelta
from fractions import Fraction

import numpy as np

N = 24
TWOPI = 2.0 * math.pi          # == resonaate.physics.constants.TWOPI (asserted in c16.run)
PI = math.pi
TAU = TWOPI / N
F_TWOPI = Fraction(TWOPI)
F_PI = Fraction(PI)


def tick_value(t: int) -> float:
    """Value (radians) of t ticks: t/N turns.  Exactly representable multiples (t/N a dyadic
    fraction such as 1/2, 1, 2, 1/4) hit the float seams exactly; the others do not."""
    return (t / N) * TWOPI


# ---- exact oracles on the ACTUAL float inputs, period = the code's float TWOPI ----------------
def exact_wrap2pi(x: Fraction) -> Fraction:
    return x - F_TWOPI * math.floor(x / F_TWOPI)


def exact_wrapneg(x: Fraction) -> Fraction:
    r = exact_wrap2pi(x)
    return r - F_TWOPI if r > F_PI else r


def circ_dist(x: float, y: float) -> float:
    return abs(math.remainder(x - y, TWOPI))


# ---- sigma point weightings ------------------------------------------------------------------
TUNINGS = {
    # label: (alpha, beta, kappa)           centre weight W0 for a 6-state filter
    "default": (0.001, 2.0, None),        # W0 ~ -2.0e6 (repository default)
    "a1": (1.0, 2.0, None),               # kappa = -3, W0 = -1
    "a1k3": (1.0, 2.0, 3.0),              # W0 = +1/3
    "a05": (0.5, 2.0, None),              # W0 = -7
    "a01": (0.1, 2.0, None),              # W0 = -199
    "a1k0": (1.0, 0.0, 0.0),              # W0 = 0
    "a1e4": (1.0e-4, 2.0, None),          # W0 ~ -2.0e8: 2-norm-normalised weights sum to ~5e-9
    "a1e5": (1.0e-5, 2.0, None),          # W0 ~ -2.0e10
}
EPOCH = datetime(2021, 3, 30, 16, 0, 0)
DT_PRED = 60.0
EST_X0 = np.array([6678.14, 0.0, 0.0, 0.0, 6.78953, 3.68641])
EST_P0 = np.diagflat([1.0, 2.0, 1.0, 1e-6, 1e-6, 2e-6])
Q0 = 1e-10 * np.eye(6)
SIGMAS = {"az": 1e-3, "el": 1.5e-3, "rng": 0.1, "rr": 1e-3}
LABEL = {"az": "azimuth_rad", "el": "elevation_rad", "rng": "range_km", "rr": "range_rate_km_p_sec"}
# sensors of one type (same sensor_type string) differ in their noise: R is scaled per sensor id
SENSOR_TYPE = {"azel": "Optical", "elaz": "Optical", "az": "Optical", "radar": "Radar", "rngaz": "Radar",
               "elrr": "Radar", "rng": "Radar"}
KIND_COMPS = {"azel": ("az", "el"), "radar": ("az", "el", "rng", "rr"), "rngaz": ("rng", "az"),
              "elrr": ("el", "rr"), "elaz": ("el", "az"), "rng": ("rng",), "az": ("az",)}
DELTA_PLACE = 1.0e-6      # rad: sub-tick placement of the predicted azimuth next to a seam
EPS_MEAS = {"az": 7.0e-4, "el": 5.0e-4, "rng": 0.05, "rr": 2.0e-4}   # measured - predicted
FAR_RANGE = 6.5           # km: range innovation of an observation the spec marks rg = 1 (|.| > pi)


def _types():
    from resonaate.physics.maths import wrapAngleNegPiPi
    from resonaate.physics.measurements import Azimuth, IsAngle

    class AzimuthSym(Azimuth):
        """The REAL azimuth function with its wrap point moved to +-pi: (-pi, pi]."""

        def calculate(self, sen_eci_state, tgt_eci_state, utc_date):
            return wrapAngleNegPiPi(super().calculate(sen_eci_state, tgt_eci_state, utc_date))

        @property
        def is_angular(self):
            return IsAngle.ANGLE_NEG_PI_PI

    return AzimuthSym


class Scene:
    """One predicted filter per tuning plus sensors placed where the spec says."""

    def __init__(self, tuning: str):
        from resonaate.dynamics.two_body import TwoBody
        from resonaate.estimation.kalman.unscented_kalman_filter import UnscentedKalmanFilter
        from resonaate.physics.time.stardate import datetimeToJulianDate, julianDateToDatetime, JulianDate
        from resonaate.physics.transforms.methods import eci2lla

        self.tuning = tuning
        alpha, beta, kappa = TUNINGS[tuning]
        f = UnscentedKalmanFilter(10001, 0.0, EST_X0.copy(), EST_P0.copy(), TwoBody(), Q0.copy(), None,
                                  alpha=alpha, beta=beta, kappa=kappa)
        f.predict(DT_PRED)
        self.filter = f
        self.date = EPOCH + timedelta(seconds=DT_PRED)
        self.jd = float(datetimeToJulianDate(self.date))
        if julianDateToDatetime(JulianDate(self.jd)) != self.date:
            raise RuntimeError("scene epoch does not survive the Julian date round trip")
        self.centre = f.sigma_points[:, 0].copy()    # zeroth sigma point = propagated estimate
        self.lla = eci2lla(self.centre, self.date)
        w = np.asarray(f.mean_weight, dtype=float)
        self.weight_cond = float(np.abs(w).sum() / abs(w.sum()))
        self.w0 = float(w[0])
        self._sensors: dict = {}
        self.AzimuthSym = _types()

    # -- geometry ------------------------------------------------------------------------------
    def _sensor_at(self, bearing: float, psi: float, alt: float) -> np.ndarray:
        from resonaate.physics.transforms.methods import lla2eci
        lat1, lon1 = float(self.lla[0]), float(self.lla[1])
        lat2 = math.asin(math.sin(lat1) * math.cos(psi) + math.cos(lat1) * math.sin(psi) * math.cos(bearing))
        lon2 = lon1 + math.atan2(math.sin(bearing) * math.sin(psi) * math.cos(lat1),
                                 math.cos(psi) - math.sin(lat1) * math.sin(lat2))
        return lla2eci(np.array([lat2, lon2, alt]), self.date)

    def sensor(self, sid: int, pv: int, ps: int, pe: int) -> tuple[np.ndarray, float, float]:
        """Sensor position from which the REAL azimuth function sees the zeroth sigma point at
        tick pv (+ ps * DELTA_PLACE) to ~1e-13 rad, at an elevation near tick pe."""
        key = (sid, pv, ps, pe)
        if key in self._sensors:
            return self._sensors[key]
        from resonaate.physics.measurements import Azimuth, Elevation
        az_t = tick_value(pv) + ps * DELTA_PLACE * (1.0 + 0.1 * sid)
        el_t = tick_value(pe)
        alt = 0.05 * sid if pe > 0 else float(self.lla[2]) + 500.0 + 50.0 * sid
        az_f, el_f = Azimuth(), Elevation()

        def meas(bearing, psi):
            s = self._sensor_at(bearing, psi, alt)
            return (float(az_f.calculate(s, self.centre, self.date)), float(el_f.calculate(s, self.centre, self.date)))

        bearing = az_t + PI
        # angular ground distance for the wanted elevation (bisection on the real elevation function)
        lo, hi = 1e-3, 0.6
        for _ in range(60):
            mid = 0.5 * (lo + hi)
            el = meas(bearing, mid)[1]
            # elevation magnitude falls with distance on both sides of the horizon plane
            if (el > el_t) == (pe > 0):
                lo = mid
            else:
                hi = mid
        psi = 0.5 * (lo + hi)
        # secant on the bearing until the real azimuth function returns the target value
        f0 = math.remainder(meas(bearing, psi)[0] - az_t, TWOPI)
        b1 = bearing - f0
        for _ in range(40):
            f1 = math.remainder(meas(b1, psi)[0] - az_t, TWOPI)
            if abs(f1) < 2e-14 or f1 == f0:
                break
            b2 = b1 - f1 * (b1 - bearing) / (f1 - f0)
            bearing, f0, b1 = b1, f1, b2
        sen = self._sensor_at(b1, psi, alt)
        az, el = meas(b1, psi)
        if abs(math.remainder(az - az_t, TWOPI)) > 1e-11 or abs(el - el_t) > 1e-3:
            raise RuntimeError(f"sensor placement failed: az {az} vs {az_t}, el {el} vs {el_t}")
        self._sensors[key] = (sen, az_t, el)
        return self._sensors[key]

    # -- observation ----------------------------------------------------------------------------
    def observation(self, o: dict):
        """REAL Measurement + Observation for one spec observation record."""
        from resonaate.data.observation import Observation
        from resonaate.physics.measurements import Azimuth, Elevation, Measurement, Range, RangeRate
        sid = o["id"]
        sen, az_t, _el = self.sensor(sid, o["pv"], o["ps"], o["pe"])
        comps = KIND_COMPS[o["kind"]]
        types, vals = [], {}
        scale = 1.0 + 0.1 * sid
        for c, comp in enumerate(comps):
            rep = o["reps"][c]
            if comp == "az":
                types.append(Azimuth() if o["mseam"] == "pos" else self.AzimuthSym())
                # u = 0: the measured value is EXACTLY the tick value (0.0, pi, ...)
                base = tick_value(o["pv"]) + (0.0 if o["u"] == 0 else
                                              o["ps"] * DELTA_PLACE * scale + o["u"] * EPS_MEAS["az"] * scale)
                v = represent(base, rep["k"], rep["s"])
            elif comp == "el":
                types.append(Elevation())
                base = float(Elevation().calculate(sen, self.centre, self.date)) + (1 if sid % 2 else -1) * EPS_MEAS["el"] * scale
                v = represent(base, rep["k"], rep["s"])
            elif comp == "rng":
                types.append(Range())
                v = float(Range().calculate(sen, self.centre, self.date)) - (FAR_RANGE if o.get("rg") else EPS_MEAS["rng"]) * scale
            else:
                types.append(RangeRate())
                v = float(RangeRate().calculate(sen, self.centre, self.date)) + EPS_MEAS["rr"] * scale
            vals[LABEL[comp]] = v
        r = np.diagflat([(SIGMAS[c] * sigma_scale(sid)) ** 2 for c in comps])
        meas = Measurement(types, r)
        return Observation(julian_date=self.jd, target_id=10001, sensor_id=sid, sensor_type=SENSOR_TYPE[o["kind"]],
                           sensor_eci=sen, measurement=meas, **vals)

    def update(self, stack: list, hist=()) -> dict:
        """Run the REAL update() on a copy of the predicted filter; project the result.  With `hist`
        the SAME filter instance first performs the updates of the earlier stacks (same prior).
        Whatever the real filter raises on these legal calls, or while its outputs are read, comes
        back as RealCodeRaised (a finding about the implementation, never a driver crash)."""
        obs_h = [[self.observation(o) for o in h] for h in hist]
        obs = [self.observation(o) for o in stack]
        f = copy.deepcopy(self.filter)
        try:
            for oh in obs_h:
                f.update(oh)
            f.update(obs)
            comps = [(o["id"], c, comp) for o in stack for c, comp in enumerate(KIND_COMPS[o["kind"]])]
            res = {"est_x": np.array(f.est_x, dtype=float), "est_p": np.array(f.est_p, dtype=float),
                   "innovation": np.array(f.innovation, dtype=float), "is_angular": np.array(f.is_angular, dtype=bool),
                   "comps": comps, "ids": [o["id"] for o in stack], "mean_pred_y": np.array(f.mean_pred_y, dtype=float),
                   "true_y": np.array(f.true_y, dtype=float), "nis": float(f.nis)}
            m = len(comps)
            if res["est_x"].shape != (6,) or res["est_p"].shape != (6, 6) or res["innovation"].shape != (m,) \
                    or res["is_angular"].shape != (m,):
                raise ValueError(f"update() left outputs of unexpected shape: est_x {res['est_x'].shape}, est_p "
                                 f"{res['est_p'].shape}, innovation {res['innovation'].shape}, is_angular {res['is_angular'].shape}")
            return res
        except Exception as ex:  # noqa: BLE001
            import traceback
            raise RealCodeRaised(type(ex).__name__, str(ex), traceback.format_exc()[-1200:]) from None


GPF_POP = 10
GPF_SEED = 20240917


class ParticleScene(Scene):
    """The same geometry for the second filter family: a REAL GeneticParticleFilter whose population is
    fixed by a seed.  update() is run with the instance's resample() replaced by a no-op (the genetic
    step draws random numbers and sorts nearly tied scores; everything before it is deterministic):
    calculateResidualsFromObservations, forecast (scores), innovation, nis, est_x, est_p."""

    def __init__(self):
        super().__init__("a1")
        from resonaate.dynamics.two_body import TwoBody
        from resonaate.estimation.particle.genetic_particle_filter import GeneticParticleFilter
        state = np.random.get_state()
        np.random.seed(GPF_SEED)
        try:
            self.gpf = GeneticParticleFilter(10001, DT_PRED, self.centre.copy(), np.array(self.filter.pred_p, dtype=float),
                                             TwoBody(), None, population_size=GPF_POP, num_purge=1, num_keep=1, num_mutate=4)
        finally:
            np.random.set_state(state)
        self._single: dict = {}

    def gpf_update(self, stack: list) -> dict:
        obs = [self.observation(o) for o in stack]
        f = copy.deepcopy(self.gpf)
        f.resample = lambda: None
        try:
            f.update(obs)
            comps = [(o["id"], c, comp) for o in stack for c, comp in enumerate(KIND_COMPS[o["kind"]])]
            res = {"residuals": np.array(f.particle_residuals, dtype=float), "is_angular": np.array(f.is_angular, dtype=bool),
                   "scores": np.array(f.scores, dtype=float), "innovation": np.array(f.innovation, dtype=float),
                   "est_x": np.array(f.est_x, dtype=float), "est_p": np.array(f.est_p, dtype=float), "comps": comps,
                   "ids": [o["id"] for o in stack]}
            m = len(comps)
            if res["residuals"].shape != (m, GPF_POP) or res["is_angular"].shape != (m,) or res["scores"].shape != (GPF_POP,) \
                    or res["innovation"].shape != (m,) or res["est_x"].shape != (6,) or res["est_p"].shape != (6, 6):
                raise ValueError(f"update() left outputs of unexpected shape: residuals {res['residuals'].shape}, is_angular "
                                 f"{res['is_angular'].shape}, scores {res['scores'].shape}, innovation {res['innovation'].shape}")
            return res
        except Exception as ex:  # noqa: BLE001
            import traceback
            raise RealCodeRaised(type(ex).__name__, str(ex), traceback.format_exc()[-1200:]) from None

    def gpf_single(self, o: dict) -> np.ndarray:
        """Residual block of ONE observation alone (same population), cached."""
        import json as _json
        k = _json.dumps(o, sort_keys=True)
        if k not in self._single:
            f = copy.deepcopy(self.gpf)
            ob = self.observation(o)
            try:
                _, r = f.calculateResidualsFromObservations([ob])
                self._single[k] = np.array(r, dtype=float)
            except Exception as ex:  # noqa: BLE001
                import traceback
                raise RealCodeRaised(type(ex).__name__, str(ex), traceback.format_exc()[-1200:]) from None
        return self._single[k]


class RealCodeRaised(Exception):
    def __init__(self, cls: str, msg: str, tb: str):
        super().__init__(f"{cls}: {msg}")
        self.cls, self.msg, self.tb = cls, msg, tb


def sigma_scale(sid: int) -> float:
    return 0.5 + 0.5 * sid          # sensor 1: nominal sigmas, sensor 4: 2.5 x


def represent(base: float, k: int, s: str) -> float:
    """The value that denotes angle `base` (radians) on branch s with k extra turns."""
    r = math.fmod(base, TWOPI)
    if r < 0:
        r += TWOPI
    if s == "sym" and r > PI:
        r -= TWOPI
    return r + k * TWOPI


def canonical(stack: list) -> list:
    """Base of a behaviour: identity order, canonical representation (ObsGroup!BaseOf)."""
    out = []
    for o in sorted(stack, key=lambda x: x["id"]):
        b = dict(o)
        b["mseam"] = "pos"
        b["reps"] = [{"k": 0, "s": "pos"} for _ in o["reps"]]
        out.append(b)
    return out
