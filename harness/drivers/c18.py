"""C18 - multiple-model estimation keeps valid probabilities and moment-matched output.

Decider/oracle: spec/MMAE.tla (life-cycle of StaticMultipleModel / GeneralizedPseudoBayesian1
with integer probability masses and exact rational moments), bound to the REAL classes in
both directions.

1. TLC checks the invariants of MMAE.tla (NonNegative, SumToOne, AtLeastOneModel, BayesRule,
   ModeMixValid, MixtureMoments, SpreadForm, HandBackIsSurvivor + side conditions TieFree,
   PruneNeverEmpties) on every state of the bounded lattices it enumerates.
2. spec -> impl: every maximal behaviour TLC enumerates (exhaustive for 2-4 models; by
   `-simulate` up to 30 models) is replayed into a real StaticMultipleModel /
   GeneralizedPseudoBayesian1 whose `models` are real UnscentedKalmanFilter instances.  The
   models carry a scalar integer mean/variance (the spec's lattice) in state channel 0 and are
   fed, through channel 1 and a real Observation, the innovation and innovation covariance that
   make the real Gaussian likelihood equal c * (the spec's integer likelihood).  After every
   update the real probabilities, model list, closed flag, combined estimate/covariance and the
   handed-back filter are compared with the spec's exact rationals (1e-9).
3. impl -> spec: real SMM/GPB1 objects over 6-D UKF models (constant-velocity or real TwoBody
   dynamics, real range/range-rate/azimuth/elevation measurements) are run on random
   observation sequences; each update is logged (prior masses, likelihoods recomputed by the
   harness from each model's logged innovation and innovation covariance, survivors after each
   prune, gate, closed, hand-back, moment identities as booleans), projected to small integers
   and validated by TLC against TraceMMAE.tla, which re-uses the actions of MMAE.tla.  The
   posterior TLC computes from the projected inputs is compared with the real weights within the
   rigorous projection error bound.
"""
from __future__ import annotations

import json
import math
import os
import random
import re
from fractions import Fraction

import numpy as np

from .. import tlc
from ..core import Ctx

LEVEL = "model_checking"
TOL = 1e-9
INVARIANTS = ["NonNegative", "SumToOne", "AtLeastOneModel", "BayesRule", "ResetOnlyOnTrueUnderflow", "ZeroStaysZero",
              "ModeMixValid",
              "MixtureMoments",
              "SpreadForm", "HandBackIsSurvivor", "NotClosedEarly", "TieFree", "PruneNeverEmpties"]

_RT: dict = {}


def rt():
    """Import resonaate lazily (after the scheduler stand-in is installed) and build helper classes."""
    if _RT:
        return _RT
    import logging
    from .. import sched
    sched.install()
    logging.disable(logging.CRITICAL)
    from resonaate.common.labels import StackingLabel
    from resonaate.data.observation import Observation
    from resonaate.dynamics.dynamics_base import Dynamics
    from resonaate.estimation.adaptive.gpb1 import GeneralizedPseudoBayesian1
    from resonaate.estimation.adaptive.mmae_stacking_utils import stackingFactory
    from resonaate.estimation.adaptive.smm import StaticMultipleModel
    from resonaate.estimation.kalman.unscented_kalman_filter import UnscentedKalmanFilter
    from resonaate.estimation.maneuver_detection import StandardNis
    from resonaate.estimation.sequential_filter import FilterFlag
    from resonaate.physics.measurements import IsAngle, Measurement, MeasurementType

    class Identity(Dynamics):
        """x(t1) = x(t0): the scalar-lattice models do not move between updates."""

        def propagate(self, initial_time, final_time, initial_state, station_keeping=None,
                      scheduled_events=None, error_flags=None):
            return np.array(initial_state, dtype=float, copy=True)

    class ConstantVelocity(Dynamics):
        """Exact linear dynamics r' = v for 6-D states (also 6 x S sigma-point matrices)."""

        def propagate(self, initial_time, final_time, initial_state, station_keeping=None,
                      scheduled_events=None, error_flags=None):
            x = np.array(initial_state, dtype=float, copy=True)
            x[:3] = x[:3] + (float(final_time) - float(initial_time)) * x[3:6]
            return x

    class Channel(MeasurementType):
        """Linear measurement: one component of the state (stored in the range_km column)."""

        LABEL = "range_km"

        def __init__(self, idx):
            self.idx = idx

        def calculate(self, sen_eci_state, tgt_eci_state, utc_date):
            return float(tgt_eci_state[self.idx])

        @property
        def is_angular(self):
            return IsAngle.NOT_ANGLE

    class Const(MeasurementType):
        """A measurement that does not depend on the state (value 0): it only enlarges the stacked
        measurement; its block of the innovation covariance is exactly its R block."""

        def __init__(self, label):
            self.LABEL = label

        def calculate(self, sen_eci_state, tgt_eci_state, utc_date):
            return 0.0

        @property
        def is_angular(self):
            return IsAngle.NOT_ANGLE

    _RT.update(Const=Const, Observation=Observation, GPB1=GeneralizedPseudoBayesian1, SMM=StaticMultipleModel,
               UKF=UnscentedKalmanFilter, StandardNis=StandardNis, FilterFlag=FilterFlag,
               Measurement=Measurement, Identity=Identity, ConstantVelocity=ConstantVelocity, Channel=Channel,
               stack=stackingFactory(StackingLabel.ECI_STACKING))
    return _RT


# --------------------------------------------------------------------------------------------
# spec side
# --------------------------------------------------------------------------------------------
def mu_of(lay, mid):
    return ((mid * (lay + 1) + lay * lay) % 7) - 3


def var_of(lay, mid):
    return 1 + ((mid + lay) % 3)


def cfg_text(*, kinds, nmodels, lvals, th, pct, mix, layouts, max_updates, big_n, noobs_at, keep_hist,
             gpb_big_n=99, emit=True):
    def s(xs):
        return "{" + ", ".join(str(x) for x in xs) + "}"
    lines = ["SPECIFICATION Spec",
             "CONSTANTS Kinds = {" + ", ".join(json.dumps(k) for k in kinds) + "}",
             f"CONSTANTS NModels = {s(nmodels)} LVals = {s(lvals)} Layouts = {s(layouts)}",
             f"CONSTANTS MaxUpdates = {max_updates} BigN = {big_n} GpbBigN = {gpb_big_n} NoObsAt = {s(noobs_at)}",
             f"CONSTANT KeepHist = {'TRUE' if keep_hist else 'FALSE'}",
             f"CONSTANT Thresholds <- {th}", f"CONSTANT Pcts <- {pct}", f"CONSTANT MixRatios <- {mix}"]
    lines += [f"INVARIANT {i}" for i in INVARIANTS]
    if emit and keep_hist:
        lines.append("INVARIANT Emit")
    return "\n".join(lines) + "\n"


def spec_must_hold(res, what):
    tlc.require_ok(res, what)
    for inv, states in res.invariant_violations:
        raise tlc.MachineryError(f"{what}: MMAE.tla invariant {inv} fails at spec level:\n" + "\n".join(states[-1:]))
    if not res.ok:
        raise tlc.MachineryError(f"{what}: TLC did not finish cleanly:\n" + res.stdout[-1500:])


# --------------------------------------------------------------------------------------------
# spec -> impl replay on the scalar lattice
# --------------------------------------------------------------------------------------------
R_LAT = 0.02          # measurement noise variance of the prepared channel
JD0 = 2459304.25


R_TINY = 2.0 ** -40   # noise of the prepared channel in updates that carry an infinite NIS
BIG = 2.0 ** 495      # innovation with BIG^2 finite (spread terms stay finite) and BIG^2 / R_TINY = inf


def _lat_obs(y, t, var=R_LAT):
    r = rt()
    key = ("lat_meas", var)
    if key not in _RT:
        _RT[key] = r["Measurement"]([r["Channel"](1)], np.array([[var]]))
    return r["Observation"](julian_date=JD0 + t / 86400.0, target_id=10001, sensor_id=200001, sensor_type="AdvRadar",
                            sensor_eci=np.zeros(6), measurement=_RT[key], range_km=float(y))


COLS = ("range_km", "range_rate_km_p_sec", "azimuth_rad", "elevation_rad")
# regimes of one replayed update: (name, signature tag, number of stacked 4-D pad observations, pad variance)
REGIMES = {
    "plain": ("", 0, 1.0),
    "small": ("-likelihoods-small-not-underflowed", 0, 1.0),
    "detsmall3": ("-determinant-underflow", 3, 1e-30), "detsmall10": ("-determinant-underflow", 10, 1e-10),
    "detbig3": ("-determinant-overflow", 3, 1e30), "detbig10": ("-determinant-overflow", 10, 1e10),
}


# regimes with a likelihood scale in which a naive evaluation misbehaved (D41, fixed by 6aa2f88): named in the text
REGIME_SIGNATURE = {
    "-likelihoods-small-not-underflowed": "reset-without-underflow",
    "-determinant-overflow": "reset-without-underflow-determinant-overflow",
    "-determinant-underflow": "nan-probabilities-determinant-underflow",
}


def _pad_obs(t, var):
    """An observation of four state-independent zero measurements with variance `var` and innovation 0:
    it multiplies every model's likelihood by the same factor (2 pi var)^-2 and nothing else."""
    r = rt()
    key = ("pad_meas", var)
    if key not in _RT:
        _RT[key] = r["Measurement"]([r["Const"](c) for c in COLS], var * np.eye(4))
    return r["Observation"](julian_date=JD0 + t / 86400.0, target_id=10001, sensor_id=200002, sensor_type="AdvRadar",
                            sensor_eci=np.zeros(6), measurement=_RT[key], range_km=0.0, range_rate_km_p_sec=0.0,
                            azimuth_rad=0.0, elevation_rad=0.0)


def _lat_model(lay, mid):
    r = rt()
    return r["UKF"](10001, 0.0, np.array([float(mu_of(lay, mid)), 0.0]), np.diag([float(var_of(lay, mid)), 1.0]),
                    r["Identity"](), np.zeros((2, 2)), None, False, False, alpha=1.0, kappa=2.0)
    # alpha = 1, kappa = 2 with two states: sigma-point weights 1/2 and 1/8 (exact in binary), so a model whose
    # prepared channel sits at -2^495 keeps exactly zero spread, zero gain and an untouched lattice channel


def _raised_in_mmae(ex):
    """True iff the exception belongs to the adaptive-estimation code: the innermost frame that is resonaate's
    own lies in estimation/adaptive/ (numpy frames below it do not count); a failure inside a model filter, the
    dynamics or the harness' stand-ins is not."""
    import traceback
    own = [fr.filename.replace("\\", "/") for fr in traceback.extract_tb(ex.__traceback__)
           if "/resonaate/" in fr.filename.replace("\\", "/")]
    return bool(own) and "/estimation/adaptive/" in own[-1]


def make_mmae(kind, nominal, models, th, pct, mix=None):
    """What AdaptiveFilter.initialize() leaves behind, without its database queries."""
    r = rt()
    n = len(models)
    if kind == "smm":
        f = r["SMM"](nominal, 60.0, None, r["stack"], 1, 60, th, pct)
    else:
        f = r["GPB1"](nominal, 60.0, None, r["stack"], 1, 60, th, pct, mix_ratio=mix)
    f.flags |= r["FilterFlag"].ADAPTIVE_ESTIMATION_START
    f.models = list(models)
    f.num_models = n
    f.model_likelihoods = np.ones(n)
    f.model_weights = np.ones(n) / n
    f.mode_probabilities = np.ones(n) / n
    return f


def _q(x):
    return x[0] / x[1]


def _mixture(models, p):
    xs = np.array([m.est_x for m in models], dtype=float)
    mean = p @ xs
    cov = np.zeros((xs.shape[1], xs.shape[1]))
    for m, w, x in zip(models, p, xs):
        d = x - mean
        cov += w * (np.asarray(m.est_p, dtype=float) + np.outer(d, d))
    return mean, cov


def _moment_flags(f, models, p, scale_tol=TOL):
    """Logged invariants of the combined estimate: weighted-mean identity, moment identity, symmetry, PSD."""
    mean, cov = _mixture(models, np.asarray(p, dtype=float))
    ex, ep = np.asarray(f.est_x, dtype=float), np.asarray(f.est_p, dtype=float)
    sx = max(1.0, float(np.max(np.abs(mean))))
    sp = max(1.0, float(np.max(np.abs(cov))))
    finite = bool(np.all(np.isfinite(ex)) and np.all(np.isfinite(ep)))
    mean_ok = finite and bool(np.max(np.abs(ex - mean)) <= scale_tol * sx)
    mom_ok = finite and bool(np.max(np.abs(ep - cov)) <= scale_tol * sp)
    sym_ok = finite and bool(np.max(np.abs(ep - ep.T)) <= scale_tol * sp)
    # a mixture is PSD when its members are; a member filter's own round-off deficit is not the mixture's fault
    floor = 0.0
    for m in models:
        pm = np.asarray(m.est_p, dtype=float)
        if np.all(np.isfinite(pm)):
            floor = min(floor, float(np.min(np.linalg.eigvalsh((pm + pm.T) / 2))))
    psd_ok = finite and bool(np.min(np.linalg.eigvalsh((ep + ep.T) / 2)) >= 2 * floor - scale_tol * sp)
    return mean_ok, mom_ok, sym_ok, psd_ok


def replay_behaviour(beh, seed):
    """Replay one TLC behaviour into the real classes. Returns (violations, stats)."""
    r = rt()
    cfg = beh["cfg"]
    kind, n, lay = cfg["kind"], cfg["n"], cfg["lay"]
    rng = random.Random(seed)
    viol = []
    models = [_lat_model(lay, i + 1) for i in range(n)]
    ident = {id(m): i + 1 for i, m in enumerate(models)}
    nominal = _lat_model(lay, 1)
    nominal.maneuver_detection = r["StandardNis"](0.01)
    f = make_mmae(kind, nominal, models, _q(cfg["th"]), _q(cfg["pct"]), _q(cfg["mix"]))
    t = 0.0
    steps = 0
    alt = False
    stale_dim = 0

    def bad(clause, what, k, extra=None):
        tag = f"{kind}-{clause}"
        for rt_ in REGIME_SIGNATURE:       # the regime of the update is part of the text, not of the signature
            if clause.endswith(rt_):
                tag, what = f"{kind}-{clause[:-len(rt_)]}", f"[regime {rt_[1:]}] {what}"
        viol.append((tag, f"real {type(f).__name__}: {what} (update {k + 1})",
                     {"behaviour": beh, "step": k, "seed": seed, "detail": extra}))

    for k, st in enumerate(beh["hist"]):
        before = list(f.models)
        ids_before = [ident[id(m)] for m in before]
        t += 60.0
        y = rng.uniform(-2.0, 2.0)
        if st["obs"]:
            L = st["L"]
            if len(L) != len(before):
                raise tlc.MachineryError(f"behaviour/implementation lost sync before step {k}: {beh}")
            lmax = max([v for v in L if v > 0] or [1])
            # g = 2: the specification says the gate is not consulted in this update, so its value must
            # not matter: realise it as "would hold" or "would fail" at random
            gate_true = st["g"] == 1 or (st["g"] == 2 and rng.random() < 0.5)
            # The likelihoods of one update are c * (integer likelihood of the spec); Bayes' rule does not
            # depend on c, so c is drawn from regimes in which a naive evaluation misbehaves although every
            # non-zero likelihood is representable: all NIS in 70..1300, det(S) under/overflowing.
            regime = rng.choices(["plain", "small", "detsmall3", "detsmall10", "detbig3", "detbig10"],
                                 weights=(54, 20, 10, 3, 10, 3))[0]
            if regime == "small" and gate_true:
                regime = "plain"
            rtag, npad, pvar = REGIMES[regime]
            pad_logdet = 4 * npad * math.log(pvar)
            # "gate fails": combined NIS far above any chi-square bound of the stacked dimension 1 + 4 npad
            base = 0.0 if gate_true else (rng.choice((70.0, 150.0, 600.0, 1300.0)) if regime == "small"
                                          else 30.0 + 8.0 * npad)
            # 0 in the spec = TRUE underflow: exp(log-likelihood) is 0.0 in IEEE double however it is evaluated;
            # realised as NIS ~ 2000 (underflows in exp only) or as an INFINITE NIS (the log-likelihood is -inf too)
            # (and 2000 above the live models, so that its posterior is 0.0 exactly in a log-domain evaluation too)
            nis_zero = 2000.0 + base + max(0.0, -pad_logdet)
            pri = np.asarray(f.model_weights if kind == "smm" else f.mode_probabilities, dtype=float)
            all_zero = all(pri[j] == 0.0 or L[j] == 0 for j in range(len(L)))      # no model keeps any mass
            zero_prior = bool(np.any(pri == 0.0))
            if all_zero:
                gate_true = False         # every NIS is beyond any chi-square bound
                base = 30.0 + 8.0 * npad
                nis_zero = 2000.0 + base + max(0.0, -pad_logdet)
            # total loss of mass: an evaluation with logarithms still ranks the models unless every log mass is
            # -inf, so either (a) every model that had mass gets an infinite NIS (fallback in any evaluation), or
            # (b) prior * likelihood is made equal for all models (fallback and Bayes' rule coincide); with a
            # zero prior among the models only (a) makes the two coincide
            total_inf = all_zero and (zero_prior or rng.random() < 0.5)
            use_inf = [False] * len(L)
            for j, lv in enumerate(L):
                if total_inf:
                    use_inf[j] = pri[j] > 0.0
                elif lv == 0 and not all_zero and not gate_true:
                    use_inf[j] = rng.random() < 0.5     # mixed regime: one model dead, the others alive
            r_var = R_TINY if any(use_inf) else R_LAT
            logw = []
            for j, (m, lv) in enumerate(zip(before, L)):
                if use_inf[j]:
                    nis, s_m = math.inf, 1.0
                elif all_zero and pri[j] > 0.0:
                    # (b): the documented fallback (SMM uniform, GPB1 prior) equals Bayes' rule on the log-likelihoods
                    nis = nis_zero + (2.0 * math.log(pri[j] / pri[pri > 0].min()) if kind == "smm" else 0.0)
                    s_m = 1.0
                elif lv == 0:
                    nis, s_m = nis_zero + rng.uniform(0.0, 200.0), math.exp(-rng.uniform(0.0, 1.0))
                else:
                    d = rng.uniform(0.0, 0.08) if gate_true else rng.uniform(0.0, 3.0)
                    nis, s_m = base + d, math.exp(-d) * (lmax / lv) ** 2
                dim = 1 + 4 * npad
                logw.append(math.log(pri[j]) - 0.5 * nis - 0.5 * (dim * math.log(2 * math.pi) + math.log(s_m) + pad_logdet)
                            if pri[j] > 0 else -math.inf)
                nu = BIG if use_inf[j] else math.sqrt(nis * s_m) * rng.choice((-1.0, 1.0))
                m.est_x = np.array([m.est_x[0], y - nu])
                p = np.array(m.est_p, dtype=float, copy=True)
                p[0, 1] = p[1, 0] = 0.0
                p[1, 1] = s_m - r_var
                m.est_p = p
            obs = [_lat_obs(y, t, r_var)] + [_pad_obs(t, pvar) for _ in range(npad)]
            # total mass as a naive evaluation sees it (the code normalises the Gaussian with the measurement
            # dimension of the PREVIOUS update): representable but below 1e-14 is the same regime as "small"
            top = max(logw)
            naive = -math.inf if top == -math.inf else (top + math.log(sum(math.exp(v - top) for v in logw))
                                                        + 0.5 * (dim - stale_dim) * math.log(2 * math.pi))
            if not all_zero and not rtag and naive < math.log(1e-14):
                rtag = REGIMES["small"][0]
            stale_dim = dim
        else:
            obs, rtag, regime = [], "", "plain"
            for m in before:        # a model left at -2^495 by an infinite-NIS update: put its prepared channel back
                if abs(m.est_x[1]) > 1e100 or m.est_p[1, 1] <= 0.0:
                    m.est_x = np.array([m.est_x[0], 0.0])
                    p = np.array(m.est_p, dtype=float, copy=True)
                    p[0, 1] = p[1, 0] = 0.0
                    p[1, 1] = 1.0
                    m.est_p = p
        try:
            f.predict(t)
            f.update(obs)
        except Exception as ex:  # noqa: BLE001 - a crash inside the adaptive-estimation code is a finding
            if not _raised_in_mmae(ex):
                raise tlc.MachineryError(f"replay input made a model filter fail: {type(ex).__name__}: {ex}") from ex
            bad(f"update-raises:{type(ex).__name__}", f"update() raised {type(ex).__name__}: {ex}", k,
                {"models_before": ids_before})
            break
        steps += 1
        ids_after = [ident.get(id(m), 0) for m in f.models]
        closed = r["FilterFlag"].ADAPTIVE_ESTIMATION_CLOSE in f.flags
        w = np.asarray(f.model_weights, dtype=float)
        tot = sum(st["mass"])
        exp_w = np.array([x / tot for x in st["mass"]])
        suffix = ("-after-reset" if st["reset"] else ("-all-below-threshold" if st["adm"] else "")) + rtag
        # --- structure: arrays stay parallel, at least one model
        if not (len(f.models) == f.num_models == len(w) == len(f.model_likelihoods) == len(f.mode_probabilities)):
            bad("arrays-not-parallel", f"models/num_models/weights/likelihoods/mode lengths differ: {len(f.models)}/"
                f"{f.num_models}/{len(w)}/{len(f.model_likelihoods)}/{len(f.mode_probabilities)}", k)
            break
        if len(f.models) < 1:
            bad("no-model-left", "no model remains", k)
            break
        if not np.all(np.isfinite(w)) or np.any(w < 0) or abs(float(w.sum()) - 1.0) > TOL:
            bad("probabilities-invalid" + suffix, f"weights not a probability vector: {w.tolist()}", k)
            break
        # --- which models survive
        if ids_after != st["ids"]:
            if len(ids_after) == 1 and ids_after[0] in st["adm"]:
                alt = True      # every model was below the threshold: this survivor is admissible too
                break
            bad("models-mismatch" + suffix, f"models after update {ids_after}, specification {st['ids']} "
                f"(before: {ids_before})", k, {"weights": w.tolist()})
            break
        if np.max(np.abs(w - exp_w)) > TOL:
            bad("probabilities-mismatch" + suffix, f"weights {w.tolist()} differ from Bayes rule {exp_w.tolist()}"
                + (f" [regime {regime}: every non-zero likelihood of the specification is representable in double]"
                   if rtag else ""), k)
            break
        if kind == "gpb1":
            mp = np.asarray(f.mode_probabilities, dtype=float)
            exp_m = np.array(st["mode"], dtype=float) / sum(st["mode"])
            if not np.all(np.isfinite(mp)) or np.max(np.abs(mp - exp_m)) > TOL:
                bad("mode-probabilities-mismatch" + suffix, f"mode probabilities {mp.tolist()} differ from "
                    f"{exp_m.tolist()}", k)
                break
        if closed != st["closed"] or (f.converged_filter is not None) != st["closed"]:
            bad("closed-mismatch", f"closed flag {closed} (converged_filter {f.converged_filter is not None}), "
                f"specification {st['closed']}", k, {"weights": w.tolist(), "gate": st["g"]})
            break
        # --- combined estimate: exact lattice values and the matrix identities
        ex, ep = np.asarray(f.est_x, dtype=float), np.asarray(f.est_p, dtype=float)
        if not (np.all(np.isfinite(ex)) and np.all(np.isfinite(ep))):
            bad("combined-not-finite", "combined estimate/covariance not finite", k)
            break
        if abs(ex[0] - _q(st["mean"])) > TOL:
            bad("combined-mean", f"combined mean {ex[0]!r} differs from the probability-weighted mean "
                f"{st['mean']}", k)
            break
        if abs(ep[0, 0] - _q(st["cov"])) > TOL:
            bad("combined-covariance", f"combined variance {ep[0, 0]!r} differs from the moment-matched "
                f"value {st['cov']}", k)
            break
        mean_ok, mom_ok, sym_ok, psd_ok = _moment_flags(f, f.models, exp_w)
        if st["obs"] and total_inf:
            # every model sits at -2^495 in the prepared channel with non-zero weight: that channel's moments are
            # round-off of 2^495; the lattice channel was compared exactly above
            mean_ok = mom_ok = sym_ok = psd_ok = True
        if not (mean_ok and mom_ok and sym_ok and psd_ok):
            bad("combined-matrix-identity", f"combined 2x2 estimate fails mean/moment/symmetry/PSD identities "
                f"{(mean_ok, mom_ok, sym_ok, psd_ok)}", k)
            break
        if closed:
            cf = f.converged_filter
            hb = beh["hb"]
            ok = (isinstance(cf, r["UKF"]) and abs(cf.est_x[0] - _q(hb["mean"])) <= TOL
                  and abs(cf.est_p[0, 0] - _q(hb["cov"])) <= TOL and cf.time == f.time
                  and np.allclose(cf.est_x, f.est_x, rtol=0, atol=1e-12)
                  and np.allclose(cf.est_p, f.est_p, rtol=0, atol=1e-12))
            if ok and kind == "smm":
                sv = f.models[0]
                ok = (len(f.models) == 1 and ids_after == hb["ids"]
                      and np.allclose(cf.est_x, sv.est_x, rtol=0, atol=1e-12)
                      and np.allclose(cf.est_p, sv.est_p, rtol=0, atol=1e-12))
            if not ok:
                bad("handback", f"handed-back filter is not the {'surviving model' if kind == 'smm' else 'mixture'} "
                    f"(expected mean {hb['mean']} var {hb['cov']} ids {hb['ids']})", k)
            break
    return viol, {"steps": steps, "alt": alt}


def _behaviour_key(beh):
    c = beh["cfg"]
    return (c["kind"], c["n"], tuple(c["th"]), tuple(c["pct"]), tuple(c["mix"]), c["lay"],
            tuple((tuple(s["L"]), s["g"], s["obs"], tuple(s["ids"])) for s in beh["hist"]))


def _replay_chunk(args):
    chunk, seed = args
    out = []
    steps = alts = 0
    for idx, beh in chunk:
        v, st = replay_behaviour(beh, seed * 1000003 + idx)
        steps += st["steps"]
        alts += int(st["alt"])
        out.extend(v)
    return out, steps, alts


def _pool_map(fn, jobs):
    """Map over the worker pool forked in run() (or in-process when there is none, e.g. --replay)."""
    pool = _RT.get("pool")
    if pool is None:
        return [fn(j) for j in jobs]
    return pool.map(fn, jobs, chunksize=1)


def replay_all(ctx: Ctx, behs, label):
    """Replay behaviours in the pool of forked workers (resonaate imported once, before the fork)."""
    if not behs:
        raise tlc.MachineryError(f"{label}: TLC produced no behaviours")
    indexed = list(enumerate(behs))
    nchunks = max(1, min(64, len(behs) // 100))
    chunks = [indexed[i::nchunks] for i in range(nchunks)]
    results = _pool_map(_replay_chunk, [(c, ctx.seed) for c in chunks])
    steps = alts = 0
    for out, s_, a in results:
        steps += s_
        alts += a
        for sig, what, rp in out:
            ctx.violation(sig, what, rp)
    for i, beh in enumerate(behs):
        h = beh["hist"]
        nontrivial = len(h) >= 2 or any(s["reset"] or len(s["adm"]) > 1 for s in h)
        ctx.case(_behaviour_key(beh), nontrivial=nontrivial,
                 sample={"replayed_behaviour": {"cfg": beh["cfg"], "L": [s["L"] for s in h],
                                                "closed": beh["closed"]}} if i in (7, len(behs) // 2) else None)
    ctx.traces_validated += len(behs)
    ctx.extra[f"replayed_{label}"] = {"behaviours": len(behs), "updates": steps,
                                      "admissible_alternative_branches": alts}


# --------------------------------------------------------------------------------------------
# impl -> spec: traces of real objects over 6-D filters
# --------------------------------------------------------------------------------------------
WQ = 4000      # integer scale of logged probabilities
LQ = 1000      # integer scale of logged likelihood ratios (largest likelihood = LQ)
GATE_LOG: list = []
TRACE_TH = [(3, 101), (5, 101), (10, 101), (20, 101), (30, 101)]
TRACE_PCT = [(34, 101), (45, 101), (51, 101), (67, 101), (80, 101), (91, 101), (97, 101)]
TRACE_MIX = [(3, 2), (2, 1), (1, 2), (5, 1)]
SENSOR = np.array([6378.0, 0.0, 0.0, 0.0, 0.465, 0.0])
TRUTH0 = np.array([6900.0, 600.0, 300.0, -0.5, 6.5, 3.7])
P0 = np.diag([1.0, 1.0, 1.0, 1e-4, 1e-4, 1e-4])


def _install_gate_recorder():
    """Pass-through wrappers around the chi-square gate as the two update() methods see it."""
    if _RT.get("gate_wrapped"):
        return
    import resonaate.estimation.adaptive.gpb1 as gpb1_mod
    import resonaate.estimation.adaptive.smm as smm_mod

    def wrap(fn):
        def recorder(*a, **k):
            res = fn(*a, **k)
            GATE_LOG.append(bool(res))
            return res
        return recorder
    smm_mod.oneSidedChiSquareTest = wrap(smm_mod.oneSidedChiSquareTest)
    gpb1_mod.oneSidedChiSquareTest = wrap(gpb1_mod.oneSidedChiSquareTest)
    _RT["gate_wrapped"] = True


def _measurement(which):
    r = rt()
    key = ("meas", which)
    if key in _RT:
        return _RT[key]
    if which == "radar4":
        m = r["Measurement"].fromMeasurementLabels(["azimuth_rad", "elevation_rad", "range_km", "range_rate_km_p_sec"],
                                                   np.diag([1e-6, 1e-6, 1e-2, 1e-6]))
    elif which == "advradar4":     # the AdvRadar noise of the repository's test configurations (det ~ 2.9e-38)
        m = r["Measurement"].fromMeasurementLabels(["azimuth_rad", "elevation_rad", "range_km", "range_rate_km_p_sec"],
                                                   np.diag([2.38820057e-11, 3.73156339e-11, 9.0e-08, 3.61e-10]))
    elif which == "optical2":
        m = r["Measurement"].fromMeasurementLabels(["azimuth_rad", "elevation_rad"], np.diag([1e-6, 1e-6]))
    elif which == "rr2":
        m = r["Measurement"].fromMeasurementLabels(["range_km", "range_rate_km_p_sec"], np.diag([1e-2, 1e-6]))
    else:   # "lin3*": three position components through custom linear channels
        chans = []
        for idx, lab in ((0, "range_km"), (1, "azimuth_rad"), (2, "elevation_rad")):
            c = r["Channel"](idx)
            c.LABEL = lab
            chans.append(c)
        var = {"lin3": 0.04, "lin3tiny": 1e-12, "lin3big": 1e9}[which]
        m = r["Measurement"](chans, var * np.eye(3))
    _RT[key] = m
    return m


def _observe(which, truth, t, nrng, noise=1.0):
    r = rt()
    meas = _measurement(which)
    ob = r["Observation"].fromMeasurement(epoch_jd=JD0 + t / 86400.0, target_id=10001, tgt_eci_state=truth,
                                          sensor_id=200001, sensor_eci=SENSOR, sensor_type="AdvRadar",
                                          measurement=meas, noisy=False)
    for lab, sd in zip(meas.labels, np.sqrt(np.diag(meas.r_matrix))):
        setattr(ob, lab, float(getattr(ob, lab) + noise * sd * nrng.standard_normal()))
    return ob


def _quant(v, scale=WQ):
    return [int(round(scale * float(x))) for x in v]


def _intervals(w_int, l_int, exact_l, alive):
    """Rigorous bounds on posterior probabilities given integer-projected prior and likelihood."""
    lo, hi = {}, {}
    for k in alive:
        wl, wh = max(w_int[k] - 0.5, 0.0), w_int[k] + 0.5
        if exact_l[k]:
            ll = lh = float(l_int[k])
        else:
            ll, lh = max(l_int[k] - 0.5, 0.0), l_int[k] + 0.5
        lo[k], hi[k] = wl * ll, wh * lh
    slo, shi = sum(lo.values()), sum(hi.values())
    out = {}
    for k in alive:
        dl = lo[k] + (shi - hi[k])
        dh = hi[k] + (slo - lo[k])
        out[k] = (lo[k] / dl if dl > 0 else 0.0, hi[k] / dh if dh > 0 else 1.0)
    return out, slo


def gen_trace(tid, seed, max_steps):
    """Run one real SMM/GPB1 object on a random observation sequence; return (records, aux, violations)."""
    r = rt()
    _install_gate_recorder()
    rng = random.Random(seed)
    nrng = np.random.default_rng(seed)
    kind = "smm" if rng.random() < 0.6 else "gpb1"
    n = rng.choice([2, 2, 3, 3, 4, 4, 5, 6, 6, 8, 10, 12, 16, 20, 30])
    which = rng.choice(["radar4", "radar4", "optical2", "rr2", "lin3", "lin3"])
    two_body = rng.random() < 0.12
    th, pct, mix = rng.choice(TRACE_TH), rng.choice(TRACE_PCT), rng.choice(TRACE_MIX)
    scenario = rng.choice(["normal", "normal", "normal", "one-good", "all-dead", "all-fair", "late-jump", "late-jump"])
    if two_body:
        from resonaate.dynamics.two_body import TwoBody
        dyn = TwoBody()
    else:
        dyn = r["ConstantVelocity"]()
    chol = np.linalg.cholesky(P0)
    q = 1e-8 * np.eye(6)
    models = []
    for i in range(n):
        cls = rng.choices(["good", "fair", "dead"], weights=(6, 3, 1))[0]
        if scenario == "one-good":
            cls = "good" if i == rng.randrange(n) or rng.random() < 0.15 else rng.choice(["dead", "fair"])
        elif scenario == "all-dead":
            cls = "dead"
        elif scenario == "all-fair":
            cls = "fair"
        a = {"good": rng.uniform(0.2, 1.0), "fair": rng.uniform(1.5, 4.0), "dead": 300.0}[cls]
        sc = rng.uniform(0.6, 1.8)
        off = a * sc * (chol @ nrng.standard_normal(6))
        if cls == "dead":
            off[3:] *= 0.01          # a wrong position, not a different orbit
        if np.linalg.norm(TRUTH0[:3] + off[:3]) < 6700.0:     # keep every hypothesis above the Earth
            off = -off
        x = TRUTH0 + off
        models.append(r["UKF"](10001, 0.0, x, sc * sc * P0, dyn, q, None, False, False))
    ident = {id(m): i + 1 for i, m in enumerate(models)}
    nominal = r["UKF"](10001, 0.0, TRUTH0.copy(), P0.copy(), dyn, q, r["StandardNis"](0.01), False, False)
    f = make_mmae(kind, nominal, models, th[0] / th[1], pct[0] / pct[1], mix[0] / mix[1])
    cap = {"mid_ids": None, "w_mid": None}
    orig_compile, orig_pruned = f._compileUpdateStep, getattr(f, "_prunedToSingleModel", None)

    def compile_rec(observations):
        if cap["w_mid"] is None:
            cap["w_mid"] = np.array(f.model_weights, dtype=float, copy=True)
        return orig_compile(observations)
    f._compileUpdateStep = compile_rec
    if orig_pruned is not None:
        def pruned_rec(observations):
            res = orig_pruned(observations)
            cap["mid_ids"] = [ident.get(id(m), 0) for m in f.models]
            return res
        f._prunedToSingleModel = pruned_rec

    recs, aux, viol = [], [], []
    truth, t = TRUTH0.copy(), 0.0
    jump_at = rng.randrange(1, max_steps) if scenario == "late-jump" else -1
    prev_dim = 0
    for k in range(max_steps):
        before = list(f.models)
        ids_before = [ident[id(m)] for m in before]
        w_prior = np.array(f.model_weights, dtype=float, copy=True)
        m_prior = np.array(f.mode_probabilities, dtype=float, copy=True)
        truth = np.asarray(dyn.propagate(t, t + 60.0, truth), dtype=float).reshape(6)
        t += 60.0
        noobs = k >= 1 and rng.random() < 0.1
        if k == jump_at:
            truth = truth + np.array([400.0, -300.0, 250.0, 0.3, -0.2, 0.1]) * rng.choice((1.0, 3.0))
        # which sensors see the target changes from step to step: kind of measurement and how many are stacked
        # (up to 40 dimensions; tiny and huge innovation covariances make det(S) under/overflow)
        step_which, nobs = rng.choices(
            [(which, 1), (which, 2), ("optical2", 3), ("lin3", 4), ("advradar4", 1), ("advradar4", 10),
             ("lin3tiny", 13), ("lin3big", 13)], weights=(58, 8, 5, 6, 6, 3 if n <= 4 else 0, 7, 7 if k >= 1 else 0))[0]
        obs = [] if noobs else [_observe(step_which, truth, t, nrng) for _ in range(nobs)]
        cap["mid_ids"], cap["w_mid"] = None, None
        GATE_LOG.clear()
        try:
            f.predict(t)
            f.update(obs)
        except Exception as ex:  # noqa: BLE001
            if _raised_in_mmae(ex):
                viol.append((f"{kind}-update-raises:{type(ex).__name__}",
                             f"real {type(f).__name__}.update() raised {type(ex).__name__}: {ex} (trace {tid} step {k})",
                             {"trace_seed": seed, "tid": tid, "step": k}))
            else:       # the random input broke a model filter / the dynamics: not an MMAE behaviour
                viol.append(("__invalid_input__", f"{type(ex).__name__}: {ex}", {}))
            break
        ids_after = [ident.get(id(m), 0) for m in f.models]
        closed = r["FilterFlag"].ADAPTIVE_ESTIMATION_CLOSE in f.flags
        w_post = np.asarray(f.model_weights, dtype=float)
        m_post = np.asarray(f.mode_probabilities, dtype=float)
        par_ok = (1 <= len(f.models) == f.num_models == len(w_post) == len(f.model_likelihoods) == len(m_post))
        fin_ok = bool(par_ok and np.all(np.isfinite(w_post)) and np.all(w_post >= 0) and abs(w_post.sum() - 1) <= TOL
                      and np.all(np.isfinite(m_post)) and np.all(m_post >= 0)
                      and (kind == "smm" or abs(m_post.sum() - 1) <= TOL))
        flags = _moment_flags(f, f.models, w_post) if fin_ok else (False,) * 4
        gate = 2 if not GATE_LOG else int(GATE_LOG[-1])
        hb = -1
        if closed or f.converged_filter is not None:
            cf = f.converged_filter
            hb = 999
            if cf is not None and isinstance(cf, r["UKF"]):
                if kind == "gpb1":
                    if np.allclose(cf.est_x, f.est_x, rtol=1e-12, atol=0) and np.allclose(cf.est_p, f.est_p, rtol=1e-12, atol=1e-300):
                        hb = 0
                else:
                    for m in before:
                        if np.allclose(cf.est_x, m.est_x, rtol=1e-12, atol=0) and np.allclose(cf.est_p, m.est_p, rtol=1e-12, atol=1e-300):
                            hb = ident[id(m)]
                            break
        rec = {"tid": tid, "k": k, "kind": kind, "th": list(th), "pct": list(pct), "mix": list(mix),
               "obs": 0 if noobs else 1, "ids": ids_before, "post": ids_after,
               "mid": cap["mid_ids"] if cap["mid_ids"] is not None else ids_after,
               "gate": gate, "closed": int(closed), "hb": hb,
               "finOk": int(fin_ok), "parOk": int(par_ok), "meanOk": int(flags[0]), "momOk": int(flags[1]),
               "symOk": int(flags[2]), "psdOk": int(flags[3]), "skip": 0, "under": 0,
               "W": _quant(w_prior), "M": _quant(m_prior), "L": [0] * len(before),
               "PW": _quant(w_post) if fin_ok else [0] * len(w_post), "PM": _quant(m_post) if fin_ok else [0] * len(m_post)}
        ax = {"why": "", "regime": "", "w_mid": None if cap["w_mid"] is None else cap["w_mid"].tolist(), "w_post": w_post.tolist(),
              "m_post": m_post.tolist(), "n": n, "which": which, "scenario": scenario, "two_body": two_body, "seed": seed}
        ax["measurement"] = [step_which, nobs]
        logl = None
        if not noobs:
            # likelihoods recomputed, with logarithms, from each model's logged innovation and innovation covariance
            logl, naive_det = [], []
            ill = False
            for m in before:
                nu = np.asarray(m.innovation, dtype=float).reshape(-1)
                s_m = np.asarray(m.innov_cvr, dtype=float)
                sign, logdet = np.linalg.slogdet(s_m)
                nis = float(nu @ np.linalg.solve(s_m, nu)) if sign > 0 else math.nan
                if sign <= 0 or not np.isfinite(nis) or not np.isfinite(logdet):
                    logl = None
                    break
                if abs(nis - float(m.nis)) > 1e-7 * (1.0 + abs(nis)):
                    ill = True      # S so ill-conditioned that the quadratic form depends on how it is evaluated
                logl.append(-0.5 * nis - 0.5 * (len(nu) * math.log(2 * math.pi) + logdet))
                naive_det.append(float(np.linalg.det(s_m)))
        pri = w_prior if kind == "smm" else m_prior
        pq = rec["W"] if kind == "smm" else rec["M"]
        under_all = False
        if logl is not None:
            # TRUE underflow: exp(log-likelihood) is 0.0 in IEEE double for every model
            under_all = all(math.exp(ll) == 0.0 for ll in logl)
            rec["under"] = int(under_all)
            d = len(np.asarray(before[0].innovation).reshape(-1))
            lw = [math.log(p) + ll if p > 0 else -math.inf for p, ll in zip(pri, logl)]
            top = max(lw)
            logtot = top + math.log(sum(math.exp(v - top) for v in lw)) if np.isfinite(top) else -math.inf
            # regime of the update (names the mechanism in the signature of a violation)
            if any(x == 0.0 for x in naive_det):
                ax["regime"] = "-determinant-underflow"
            elif any(not np.isfinite(x) for x in naive_det):
                ax["regime"] = "-determinant-overflow"
            elif not under_all and min(logtot + 0.5 * (d - k_) * math.log(2 * math.pi) for k_ in (0, d, prev_dim)) \
                    < math.log(1e-14):
                ax["regime"] = "-likelihoods-small-not-underflowed"   # (the code normalises with the previous dimension)
            prev_dim = d
        if not fin_ok:
            rec["skip"] = 1
            ax["why"] = "invalid"
        elif not noobs:
            if logl is None:
                rec["skip"], ax["why"] = 1, "degenerate-innovation-covariance"
            elif ill:
                rec["skip"], ax["why"] = 1, "ill-conditioned-innovation-covariance"
            else:
                lmax = max(logl)
                ratio = [math.exp(ll - lmax) for ll in logl]
                top = max(lw)
                bayes = np.array([math.exp(v - top) for v in lw])
                bayes = bayes / bayes.sum()
                fallback = np.ones(len(before)) / len(before) if kind == "smm" else pri / pri.sum()
                real_mid = np.asarray(cap["w_mid"] if cap["w_mid"] is not None else w_post, dtype=float)
                same_len = len(real_mid) == len(before)
                # total underflow: the documented fallback and Bayes' rule on the log-likelihoods are both admissible;
                # the record says which of the two the object did (anything else is logged as the fallback and rejected)
                took_fallback = under_all and not (same_len and np.max(np.abs(real_mid - fallback)) > 1e-9
                                                   and np.max(np.abs(real_mid - bayes)) <= 1e-6)
                if under_all and took_fallback:
                    rec["L"] = [0] * len(before)
                    if kind == "smm":
                        ax["bounds_mid"] = None    # reset to exactly uniform
                    else:                          # reset to the prior mode probabilities (projected)
                        tot_q = float(sum(pq))
                        ax["bounds_mid"] = [(max(v - 0.5, 0.0) / (tot_q + 0.5 * len(pq)), (v + 0.5) / (tot_q - 0.5 * len(pq)))
                                            for v in pq]
                elif not under_all and lmax < -690.0:
                    rec["skip"], ax["why"] = 1, "largest-likelihood-denormal"
                else:
                    rec["L"] = [int(round(LQ * x)) for x in ratio]
                    exact = [x == 1.0 or x == 0.0 for x in ratio]
                    idx = list(range(len(before)))
                    bounds, slo = _intervals(pq, rec["L"], exact, idx)
                    if slo <= 0:
                        rec["skip"], ax["why"] = 1, "projection-too-coarse"
                    else:
                        ax["bounds_mid"] = [bounds[j] for j in idx]
                        thv, pcv = th[0] / th[1], pct[0] / pct[1]
                        if kind == "smm":
                            if any(lo - 1e-9 <= thv <= hi + 1e-9 for lo, hi in bounds.values()):
                                rec["skip"], ax["why"] = 1, "near-prune-threshold"
                            elif all(bounds[j][1] < thv for j in idx) and any(
                                    rec["L"][j] == 0 and ratio[j] != 0.0 and ids_before[j] in rec["mid"] for j in idx):
                                # every model below the threshold and the survivor's likelihood is positive but
                                # below the projection's resolution: "positive mass" cannot be decided
                                rec["skip"], ax["why"] = 1, "all-below-survivor-under-resolution"
                            else:
                                keep = [j for j in idx if bounds[j][0] > thv] or idx
                                b2, _ = _intervals(pq, rec["L"], exact, keep)
                                if len(keep) > 1 and any(lo - 1e-9 <= pcv <= hi + 1e-9 for lo, hi in b2.values()):
                                    rec["skip"], ax["why"] = 1, "near-convergence-percentage"
                        if not rec["skip"] and max(hi - lo for lo, hi in bounds.values()) > 0.05:
                            rec["skip"], ax["why"] = 1, "projection-too-coarse"
        recs.append(rec)
        aux.append(ax)
        if closed or not fin_ok or not par_ok:
            break
    return recs, aux, viol


def _trace_chunk(args):
    jobs, max_steps = args
    out = []
    for tid, seed in jobs:
        out.append(gen_trace(tid, seed, max_steps))
    return out


TRACE_INVARIANTS = {
    "PruneExplained": "models left by _prunedToSingleModel are not those below prune_threshold removed (never all)",
    "ConvergeExplained": "convergence test disagrees: exactly-one-above-percentage / gate / closed",
    "GateExplained": "GPB1 closure disagrees with the chi-square gate",
    "StepExplained": "models / closed flag / handed-back filter after update() differ from the specification",
    "LoggedFinite": "probabilities not finite, non-negative and summing to one",
    "LoggedParallel": "models / weights / likelihoods / mode arrays not parallel or empty",
    "LoggedMean": "combined estimate is not the probability-weighted mean",
    "LoggedMoments": "combined covariance is not the moment-matched mixture covariance",
    "LoggedSymPSD": "combined covariance not symmetric positive semi-definite",
    "Continuity": "state before an update is not the state the previous update left",
    "ResetOnlyOnUnderflow": "spec-internal",
    "ResetOnlyOnTrueUnderflow": "spec-internal", "BayesRule": "spec-internal", "NonNegative": "spec-internal", "SumToOne": "spec-internal",
    "AtLeastOneModel": "spec-internal", "ModeMixValid": "spec-internal", "HandBackIsSurvivor": "spec-internal",
}


def validate_traces(ctx: Ctx, ntraces, max_steps):
    jobs = [(tid, ctx.seed * 7919 + 104729 * tid + 13) for tid in range(1, ntraces + 1)]
    nchunks = max(1, min(48, ntraces // 4))
    results = _pool_map(_trace_chunk, [(jobs[i::nchunks], max_steps) for i in range(nchunks)])
    traces = sorted((t for res in results for t in res if t[0]), key=lambda t: t[0][0]["tid"])
    recs, aux = [], []
    invalid = 0
    for tr, ax, viol in traces:
        recs.extend(tr)
        aux.extend(ax)
        for sig, what, rp in viol:
            if sig == "__invalid_input__":
                invalid += 1
            else:
                ctx.violation(sig, what, rp)
    ctx.extra["traces"] = {"traces": ntraces, "traces_cut_by_model_filter_failure": invalid}
    return _validate_records(ctx, recs, aux, selftest=True)


def _trace_sig(kind, clause, regime):
    return f"{kind}-trace-{clause}", (f"[regime {regime[1:]}] " if regime else "")


def _validate_records(ctx: Ctx, recs, aux, selftest):
    if not recs:
        if ctx.violations:       # every trace died in its first update() inside the adaptive code: already reported
            return []
        raise tlc.MachineryError("no trace records produced")
    nreal = len(recs)
    bad_copies = _corrupt(recs) if selftest else []
    allrecs = recs + [c for _, c in bad_copies]
    d = ctx.sub("trace")
    (d / "records.json").write_text(json.dumps(allrecs))
    res = tlc.run_tlc("TraceMMAE", "TraceMMAE.cfg", d, workers=max(2, min(8, ctx.cpus // 2)), cont=True,
                      env={"RECORDS_FILE": "records.json"}, timeout=3000, heap="3g")
    tlc.require_ok(res, "TraceMMAE")
    ctx.add_tlc(res, f"trace validation of {nreal} update() records of real SMM/GPB1 objects "
                     f"(+{len(bad_copies)} corrupted copies that must be rejected)")
    flagged = set()
    rejected_copies = set()
    for inv, states in res.invariant_violations:
        m = re.findall(r"/\\ i = (-?\d+)", "\n".join(states))
        j = int(m[-1]) if m else 0
        if j > nreal:
            rejected_copies.add(j - nreal - 1)
            continue
        rec = recs[j - 1] if j > 0 else None
        if TRACE_INVARIANTS.get(inv) == "spec-internal" or rec is None:
            raise tlc.MachineryError(f"TraceMMAE: invariant {inv} of the specification itself fails on record {j}:\n"
                                     + "\n".join(states[-1:]))
        flagged.add(j)
        after = "-after-reset" if rec["obs"] and not any(rec["L"]) and not rec["skip"] else ""
        wm = aux[j - 1].get("w_mid")
        if rec["kind"] == "smm" and wm and all(x < rec["th"][0] / rec["th"][1] for x in wm):
            after = "-all-below-threshold"
        name = {"LoggedFinite": "probabilities-invalid"}.get(inv, inv)
        # the mechanism signature is for clauses about the probabilities; the moment clauses keep their own name
        moment_clause = inv in ("LoggedMean", "LoggedMoments", "LoggedSymPSD", "LoggedParallel", "Continuity")
        sig_, pre_ = _trace_sig(rec["kind"], name + after, "" if moment_clause else aux[j - 1].get("regime", ""))
        ctx.violation(sig_,
                      pre_ + f"real {'StaticMultipleModel' if rec['kind'] == 'smm' else 'GeneralizedPseudoBayesian1'}: "
                      f"{TRACE_INVARIANTS.get(inv, inv)} (trace {rec['tid']} update {rec['k'] + 1})",
                      {"record": rec, "aux": aux[j - 1]})
    # exact posterior of the specification vs the real weights, inside the projection error bound
    mids = {x["i"]: x for x in res.tagged("MID")}
    posts = {x["i"]: x for x in res.tagged("POST")}
    skipped = {}
    checked = 0
    for j, (rec, ax) in enumerate(zip(recs, aux), start=1):
        nontrivial = len(rec["ids"]) >= 2 and not rec["skip"]
        ctx.case(("trace", rec["kind"], tuple(rec["th"]), tuple(rec["pct"]), tuple(rec["mix"]), tuple(rec["ids"]),
                  tuple(rec["W"]), tuple(rec["M"]), tuple(rec["L"]), rec["gate"]), nontrivial=nontrivial,
                 sample={"trace_record": {k: rec[k] for k in ("kind", "th", "pct", "ids", "W", "L", "mid", "gate", "post",
                                                             "closed", "hb")}} if j in (3, len(recs) // 2) else None)
        if rec["skip"]:
            skipped[ax["why"]] = skipped.get(ax["why"], 0) + 1
            continue
        if j in flagged:
            continue
        if j not in posts:
            raise tlc.MachineryError(f"TraceMMAE did not finish record {j} (no POST line and no violation): {rec}")
        checked += 1
        kind = rec["kind"]
        name = "StaticMultipleModel" if kind == "smm" else "GeneralizedPseudoBayesian1"
        if rec["obs"] and ax.get("w_mid") is not None and j in mids:
            mass = mids[j]["mass"]
            spec = [x / sum(mass) for x in mass]
            real = ax["w_mid"]
            b = ax.get("bounds_mid")
            for pos in range(len(spec)):
                lo, hi = (spec[pos], spec[pos]) if b is None else b[pos]
                if not (lo - 1e-6 <= spec[pos] <= hi + 1e-6):
                    raise tlc.MachineryError(f"projection bound does not contain the specification's own value: {rec} {spec} {b}")
                if not (lo - 1e-7 <= real[pos] <= hi + 1e-7):
                    after = "-after-reset" if not any(rec["L"]) else ""
                    sig_, pre_ = _trace_sig(kind, "posterior" + after, ax.get("regime", ""))
                    ctx.violation(sig_,
                                  pre_ + f"real {name}: probability of model {rec['ids'][pos]} after update is {real[pos]!r}, "
                                  f"Bayes rule on the logged innovations gives [{lo:.6g}, {hi:.6g}] "
                                  f"(trace {rec['tid']} update {rec['k'] + 1})", {"record": rec, "aux": ax})
                    break
        mass = posts[j]["mass"]
        spec = [x / sum(mass) for x in mass]
        if len(spec) != len(ax["w_post"]):
            raise tlc.MachineryError(f"POST length mismatch on accepted record {j}")
        width = 0.05 if ax.get("bounds_mid") else 1e-7
        if max(abs(a - b) for a, b in zip(spec, ax["w_post"])) > width * 2 + 1e-3:
            sig_, pre_ = _trace_sig(kind, "final-probabilities", ax.get("regime", ""))
            ctx.violation(sig_, pre_ + f"real {name}: final probabilities {ax['w_post']} differ "
                          f"from the specification {spec} (trace {rec['tid']} update {rec['k'] + 1})",
                          {"record": rec, "aux": ax})
        if kind == "gpb1" and rec["obs"]:
            mm = posts[j]["mode"]
            specm = [x / sum(mm) for x in mm]
            if max(abs(a - b) for a, b in zip(specm, ax["m_post"])) > 0.1 + 1e-3:
                sig_, pre_ = _trace_sig(kind, "mode-probabilities", ax.get("regime", ""))
                ctx.violation(sig_, pre_ + f"real {name}: mode probabilities {ax['m_post']} differ "
                              f"from the mixed posterior {specm}", {"record": rec, "aux": ax})
    missed = [bad_copies[j][0] for j in range(len(bad_copies)) if j not in rejected_copies]
    if missed and not flagged and not ctx.violations:
        # (when real records are themselves rejected the copies derive from unsound originals; the violations win)
        raise tlc.MachineryError(f"binding self-test: TraceMMAE accepted corrupted records {missed}")
    ctx.traces_validated += checked
    ctx.extra["trace_records"] = {"records": len(recs), "validated_by_tlc": checked,
                                  "skipped_undecided": skipped,
                                  "corrupted_copies_rejected": [name for name, _ in bad_copies],
                                  "resets": sum(1 for r_ in recs if r_["obs"] and not r_["skip"] and not any(r_["L"])),
                                  "closed": sum(r_["closed"] for r_ in recs),
                                  "max_models": max(len(r_["ids"]) for r_ in recs)}
    return recs


# --------------------------------------------------------------------------------------------
# configurations
# --------------------------------------------------------------------------------------------
def _plans(quick):
    """(label, cfg kwargs, run_tlc kwargs) of every TLC run that produces behaviours for the replay."""
    sim = dict(kinds=["smm", "gpb1"], nmodels=list(range(5, 31)), lvals=[0, 1, 2], th="ThSim", pct="PctAll", mix="MixAll",
               layouts=[1, 2, 3], big_n=99, gpb_big_n=0)      # GPB1 masses grow fast: one update fewer
    if quick:
        return [
            ("exhaustive_2to3_models", dict(kinds=["smm", "gpb1"], nmodels=[2, 3], lvals=[0, 1, 3], th="ThQuick", pct="PctOne",
                                            mix="MixOne", layouts=[1], max_updates=3, big_n=99, gpb_big_n=3,
                                            noobs_at=[1]), {}),
            ("exhaustive_smm_3to5_models", dict(kinds=["smm"], nmodels=[3, 4, 5], lvals=[0, 1, 3], th="ThQuick", pct="PctLow",
                                                mix="MixOne", layouts=[2], max_updates=2, big_n=5, noobs_at=[1]), {}),
            # pruning switched off: a model whose probability is exactly 0 stays, later updates start from zero priors
            ("exhaustive_smm_no_pruning", dict(kinds=["smm"], nmodels=[2, 3], lvals=[0, 1, 3], th="ThZero", pct="PctOne",
                                               mix="MixOne", layouts=[3], max_updates=2, big_n=99, noobs_at=[1]), {}),
            ("simulate_to_30_models", dict(max_updates=3, noobs_at=[1], **sim), dict(simulate="num=120", depth=400)),
        ]
    return [
        ("exhaustive_smm_2to4_models", dict(kinds=["smm"], nmodels=[2, 3, 4], lvals=[0, 1, 3], th="ThAll", pct="PctThree",
                                            mix="MixOne", layouts=[1], max_updates=3, big_n=4, noobs_at=[1, 2]), {}),
        ("exhaustive_smm_4_likelihood_values", dict(kinds=["smm"], nmodels=[2, 3], lvals=[0, 1, 2, 3], th="ThOne",
                                                    pct="PctOne", mix="MixOne", layouts=[2], max_updates=3, big_n=99,
                                                    noobs_at=[1]), {}),
        ("exhaustive_smm_5to6_models", dict(kinds=["smm"], nmodels=[5, 6], lvals=[0, 1, 3], th="ThAll", pct="PctQuick",
                                            mix="MixOne", layouts=[3], max_updates=1, big_n=99, noobs_at=[1]), {}),
        ("exhaustive_gpb1_2to4_models", dict(kinds=["gpb1"], nmodels=[2, 3, 4], lvals=[0, 1, 3], th="ThQuick", pct="PctOne",
                                             mix="MixAll", layouts=[1], max_updates=3, big_n=99, gpb_big_n=3,
                                             noobs_at=[1, 2]), {}),
        ("exhaustive_smm_no_pruning", dict(kinds=["smm"], nmodels=[2, 3, 4], lvals=[0, 1, 3], th="ThZero", pct="PctQuick",
                                           mix="MixOne", layouts=[3], max_updates=3, big_n=3, noobs_at=[1]), {}),
        ("simulate_smm_to_30_models", dict(max_updates=5, noobs_at=[1, 2, 3], **dict(sim, kinds=["smm"])),
         dict(simulate="num=1000", depth=600)),
        ("simulate_gpb1_to_30_models", dict(max_updates=3, noobs_at=[1], **dict(sim, kinds=["gpb1"])),
         dict(simulate="num=500", depth=400)),
    ]


def _corrupt(recs):
    """Binding self-test: corrupted copies of real records that TLC must reject."""
    out = []

    def pick(pred):
        for rec in recs:
            if not rec["skip"] and rec["obs"] and pred(rec):
                return json.loads(json.dumps(rec))
        return None
    c = pick(lambda r_: r_["kind"] == "smm" and len(r_["post"]) >= 2)
    if c:                                   # a surviving model missing from the logged list
        c["post"] = c["post"][:-1]
        c["mid"] = c["mid"][:-1] if c["mid"] == c["post"] + [c["mid"][-1]] else c["mid"]
        out.append(("post-drops-model", c))
    c = pick(lambda r_: r_["kind"] == "smm" and len(r_["mid"]) < len(r_["ids"]) and len(r_["mid"]) >= 1)
    if c:                                   # a pruned model logged as kept
        gone = [x for x in c["ids"] if x not in c["mid"]][0]
        c["mid"] = sorted(c["mid"] + [gone], key=c["ids"].index)
        out.append(("mid-keeps-pruned-model", c))
    c = pick(lambda r_: r_["closed"] == 1)
    if c:                                   # closed flag flipped
        c["closed"], c["hb"] = 0, -1
        out.append(("closed-flipped", c))
    c = pick(lambda r_: r_["closed"] == 1 and r_["kind"] == "smm" and len(r_["ids"]) >= 2 and r_["post"] == [r_["hb"]])
    if c:                                   # handed-back filter is some other model
        c["hb"] = [x for x in c["ids"] if x != c["hb"]][0]
        out.append(("wrong-handback", c))
    c = pick(lambda r_: True)
    if c:
        c["momOk"] = 0
        out.append(("moment-flag", c))
    for j, (_, c) in enumerate(out):
        c["tid"] = -(j + 1)
    return out


def run(ctx: Ctx):
    import multiprocessing as mp
    from concurrent.futures import ThreadPoolExecutor
    rt()
    _install_gate_recorder()
    ctx.rule = ("spec->impl: every maximal behaviour of MMAE.tla in the bounded lattice (model count, likelihood vector per "
                "update from LVals incl. 0 = underflow, threshold, percentage, mix ratio, gate booleans, update([])) is one "
                "case, keyed by its inputs; non-trivial = at least two updates, a zero-mass reset or an all-below-threshold "
                "prune. impl->spec: each update() of a real SMM/GPB1 object over 6-D UKFs on a random observation sequence "
                "is one case keyed by its projected prior, likelihoods and configuration; non-trivial = at least two models "
                "and decidable margins")
    ctx.assumptions = [
        "models are constructed directly (AdaptiveFilter.initialize() and its database queries are bypassed); weights and "
        "mode probabilities start at 1/n as initialize() sets them",
        "replay: real likelihood = c * integer likelihood of the spec, realised through each model's prepared innovation and "
        "innovation covariance; c is common to the models of one update and is drawn from regimes in which every non-zero "
        "likelihood stays representable: NIS 0..33, all NIS in 70..1300, det(S) underflowing (12 or 40 stacked dimensions "
        "of variance 1e-30 / 1e-10) or overflowing (1e30 / 1e10); comparisons with exact rationals at 1e-9",
        "likelihood 0 of the spec = TRUE underflow: exp(log-likelihood) is 0.0 in IEEE double however it is evaluated; only "
        "when that holds for every model may the documented fallback replace Bayes' rule. In such updates the replay makes "
        "prior * likelihood equal for all models, and the trace records which of fallback / log-domain Bayes the object "
        "applied, so an implementation that evaluates the likelihood with logarithms is admissible too",
        "the chi-square gate is an environment boolean of the spec; replay realises it with combined NIS <= 0.08 (holds) or "
        ">= 30 (fails); after a total underflow every NIS exceeds 1400 and the gate cannot hold",
        "thresholds k/101, k/1009 never coincide with a reachable probability (TLC invariant TieFree)",
        "trace direction: probabilities projected to integers /4000, likelihood ratios to /1000; updates whose rigorous "
        "projection interval contains a threshold or is wider than 0.05, whose largest likelihood is denormal (< 1e-300), or "
        "whose innovation covariance is so ill-conditioned that the NIS depends on the solver (1e-7 relative) are skipped "
        "as undecided and counted; 1 to 13 observations are stacked per update (up to 40 dimensions)",
        "GPB1 hands back the mixture (documented); when every model is below prune_threshold any single survivor with "
        "positive probability is admissible",
    ]
    plans = _plans(ctx.quick)
    ntraces, max_steps = (100, 4) if ctx.quick else (1000, 6)
    nproc = max(1, min(8, ctx.cpus // 2))
    pool = mp.get_context("fork").Pool(nproc)       # forked before any thread exists
    _RT["pool"] = pool
    try:
        with ThreadPoolExecutor(len(plans) + 2) as ex:
            futs = []
            for label, kw, rkw in plans:
                cfg = cfg_text(keep_hist=True, **kw)
                # -simulate on one worker: the sample is then a function of the seed alone
                workers = 1 if "simulate" in rkw else max(2, ctx.cpus // 4)
                futs.append((label, ex.submit(tlc.run_tlc, "MMAE", cfg, ctx.sub(label), workers=workers,
                                              timeout=3000, seed=ctx.seed + 1, heap="3g", **rkw)))
            dev_cfg = cfg_text(kinds=["smm", "gpb1"], nmodels=[2], lvals=[0, 1], th="ThZero", pct="PctOne", mix="MixOne",
                               layouts=[1], max_updates=1, big_n=99, noobs_at=[1], keep_hist=False)
            dev_cfg = "\n".join(l for l in dev_cfg.splitlines() if not l.startswith("INVARIANT")) \
                + "\nINVARIANT DeviationResetOnAnyZero\n"
            dev = ex.submit(tlc.run_tlc, "MMAE", dev_cfg, ctx.sub("deviation"), workers=1, timeout=600, heap="1g")
            validate_traces(ctx, ntraces, max_steps)
            dres = dev.result()
            tlc.require_ok(dres, "deviation run")
            if [i for i, _ in dres.invariant_violations] != ["DeviationResetOnAnyZero"]:
                raise tlc.MachineryError("spec self-test: TLC did not refute the deviation 'fallback on any zero mass':\n"
                                         + dres.stdout[-800:])
            ctx.add_tlc(dres, "MMAE.tla deviation DeviationResetOnAnyZero (must be refuted)")
            ctx.extra["spec_deviations_refuted"] = ["DeviationResetOnAnyZero"]
            taken = {}
            for label, fut in futs:
                res = fut.result()
                spec_must_hold(res, label)
                ctx.add_tlc(res, f"MMAE.tla {label}: invariants + behaviours for the replay")
                behs = sorted(res.tagged("BEH"), key=lambda b: json.dumps(b, sort_keys=True))   # TLC prints in worker order
                seen, uniq = set(), []
                for b in behs:
                    key = _behaviour_key(b)
                    if key not in seen:
                        seen.add(key)
                        uniq.append(b)
                        for st in b["hist"]:
                            kd = b["cfg"]["kind"]
                            for name, on in (("Update", st["obs"]), ("NoObs", not st["obs"]), ("ResetOnZeroMass:reset", st["reset"]),
                                             ("Prune", kd == "smm" and st["obs"]), ("Prune:all-below", len(st["adm"]) > 0),
                                             ("Converge:gate-held", kd == "smm" and st["g"] == 1),
                                             ("Converge:gate-failed", kd == "smm" and st["g"] == 0),
                                             ("Converge:not-evaluated", kd == "smm" and st["obs"] and st["g"] == 2 and not st["closed"]),
                                             ("Prune:closes", kd == "smm" and st["g"] == 2 and st["closed"]),
                                             ("Gate:held", kd == "gpb1" and st["g"] == 1),
                                             ("Gate:failed", kd == "gpb1" and st["g"] == 0)):
                                if on:
                                    taken[name] = taken.get(name, 0) + 1
                replay_all(ctx, uniq, label)
            want = ["Update", "NoObs", "ResetOnZeroMass:reset", "Prune", "Prune:all-below", "Converge:gate-held",
                    "Converge:gate-failed", "Converge:not-evaluated", "Prune:closes", "Gate:held", "Gate:failed"]
            dead = [k for k in want if not taken.get(k)]
            if dead:
                raise tlc.MachineryError(f"non-vacuity self-test: no replayed behaviour takes {dead}")
            ctx.extra["actions_in_replayed_behaviours"] = taken
    finally:
        pool.close()
        pool.terminate()
        _RT.pop("pool", None)


def replay(ctx: Ctx, rp: dict):
    """Re-run one stored counterexample against the current tree."""
    rt()
    _install_gate_recorder()
    data = rp["replay"]
    if "behaviour" in data:
        viol, _ = replay_behaviour(data["behaviour"], data.get("seed", 0))
        ctx.case(("replay", _behaviour_key(data["behaviour"])))
        ctx.case(("replay2", data.get("seed", 0)))
        ctx.traces_validated += 1
        for sig, what, r2 in viol:
            ctx.violation(sig, what, r2)
        return
    seed = (data.get("aux") or {}).get("seed", data.get("trace_seed"))
    if seed is None:
        return run(ctx)
    tid = (data.get("record") or data).get("tid", 1)
    recs, aux, viol = gen_trace(tid, seed, 6)
    for sig, what, r2 in viol:
        if sig != "__invalid_input__":
            ctx.violation(sig, what, r2)
    _validate_records(ctx, recs, aux, selftest=False)
