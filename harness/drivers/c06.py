"""C06 - unscented filter equals Kalman filter on linear systems; covariances stay valid.

1. spec -> impl (exact lattice, DECIDED EXACTLY): TLC enumerates LinearGaussian.tla - linear
   Gaussian systems of state dimension 1..2, small-integer F, H, P, Q, R, stacks of 0..2
   observations of dimension 1..2, both resampling modes, 1..2 steps, rational tunings - and
   prints for every behaviour the exact rational pred_x, pred_p, innov_cvr, kalman_gain, est_x,
   est_p of every step (TLC also checks the property invariants on the reference itself).
   Static product lattices (cfg files) plus seeded random sub-lattices written as JSON.
   A step is predict, any number of stand-alone forecast(candidate) calls (what the tasking
   engine does for every candidate sensor), update(obs or []).  Every behaviour is replayed on ONE
   REAL UnscentedKalmanFilter instance (linear `Dynamics`, real `Measurement`/`Observation` objects
   with linear `MeasurementType`s) and every predict / forecast / update output must agree with
   the rationals to 1e-9 relative; every third behaviour is additionally replayed through the
   production hand-over predict -> UKFPredictResult -> applyFilterResult -> update on a second
   instance.  The named spec deviation StaleResampleFlag must be refuted by TLC.
2. impl -> spec (RELATIONS ONLY, dimensions 1..8, dense real matrices, 0..4 stacked observations
   of dimension 1..4, 1..3 steps): the driver logs the real filter's matrices, evaluates the
   residual of every relation of the property in floating point (numpy) and projects it to an
   integer (units of 1e-12); TLC validates the projected life cycle against
   TraceLinearGaussian.tla (thresholds = the stated tolerance).
"""
from __future__ import annotations

import json
import random
from fractions import Fraction

import numpy as np

from .. import tlc
from ..core import Ctx

LEVEL = "model_checking"
LABELS = ("range_km", "range_rate_km_p_sec", "azimuth_rad", "elevation_rad")   # real Observation columns
RTOL = 1e-9
INVS = ["WeightsSumToOne", "UnitSecondMoment", "TuningAdmissible", "Symmetric", "PSD",
        "PosteriorIsPriorMinusKSKt", "PosteriorLePrior", "NoObsReturnsPropagatedMean",
        "ForecastUsesFreshSigmaPoints", "GainSolvesNormalEquations", "RedrawIsTextbookKalman", "NoRedrawIsVariant", "UnitChangeEquivariant", "NoOverflow"]
ACTIONS = ["PoseShape", "PoseDynamics", "PosePrior", "Predict", "PoseStack", "PoseObs", "Forecast",
           "Update", "UpdateNoObs", "Advance"]
TRACE_INVS = ["WellFormed", "WeightsSumToOne", "KalmanPredict", "ForecastIsKalman", "Symmetric", "PSD", "KalmanInnovation",
              "KalmanGain", "KalmanMean", "PosteriorIsPriorMinusKSKt", "PosteriorLePrior",
              "NoObsReturnsPropagatedMean"]
# order in which the relations of one logged step are blamed (later ones are consequences)
BLAME = ["WellFormed", "WeightsSumToOne", "KalmanPredict", "ForecastIsKalman", "KalmanInnovation", "KalmanGain", "KalmanMean",
         "PosteriorIsPriorMinusKSKt", "NoObsReturnsPropagatedMean", "Symmetric", "PosteriorLePrior", "PSD"]

_R: dict = {}       # resonaate classes, imported once (before the worker pool forks)


def _load():
    if _R:
        return _R
    from .. import sched
    sched.install()
    from resonaate.data.observation import Observation
    from resonaate.dynamics.dynamics_base import Dynamics
    from resonaate.estimation.kalman.unscented_kalman_filter import UnscentedKalmanFilter
    from resonaate.physics.measurements import IsAngle, Measurement, MeasurementType
    from resonaate.physics.time.stardate import ScenarioTime

    class LinearDynamics(Dynamics):
        """x(t1) = F x(t0) for every column of the state array (the sigma points)."""

        def __init__(self, F):
            self.F = np.array(F, dtype=float)

        def propagate(self, initial_time, final_time, initial_state, station_keeping=None,
                      scheduled_events=None, error_flags=None):
            return self.F @ initial_state

    class LinearRow(MeasurementType):
        """y = h . x : one row of H as a MeasurementType (never an angle)."""

        def __init__(self, label, row):
            self.LABEL = label
            self.row = np.array(row, dtype=float)

        def calculate(self, sen_eci_state, tgt_eci_state, utc_date):
            return float(self.row @ tgt_eci_state)

        @property
        def is_angular(self):
            return IsAngle.NOT_ANGLE

    _R.update(Observation=Observation, UKF=UnscentedKalmanFilter, Measurement=Measurement,
              ScenarioTime=ScenarioTime, LinearDynamics=LinearDynamics, LinearRow=LinearRow)
    return _R


# ------------------------------------------------------------------------------------------
# the real filter, driven like the production code drives it
# ------------------------------------------------------------------------------------------
def make_obs(H, Rm, y, sensor_id):
    r = _load()
    H = np.atleast_2d(np.array(H, dtype=float))
    types = [r["LinearRow"](LABELS[k], H[k]) for k in range(H.shape[0])]
    meas = r["Measurement"](types, np.array(Rm, dtype=float))
    vals = {LABELS[k]: float(y[k]) for k in range(H.shape[0])}
    return r["Observation"](julian_date=2459304.5, target_id=10001, sensor_id=sensor_id, sensor_type="Radar",
                            sensor_eci=np.zeros(6), measurement=meas, **vals)


def make_filter(F, Q, x0, P0, resample, alpha, beta, kappa):
    r = _load()
    return r["UKF"](10001, r["ScenarioTime"](0.0), np.array(x0, dtype=float), np.array(P0, dtype=float),
                    r["LinearDynamics"](F), np.array(Q, dtype=float), None, False, False,
                    resample=resample, alpha=alpha, beta=beta, kappa=kappa)


def filter_step(filt, k, cands, obs, shadow=None):
    """One step on ONE instance: predict, a stand-alone forecast per candidate stack, update.
    `shadow` (optional second instance) plays the estimate agent of the production hand-over: it
    receives the prediction through UKFPredictResult, updates, and hands its posterior back."""
    r = _load()
    filt.predict(r["ScenarioTime"](60.0 * (k + 1)))
    pres = filt.getPredictionResult()
    fres = []
    for cand in cands:
        filt.forecast(cand)
        fres.append(filt.getForecastResult())
    sres = None
    if shadow is not None:
        shadow.applyFilterResult(pres)
        shadow.update(obs)
        sres = shadow.getUpdateResult()
    filt.update(obs)
    ures = filt.getUpdateResult()
    return pres, fres, ures, sres


def cond_factor(filt):
    """Condition number of the weighted mean sum Wm_i X_i (large negative centre weight for small alpha)."""
    return max(1.0, float(np.abs(filt.mean_weight).sum()) / 1e5)


# ------------------------------------------------------------------------------------------
# part 1: replay of lattice behaviours (exact expected values from TLC)
# ------------------------------------------------------------------------------------------
def qmat(v):
    return np.array(v["n"], dtype=float) / float(v["d"])


def fr(q):
    return q[0] / q[1]


def beh_key(b):
    return (b["n"], b["resample"], json.dumps(b["tun"], sort_keys=True), json.dumps(b["F"]), json.dumps(b["Q"]),
            json.dumps(b["x0"]), json.dumps(b["P0"]), json.dumps([s["obs"] for s in b["steps"]]),
            json.dumps([[f["obs"] for f in s["fcs"]] for s in b["steps"]]))


def _close(got, exp, factor=1.0):
    got = np.asarray(got, dtype=float)
    exp = np.asarray(exp, dtype=float)
    if got.shape != exp.shape:
        got = got.reshape(exp.shape) if got.size == exp.size else got
    if got.shape != exp.shape or not np.all(np.isfinite(got)):
        return False
    return float(np.abs(got - exp).max()) <= RTOL * max(1.0, float(np.abs(exp).max())) * factor


UNITS = (2.0 ** -17, 2.0 ** -10, 2.0 ** 10)      # 7.6e-6 (covariances ~6e-11), 1e-3, 1e3


def stale_gain(F, P_prev, P_pred, H, S):
    """The gain obtained when the state residuals of the pre-resampling sigma points are paired
    with the measurement residuals of the redrawn ones (DESIGN.md 6, D11): C = F L (H L2)'."""
    try:
        L = np.linalg.cholesky(P_prev)
        L2 = np.linalg.cholesky(P_pred)
        return (F @ L) @ (H @ L2).T @ np.linalg.inv(S)
    except np.linalg.LinAlgError:
        return None


def replay_behaviour(arg):
    """-> (key, nontrivial, violation or None).  Runs in a forked worker."""
    b, with_shadow = arg[0], arg[1]
    # unit change (LinearGaussian!UnitChangeEquivariant): the same behaviour with state and measurement units scaled by
    # u - x, y by u; P, Q, R, S by u^2; the gain unchanged.  u is a power of two, so the scaled problem has the same
    # roundings as the posed one; everything the real filter returns is scaled back before it is compared.
    u = float(arg[2]) if len(arg) > 2 else 1.0
    n = b["n"]
    mode = "redraw" if b["resample"] else "noredraw"
    F = np.array(b["F"], dtype=float)
    tun = b["tun"]
    kappa = None if tun["dflt"] else fr(tun["kappa"])
    nontrivial = any(s["obs"] or s["fcs"] for s in b["steps"])
    key = beh_key(b) + ((u,) if u != 1.0 else ())

    def bad(sig, what, **got):
        if u != 1.0:
            sig, what = "unit-change-" + sig, what + f" [units scaled by {u!r}; values scaled back]"
        return key, nontrivial, (sig, what, {"behaviour": b, "unit": u, "got": {k: np.asarray(v).tolist() for k, v in got.items()}})

    class _Back:          # results scaled back to the posed units
        def __init__(self, res):
            self._r = res

        def __getattr__(self, name):
            v = np.asarray(getattr(self._r, name), dtype=float)
            return v / u if name in ("pred_x", "est_x") else v if name == "kalman_gain" else v / (u * u)

    try:
        args = (F, np.array(b["Q"], dtype=float) * u * u, np.array(b["x0"], dtype=float) * u,
                np.array(b["P0"], dtype=float) * u * u, b["resample"], fr(tun["alpha"]), fr(tun["beta"]), kappa)
        filt = make_filter(*args)
        shadow = make_filter(*args) if with_shadow else None
    except Exception as ex:  # noqa: BLE001
        return bad(f"lattice-init-exception-{type(ex).__name__}", f"constructing the filter raised {ex!r}")
    cf = cond_factor(filt)
    wsum = float(filt.mean_weight.sum())
    if not abs(wsum - 1.0) <= RTOL * cf:
        return bad("weights-sum", f"sigma-point mean weights sum to {wsum!r}, not 1 (n={n}, tuning {tun})", wsum=wsum)
    P_prev = np.array(b["P0"], dtype=float)
    for k, st in enumerate(b["steps"]):
        def mk(o, sid):
            return make_obs(o["H"], np.array(o["R"], dtype=float) * u * u, np.array(o["y"], dtype=float) * u, sid)
        obs = [mk(o, 20000 + j) for j, o in enumerate(st["obs"])]
        cands = [[mk(o, 30000 + 10 * c + j) for j, o in enumerate(f["obs"])] for c, f in enumerate(st["fcs"])]
        nfc = f"{len(cands)} stand-alone forecast(s) before it" if cands else "no stand-alone forecast"
        where = f"step {k + 1} of {len(b['steps'])}, n={n}, {mode}, {nfc}"
        try:
            pres, fres, ures, sres = filter_step(filt, k, cands, obs, shadow)
        except Exception as ex:  # noqa: BLE001
            return bad(f"lattice-{mode}-exception-{type(ex).__name__}", f"the filter raised {ex!r} at {where}")
        ures_raw = ures
        if u != 1.0:
            pres, fres, ures, sres = _Back(pres), [_Back(f) for f in fres], _Back(ures), (_Back(sres) if sres is not None else None)
        e_px, e_pp, e_x, e_p = qmat(st["predx"])[:, 0], qmat(st["predP"]), qmat(st["estx"])[:, 0], qmat(st["estP"])
        if not _close(pres.pred_x, e_px, cf):
            return bad("predict-pred_x", f"pred_x differs from F x at {where}", pred_x=pres.pred_x, expected=e_px)
        if not _close(pres.pred_p, e_pp):
            return bad("predict-pred_p", f"pred_p differs from F P F' + Q at {where}", pred_p=pres.pred_p, expected=e_pp)
        for c, (f, fr_) in enumerate(zip(st["fcs"], fres)):
            shape = "x".join(str(o["m"]) for o in f["obs"])
            for name, got, exp in (("innov_cvr", fr_.innov_cvr, qmat(f["S"])), ("kalman_gain", fr_.kalman_gain, qmat(f["K"])),
                                   ("est_p", fr_.est_p, qmat(f["P"]))):
                if not _close(got, exp):
                    return bad(f"{mode}-forecast-{name}",
                               f"stand-alone forecast #{c + 1} (candidate stack {shape}): {name} differs from the Kalman "
                               f"value at {where}", **{name: got, "expected": exp})
        after = " after stand-alone forecasts" if (cands or any(s2["fcs"] for s2 in b["steps"][:k])) else ""
        if not obs:
            if not _close(ures.est_x, e_x, cf):
                return bad("noobs-est_x", f"update([]) does not return the propagated mean at {where}",
                           est_x=ures.est_x, expected=e_x)
            if not _close(ures.est_p, e_p):
                return bad("noobs-est_p", f"update([]) does not keep pred_p at {where}", est_p=ures.est_p, expected=e_p)
        else:
            e_s, e_k = qmat(st["S"]), qmat(st["K"])
            shape = "x".join(str(o["m"]) for o in st["obs"])
            if not _close(ures.innov_cvr, e_s):
                return bad(f"{mode}-update-innov_cvr", f"innov_cvr differs from the Kalman value{after} at {where}, stack {shape}",
                           innov_cvr=ures.innov_cvr, expected=e_s)
            if not _close(ures.kalman_gain, e_k):
                sig = f"{mode}-update-kalman_gain"
                what = f"kalman_gain differs from the Kalman gain{after} at {where}, stack {shape}"
                if b["resample"]:
                    H = np.vstack([np.atleast_2d(np.array(o["H"], dtype=float)) for o in st["obs"]])
                    ks = stale_gain(F, P_prev, e_pp, H, e_s)
                    if ks is not None and _close(ures.kalman_gain, ks, 10.0):
                        sig += "-stale-xres"
                        what += " (it equals the gain formed from the PRE-resampling state residuals)"
                return bad(sig, what, kalman_gain=ures.kalman_gain, expected=e_k)
            if not _close(ures.est_p, e_p):
                return bad(f"{mode}-update-est_p", f"est_p differs from P- - K S K'{after} at {where}, stack {shape}",
                           est_p=ures.est_p, expected=e_p)
            if not _close(ures.est_x, e_x, cf):
                return bad(f"{mode}-update-est_x", f"est_x differs from x- + K (y - H x-){after} at {where}, stack {shape}",
                           est_x=ures.est_x, expected=e_x)
        if sres is not None:
            try:
                shadow.applyFilterResult(ures_raw)      # not needed by the shadow itself; exercises apply()
            except Exception as ex:  # noqa: BLE001
                return bad(f"handover-exception-{type(ex).__name__}", f"applyFilterResult(UKFUpdateResult) raised {ex!r} at {where}")
            for name, got, exp, fac in (("est_x", sres.est_x, e_x, cf), ("est_p", sres.est_p, e_p, 1.0)) + \
                    ((("kalman_gain", sres.kalman_gain, qmat(st["K"]), 1.0),) if obs else ()):
                if not _close(got, exp, fac):
                    return bad(f"handover-{mode}-{name}",
                               f"after predict -> UKFPredictResult -> applyFilterResult -> update on a second instance, "
                               f"{name} differs from the Kalman value at {where}", **{name: got, "expected": exp})
        P_prev = e_p
    return key, nontrivial, None


# ------------------------------------------------------------------------------------------
# seeded random sub-lattices (handed to TLC as JSON, enumerated exhaustively by TLC)
# ------------------------------------------------------------------------------------------
TUN_POOL = [((1, 1000), (2, 1), None), ((1, 1), (2, 1), None), ((1, 2), (2, 1), None), ((1, 1), (0, 1), (0, 1)),
            ((1, 10), (3, 2), (1, 1)), ((1, 1), (2, 1), (-1, 2)), ((3, 4), (1, 1), (2, 1)), ((1, 100), (2, 1), (0, 1)),
            ((1, 4), (3, 1), (5, 2)), ((9, 10), (0, 1), (1, 2)), ((1, 5), (2, 1), None), ((2, 5), (1, 2), (3, 1))]


def _pd_int(rng, m):
    """Random positive-definite integer matrix L L' with a small integer Cholesky factor."""
    if m == 1:
        return [[rng.choice((1, 2, 3, 4, 5, 8, 9))]]
    a, c, bb = rng.randint(1, 3), rng.randint(1, 3), rng.randint(-2, 2)
    if rng.random() < 0.4:
        bb = 0
    return [[a * a, a * bb], [a * bb, bb * bb + c * c]]


def _imat(rng, r, c, lo=-3, hi=3):
    return [[rng.randint(lo, hi) for _ in range(c)] for _ in range(r)]


def _distinct(gen, k):
    out = []
    for _ in range(50):
        v = gen()
        if v not in out:
            out.append(v)
        if len(out) == k:
            break
    return out


def random_lattice(rng, nsteps):
    tuns = rng.sample(TUN_POOL, 2)
    shapes = [[], [1], [2], [1, 1], [1, 2], [2, 1]]
    cshapes = [[1], [2], [1, 2], [2, 1], [1, 1]]
    if nsteps == 1:
        stacks = [[[]] + rng.sample(shapes[1:], 2), []]
        fseqs = [[[], [rng.choice(cshapes)]], [[]]]
        kf, kp, kh = 2, 2, 1
    else:
        stacks = [rng.sample(shapes[:3], 2) + [rng.choice(shapes[3:])], rng.sample(shapes[:3], 2) + [rng.choice(shapes[3:])]]
        fseqs = [[[], [rng.choice(cshapes) for _ in range(rng.randint(1, 2))]], [[], [rng.choice(cshapes)]]]
        if rng.random() < 0.5:
            fseqs[1] = [[]]
        kf, kp, kh = 1, 1, 1
    return {
        "fseqs": fseqs, "nc": 1,
        "CH": [[[_imat(rng, m, n)] for m in (1, 2)] for n in (1, 2)],
        "CR": [[_pd_int(rng, m)] for m in (1, 2)],
        "dims": [1, 2], "modes": [True, False], "nsteps": [nsteps], "stacks": stacks,
        "tun": [{"alpha": list(a), "beta": list(bt), "kappa": list(kp_ or (0, 1)), "dflt": kp_ is None} for a, bt, kp_ in tuns],
        "F": [_distinct(lambda n=n: _imat(rng, n, n), kf) for n in (1, 2)],
        "Q": [_distinct(lambda n=n: _pd_int(rng, n), 1) for n in (1, 2)],
        "X": [_distinct(lambda n=n: [rng.randint(-6, 6) for _ in range(n)], 1) for n in (1, 2)],
        "P": [_distinct(lambda n=n: _pd_int(rng, n), kp) for n in (1, 2)],
        "H": [[_distinct(lambda n=n, m=m: _imat(rng, m, n), kh) for m in (1, 2)] for n in (1, 2)],
        "R": [_distinct(lambda m=m: _pd_int(rng, m), 2 if nsteps == 1 else 1) for m in (1, 2)],
        "Y": [_distinct(lambda m=m: [rng.randint(-6, 6) for _ in range(m)], 1) for m in (1, 2)],
    }


# ------------------------------------------------------------------------------------------
# part 2: relations on logged matrices (dimensions 1..8, dense real matrices)
# ------------------------------------------------------------------------------------------
def _pd_real(rng, m, lo=0.2):
    a = rng.normal(size=(m, m))
    return a @ a.T / m + (lo + rng.random()) * np.eye(m)


def random_system(rng, idx):
    n = int(rng.integers(1, 9)) if idx % 4 else int(rng.integers(3, 9))
    tun = TUN_POOL[int(rng.integers(0, len(TUN_POOL)))]
    kappa = None if tun[2] is None else tun[2][0] / tun[2][1]
    if kappa is not None and n + kappa <= 0:
        kappa = None
    steps = []
    for _ in range(int(rng.integers(1, 4))):
        nobs = int(rng.choice((0, 1, 1, 2, 2, 3, 4)))
        stack = []
        for _ in range(nobs):
            m = int(rng.integers(1, 5))
            H = rng.normal(size=(m, n)) * (rng.random(size=(m, 1)) < 0.9)
            stack.append({"H": H.tolist(), "R": _pd_real(rng, m, 0.05).tolist(), "y": (rng.normal(size=m) * 4).tolist()})
        cands = []
        for _ in range(int(rng.choice((0, 0, 1, 2, 3)))):
            cand = []
            for _ in range(int(rng.integers(1, 3))):
                m = int(rng.integers(1, 5))
                cand.append({"H": rng.normal(size=(m, n)).tolist(), "R": _pd_real(rng, m, 0.05).tolist(), "y": [0.0] * m})
            cands.append(cand)
        steps.append({"obs": stack, "cands": cands})
    scale = float(rng.choice((0.5, 1.0, 1.3)))
    return {"n": n, "resample": bool(idx % 2), "alpha": tun[0][0] / tun[0][1], "beta": tun[1][0] / tun[1][1], "kappa": kappa,
            "F": (rng.normal(size=(n, n)) * scale / np.sqrt(n)).tolist(), "Q": _pd_real(rng, n, 0.01).tolist(),
            "x0": (rng.normal(size=n) * 5).tolist(), "P0": _pd_real(rng, n).tolist(), "steps": steps}


def _q(res):
    """relative residual -> integer in units of 1e-12 (capped)."""
    if not np.isfinite(res):
        return 10**9
    return int(min(10**9, np.ceil(max(0.0, res) / 1e-12)))


def _rel(a, b, factor=1.0):
    a, b = np.asarray(a, dtype=float), np.asarray(b, dtype=float)
    if a.shape != b.shape:
        return float("inf")
    return float(np.abs(a - b).max()) / max(1e-300, float(np.abs(a).max()), float(np.abs(b).max())) / factor


def _asym(a):
    return float(np.abs(a - a.T).max()) / max(1e-300, float(np.abs(a).max()))


def _neg_eig(a):
    s = (a + a.T) / 2.0
    return max(0.0, -float(np.linalg.eigvalsh(s).min())) / max(1e-300, float(np.abs(a).max()))


def _stack_hr(stack):
    H = np.vstack([np.atleast_2d(np.array(o["H"], dtype=float)) for o in stack])
    m = H.shape[0]
    Rm = np.zeros((m, m))
    at = 0
    for o in stack:
        d = len(o["y"])
        Rm[at:at + d, at:at + d] = np.array(o["R"])
        at += d
    return H, Rm


def relation_records(sysd):
    """Run the REAL filter on one random system; one projected record per filter step."""
    n = sysd["n"]
    F, Q = np.array(sysd["F"]), np.array(sysd["Q"])
    filt = upd = make_filter(F, Q, sysd["x0"], sysd["P0"], sysd["resample"], sysd["alpha"], sysd["beta"], sysd["kappa"])
    cf = cond_factor(upd)
    x, P = np.array(sysd["x0"], dtype=float), np.array(sysd["P0"], dtype=float)
    recs = []
    for k, stp in enumerate(sysd["steps"]):
        stack = stp["obs"]
        obs = [make_obs(o["H"], o["R"], o["y"], 20000 + j) for j, o in enumerate(stack)]
        cands = [[make_obs(o["H"], o["R"], o["y"], 30000 + 10 * c + j) for j, o in enumerate(cd)]
                 for c, cd in enumerate(stp["cands"])]
        pres, fres, ures, _ = filter_step(filt, k, cands, obs)
        m = sum(len(o["y"]) for o in stack)
        prop = F @ P @ F.T
        kf = -1
        for cd, fr_ in zip(stp["cands"], fres):      # stand-alone forecasts: S, K, P+ of the candidate stack
            Hc, Rc = _stack_hr(cd)
            Pg = np.asarray(pres.pred_p, dtype=float) if sysd["resample"] else prop
            Sc, Kc = np.asarray(fr_.innov_cvr, dtype=float), np.asarray(fr_.kalman_gain, dtype=float)
            ok = Kc.shape == (n, Hc.shape[0]) and Sc.shape == (Hc.shape[0],) * 2
            kf = max(kf, _q(max(_rel(Sc, Hc @ Pg @ Hc.T + Rc), _rel(Kc @ Sc, Pg @ Hc.T),
                                _rel(fr_.est_p, pres.pred_p - Kc @ Sc @ Kc.T))) if ok else 10**9)
        rec = {"n": n, "m": m, "resample": sysd["resample"], "step": k + 1,
               "wsum": _q(abs(float(upd.mean_weight.sum()) - 1.0) / cf),
               "kpred": _q(max(_rel(pres.pred_x, F @ x, cf), _rel(pres.pred_p, prop + Q))),
               "kfcast": kf, "nfc": len(fres),
               "symp": _q(_asym(pres.pred_p)), "psdp": _q(_neg_eig(pres.pred_p)),
               "syme": -1, "psde": -1, "kinnov": -1, "kgain": -1, "kmean": -1, "pkskt": -1, "le": -1, "noobs": -1,
               "stale": False}
        est_p = np.asarray(ures.est_p, dtype=float)
        rec["syme"], rec["psde"] = _q(_asym(est_p)), _q(_neg_eig(est_p))
        pp = np.asarray(pres.pred_p, dtype=float)
        dd = pp - est_p
        rec["le"] = _q(max(0.0, -float(np.linalg.eigvalsh((dd + dd.T) / 2.0).min())) / max(1e-300, float(np.abs(pp).max())))
        if m == 0:
            rec["noobs"] = _q(max(_rel(ures.est_x, F @ x), _rel(est_p, pres.pred_p)))
        else:
            H, Rm = _stack_hr(stack)
            y = np.concatenate([np.array(o["y"], dtype=float) for o in stack])
            S, K = np.asarray(ures.innov_cvr, dtype=float), np.asarray(ures.kalman_gain, dtype=float)
            Pg = np.asarray(pres.pred_p, dtype=float) if sysd["resample"] else prop
            rec["kinnov"] = _q(_rel(S, H @ Pg @ H.T + Rm))
            rec["kgain"] = _q(_rel(K @ S, Pg @ H.T)) if K.shape == (n, m) and S.shape == (m, m) else 10**9
            rec["kmean"] = _q(_rel(ures.est_x, pres.pred_x + K @ (y - H @ pres.pred_x), cf)) if K.shape == (n, m) else 10**9
            rec["pkskt"] = _q(_rel(est_p, pres.pred_p - K @ S @ K.T)) if K.shape == (n, m) else 10**9
            if S.shape == (m, m):
                rec["syme"] = max(rec["syme"], _q(_asym(S)))
                rec["psde"] = max(rec["psde"], _q(_neg_eig(S)))
            if sysd["resample"] and rec["kgain"] > 1000:
                ks = stale_gain(F, P, np.asarray(pres.pred_p, dtype=float), H, S)
                rec["stale"] = bool(ks is not None and _rel(K, ks) < 1e-7)
        recs.append(rec)
        x, P = np.asarray(ures.est_x, dtype=float), est_p
    return recs


def _relations_job(args):
    """Worker: (index, seed) -> (system, records | exception text)."""
    idx, seed = args
    rng = np.random.default_rng([seed, idx])
    sysd = random_system(rng, idx)
    try:
        return sysd, relation_records(sysd), None
    except Exception as ex:  # noqa: BLE001
        return sysd, [], f"{type(ex).__name__}: {ex}"


# ------------------------------------------------------------------------------------------
def _cfg(lattices):
    return ("SPECIFICATION Spec\nCONSTANT Lattices <- " + lattices + "\nCONSTANT StaleResampleFlag = FALSE\n"
            + "".join(f"INVARIANT {i}\n" for i in INVS) + "PROPERTY ForecastKeepsEstimate\n"
            + "INVARIANT Emit\nINVARIANT EmitOverflow\n")


def _run_deviation(ctx):
    """The named spec deviation (stale `resampled` flag: forecast() redraws only once per measurement update and only
    update() WITH observations clears the flag) must be refuted by TLC."""
    d = ctx.sub("deviation")
    (d / "lat.json").write_text("[]")
    res = tlc.run_tlc("LinearGaussian", "LinearGaussian_dev_staleflag.cfg", d, workers=2, timeout=600, cont=True,
                      env={"LG_LATTICES": "lat.json"})
    tlc.require_ok(res, "LinearGaussian deviation StaleResampleFlag")
    killed = {inv for inv, _ in res.invariant_violations}
    # (TLC reports the first violated invariant of a state; the stale state violates both)
    if not {"ForecastUsesFreshSigmaPoints", "RedrawIsTextbookKalman"} & killed:
        raise tlc.MachineryError(f"spec deviation StaleResampleFlag is not refuted by TLC (violated: {sorted(killed)})")
    return res, sorted(killed)


def _run_lattice_tlc(ctx, name, lattices, workers, lat_json="[]", coverage=False):
    d = ctx.sub(name)
    (d / "lat.json").write_text(lat_json)
    res = tlc.run_tlc("LinearGaussian", _cfg(lattices), d, workers=workers, timeout=3000, coverage=coverage,
                      env={"LG_LATTICES": "lat.json"})
    tlc.require_ok(res, f"LinearGaussian {name}")
    for inv, states in res.invariant_violations:
        raise tlc.MachineryError(f"LinearGaussian.tla: {inv} fails on the reference itself ({name}):\n"
                                 + "\n".join(states[-1:]))
    if not res.ok:
        raise tlc.MachineryError(f"LinearGaussian {name} did not complete:\n" + res.stdout[-1500:])
    return res


def run(ctx: Ctx):
    import multiprocessing
    from concurrent.futures import ThreadPoolExecutor

    _load()
    rng = random.Random(ctx.seed * 1000003 + 6)
    ctx.rule = ("lattice: every behaviour TLC enumerates from LinearGaussian.tla (static product lattices of the tier "
                "+ seeded random sub-lattices; n in 1..2, integer F,H,P,Q,R, stacks of 0..2 observations of dim 1..2, "
                "both modes, 1..2 steps, rational tunings), key = (n, mode, tuning, F, Q, x0, P0, observations); "
                "non-trivial = at least one step has observations.  relations: seeded random dense systems, n in 1..8, "
                "0..4 stacked observations of dim 1..4, 1..3 steps, key = (seed, index)")
    ctx.assumptions = [
        f"float vs exact rational: |got - expected|_max <= {RTOL:g} * max(1, |expected|_max); for the mean-type outputs "
        "(pred_x, est_x) the bound is multiplied by max(1, sum|Wm_i| / 1e5), the condition number of the weighted mean "
        "(1 unless alpha < 0.004; 13 for the default alpha = 0.001 at n = 2)",
        "no-redraw mode is read as documented: gain and innovation covariance from the propagated sigma points "
        "(F P F' in place of P-), est_p = pred_p - K S K'",
        "relations for n in 1..8 are evaluated numerically (numpy) by the driver and projected to integers in units of "
        "1e-12 relative; TLC only compares them with Tol = 1000 (1e-9); they are not an exact decision",
        "linear measurements are declared NOT_ANGLE; time stamps and sensor states are irrelevant to a linear model",
    ]
    nproc = max(2, min(8, ctx.cpus // 2))
    pool = multiprocessing.get_context("fork").Pool(nproc)      # forked before any thread exists
    try:
        # ---- TLC runs (threads) -----------------------------------------------------------
        n_rand1, n_rand2 = (2, 1) if ctx.quick else (40, 24)
        rand_lats = [random_lattice(rng, 1) for _ in range(n_rand1)] + [random_lattice(rng, 2) for _ in range(n_rand2)]
        if ctx.quick:
            plans = [("quick", "LatsQuick", "[]"), ("random", "LatsFile", json.dumps(rand_lats))]
        else:
            half = len(rand_lats) // 2
            plans = [("thorough", "LatsThorough", "[]"), ("seq", "LatsSeqThorough", "[]"), ("quick", "LatsQuick", "[]"),
                     ("random1", "LatsFile", json.dumps(rand_lats[:half])), ("random2", "LatsFile", json.dumps(rand_lats[half:]))]
        wk = max(2, ctx.cpus // (2 if ctx.quick else 3))
        n_sys = 400 if ctx.quick else 6000
        with ThreadPoolExecutor(len(plans) + 1) as ex:
            futs = [ex.submit(_run_lattice_tlc, ctx, name, lats, wk, js) for name, lats, js in plans]
            fdev = ex.submit(_run_deviation, ctx)
            # meanwhile: the relations part on the worker pool
            rel = pool.map(_relations_job, [(i, ctx.seed) for i in range(n_sys)], chunksize=25)
            results = [f.result() for f in futs]
            dev, killed = fdev.result()
        ctx.add_tlc(dev, "LinearGaussian.tla with the named deviation StaleResampleFlag = TRUE (must be refuted)")
        ctx.extra["spec_mutants_killed"] = {"StaleResampleFlag": killed}
        # ---- part 1: replay -----------------------------------------------------------------
        behaviours, seen, overflow = [], set(), 0
        for (name, lats, _), res in zip(plans, results):
            ctx.add_tlc(res, f"LinearGaussian.tla exhaustive over {lats} ({name}): reference invariants + expected values")
            overflow += len(res.tuples("LGOVF"))
            for b in res.tagged("LG"):
                k = beh_key(b)
                if k not in seen:
                    seen.add(k)
                    behaviours.append(b)
        if not behaviours:
            raise tlc.MachineryError("LinearGaussian.tla emitted no behaviour")
        # every action of the specification was taken (a "done" behaviour passes through all Pose* actions, Predict
        # and Advance; Forecast/Update need a step with observations, UpdateNoObs one without, PoseObs a stack)
        if not any(s["fcs"] and not s["obs"] for b in behaviours if b["resample"] and len(b["steps"]) == 2
                   for s in b["steps"][:1]):
            raise tlc.MachineryError("no behaviour with predict, forecast, update([]), predict, ... in resample mode")
        kinds = {(len(s["obs"]) > 0) for b in behaviours for s in b["steps"]}
        shapes = {tuple(o["m"] for o in s["obs"]) for b in behaviours for s in b["steps"]}
        if kinds != {True, False} or not {(1, 2), (2, 1)} <= shapes or {len(b["steps"]) for b in behaviours} != {1, 2} \
                or {b["resample"] for b in behaviours} != {True, False} or {b["n"] for b in behaviours} != {1, 2}:
            raise tlc.MachineryError(f"lattice does not exercise every action/mode: kinds={kinds} shapes={shapes}")
        behaviours.sort(key=beh_key)          # TLC's workers print in no fixed order; make the run deterministic
        jobs = [(b, i % 3 == 0) for i, b in enumerate(behaviours)]
        # every behaviour once more in other units (quick: one of the three scales, thorough: all three)
        jobs += [(b, i % 5 == 0, UNITS[(i + j) % len(UNITS)]) for i, b in enumerate(behaviours)
                 for j in range(1 if ctx.quick else len(UNITS))]
        out = pool.map(replay_behaviour, jobs, chunksize=64)
        by_sig: dict = {}
        nviol = 0
        for (b, *_), (key, nontrivial, viol) in zip(jobs, out):
            ctx.case(("lattice",) + key, nontrivial=nontrivial,
                     sample={"n": b["n"], "resample": b["resample"], "tun": b["tun"], "F": b["F"], "steps": len(b["steps"]),
                             "obs": [[o["m"] for o in s["obs"]] for s in b["steps"]],
                             "standalone_forecasts": [[[o["m"] for o in f["obs"]] for f in s["fcs"]] for s in b["steps"]]}
                     if len(ctx.samples) < 3 and nontrivial and (len(ctx.samples) < 2 or any(s["fcs"] for s in b["steps"])) else None)
            if viol:
                nviol += 1
                by_sig.setdefault(viol[0], []).append(viol)
        for sig, vs in sorted(by_sig.items()):
            ctx.violation(sig, f"{vs[0][1]} [{len(vs)} lattice behaviours]", vs[0][2])
        ctx.traces_validated += len(behaviours)
        ctx.extra["lattice_behaviours_replayed"] = len(behaviours)
        ctx.extra["lattice_unit_change_replays"] = len(jobs) - len(behaviours)
        ctx.extra["lattice_behaviours_two_step"] = sum(1 for b in behaviours if len(b["steps"]) == 2)
        ctx.extra["lattice_behaviours_with_standalone_forecasts"] = sum(1 for b in behaviours if any(s["fcs"] for s in b["steps"]))
        ctx.extra["lattice_standalone_forecasts_compared"] = sum(len(s["fcs"]) for b in behaviours for s in b["steps"])
        ctx.extra["lattice_behaviours_violating"] = nviol
        ctx.extra["lattice_violations_by_signature"] = {s: len(v) for s, v in sorted(by_sig.items())}
        ctx.extra["lattice_behaviours_dropped_not_representable_in_32_bit"] = overflow
        ctx.extra["random_sub_lattices"] = len(rand_lats)
        # ---- part 2: relations -> TLC ----------------------------------------------------------
        validate_relations(ctx, rel)
    finally:
        pool.terminate()
        pool.join()


def validate_relations(ctx: Ctx, rel):
    import re
    recs, owner = [], []
    for idx, (sysd, rs, err) in enumerate(rel):
        mode = "redraw" if sysd["resample"] else "noredraw"
        nobs = [len(s["obs"]) for s in sysd["steps"]]
        ctx.case(("relations", ctx.seed, idx), nontrivial=any(nobs),
                 sample={"relations_system": {"n": sysd["n"], "resample": sysd["resample"], "alpha": sysd["alpha"],
                                              "obs_dims": [[len(o["y"]) for o in s["obs"]] for s in sysd["steps"]],
                                              "standalone_forecasts": [len(s["cands"]) for s in sysd["steps"]]}}
                 if idx in (1, 2) else None)
        if err:
            ctx.violation(f"rel-{mode}-exception-{err.split(':')[0]}",
                          f"the filter raised {err} on a random linear system (n={sysd['n']}, {mode})", {"system": sysd})
            continue
        for r in rs:
            recs.append(r)
            owner.append(idx)
    if not recs:
        raise tlc.MachineryError("no relation records were produced")
    d = ctx.sub("relations")
    (d / "records.json").write_text(json.dumps(recs))
    cfg = "SPECIFICATION Spec\nCONSTANT Tol = 1000\n" + "".join(f"INVARIANT {i}\n" for i in TRACE_INVS)
    res = tlc.run_tlc("TraceLinearGaussian", cfg, d, workers=max(2, ctx.cpus // 4), cont=True, timeout=1500,
                      env={"LG_RECORDS": "records.json"})
    tlc.require_ok(res, "TraceLinearGaussian")
    ctx.add_tlc(res, f"trace validation of {len(recs)} logged filter steps (relations, n in 1..8)")
    # 1 + NB blocks + per record: posed, predicted, updated|kept
    expected = 1 + 32 + 3 * len(recs)
    if res.distinct_states != expected:
        raise tlc.MachineryError(f"TraceLinearGaussian: {res.distinct_states} states, expected {expected}\n" + res.stdout[-1500:])
    failed: dict = {}
    for inv, states in res.invariant_violations:
        m = re.findall(r"/\\ i = (\d+)", "\n".join(states))
        if not m:
            raise tlc.MachineryError(f"cannot map violation of {inv} to a record")
        failed.setdefault(int(m[-1]) - 1, set()).add(inv)
    blamed: dict = {}
    for ri in sorted(failed):
        sysd = rel[owner[ri]][0]
        if owner[ri] in blamed:          # later steps of an already blamed system are contaminated
            continue
        first = [i for i in BLAME if i in failed[ri]][0]
        mode = "redraw" if sysd["resample"] else "noredraw"
        sig = f"rel-{mode}-{first}"
        if first == "KalmanGain" and recs[ri].get("stale"):
            sig += "-stale-xres"
        blamed[owner[ri]] = (sig, ri, sorted(failed[ri]))
    by_sig: dict = {}
    for o, (sig, ri, invs) in blamed.items():
        by_sig.setdefault(sig, []).append((o, ri, invs))
    for sig, lst in sorted(by_sig.items()):
        o, ri, invs = lst[0]
        ctx.violation(sig, f"real filter step violates {invs} (n={recs[ri]['n']}, m={recs[ri]['m']}, step {recs[ri]['step']}) "
                           f"[{len(lst)} random systems]", {"system": rel[o][0], "record": recs[ri], "seed": ctx.seed, "index": o})
    ctx.traces_validated += len(recs)
    ctx.extra["relation_systems"] = len(rel)
    ctx.extra["relation_records"] = len(recs)
    ctx.extra["relation_records_dim_ge_3"] = sum(1 for r in recs if r["n"] >= 3)
    ctx.extra["relation_standalone_forecasts"] = sum(r["nfc"] for r in recs)
    ctx.extra["relation_systems_violating"] = len(blamed)
    ctx.extra["relation_violations_by_signature"] = {s: len(v) for s, v in sorted(by_sig.items())}


def replay(ctx: Ctx, rp: dict):
    """Re-run one stored failing input against the current tree."""
    _load()
    r = rp["replay"]
    if "behaviour" in r:
        b = r["behaviour"]
        key, nontrivial, viol = replay_behaviour((b, True, rp["replay"].get("unit", 1.0)))
        ctx.case(("lattice",) + key, nontrivial=nontrivial)
        ctx.case(("replay", rp.get("signature")))
        if viol:
            ctx.violation(*viol)
        ctx.traces_validated += 1
    elif "system" in r:
        sysd = r["system"]
        try:
            rel = [(sysd, relation_records(sysd), None)]
        except Exception as ex:  # noqa: BLE001
            rel = [(sysd, [], f"{type(ex).__name__}: {ex}")]
        validate_relations(ctx, rel)
        ctx.case(("replay", rp.get("signature")))
    else:
        run(ctx)
