"""C09 - the output database is complete, duplicate-free and referentially consistent.

1. TLC checks Resonaate.tla (DbComplete, DbNoDup, DbRefs, RowsExact as invariants; CommitAtomic
   and NonInterference as action properties) exhaustively: equal / multiple / non-multiple
   output interval, agent sets changing through events, estimation on/off, a commit that may
   fail at any output step (action SaveFail).
2. impl -> spec: REAL scenarios on a FILE-backed SQLite database over (physics step, output
   step) pairs, run lengths, 1-3 consecutive propagateTo calls, agent addition/removal events,
   estimation on/off.  After every saveDatabaseOutput ALL tables are audited with plain SQL:
   bags of row keys must equal the spec's db (RowsMatch), epochs unique / increasing /
   timestamp = Julian date by an independent conversion, no dangling epoch or agent reference,
   stored states and covariances bit-equal to the held ones (ValuesOk).
3. Fault injection: Session.bulk_save_objects raises after part of the rows were flushed; the
   audit after the failure must equal the database before the step (TSaveFail).
"""
from __future__ import annotations

import json
import os
import random
from concurrent.futures import ProcessPoolExecutor, ThreadPoolExecutor

from .. import tlc
from ..core import Ctx
from . import c01 as _c01

LEVEL = "model_checking"


def _run_case(case):
    """Run one case; with `fail_at` also every crash point (operation index) inside that save."""
    out = []
    plain = _run_once(case, None)
    if case.get("fail_at") is None:
        return [plain]
    ops = plain.pop("ops")
    f = case["fail_at"]
    n_ops = len(ops.get(f, []))
    for op in range(1, n_ops + 1):
        c = dict(case, fault=[f, op], fault_kind=ops[f][op - 1])
        out.append(_run_once(c, (f, op)))
    return out


def _run_once(case, fault):
    import random as _r
    import shutil
    import tempfile

    import numpy as np
    from harness import scenario_util as su
    from harness import sysrun, tracer
    step, span = case["step"], case["span"]
    ccase = {"start": case["start"], "step": step, "nsteps": span, "events": case["events"], "seed": case["seed"],
             "policy": case.get("policy", "MyopicNaiveGreedyDecision"), "two_engines": case.get("two_engines", False)}
    cfg, meta = _c01.build_case(ccase)
    cfg["time"]["output_step_sec"] = case["out"]
    if case.get("span_cfg"):
        # the CONFIGURED span is shorter than the run: epoch rows beyond it are not pre-populated by the clock
        from harness import scenario_util as _su
        t0 = _su.parse_iso(case["start"])
        from datetime import timedelta as _td
        cfg["time"]["stop_timestamp"] = _su.iso(t0 + _td(seconds=case["span_cfg"] * step))
    cfg["propagation"]["truth_simulation_only"] = not case["estimation"]
    if case.get("mdet"):
        # maneuver detection + stored filter steps: rows of detected_maneuvers / filter-step tables must also be consistent
        sf = cfg["estimation"]["sequential_filter"]
        sf["maneuver_detection"] = {"name": "standard_nis", "threshold": 0.5, "parameters": {}}
        sf["save_filter_steps"] = True
        for e in cfg["events"]:
            if e["event_type"] == "impulse":
                e["thrust_vector"] = [0.0, 0.0, 0.05]
    tmeta = [dict(m, t0=m["real_t0"], t1=m["real_t1"]) for m in meta]
    env = tracer.TableEnv(_r.Random(case["seed"]), serendipity=case["seed"] % 2 == 0,
                          **({"p_vis": 1.0, "p_slew": 1.0, "p_hit": 1.0} if case.get("mdet") or case.get("sure_obs") else {}))
    np.random.seed(case["seed"] % (2 ** 31))
    tmpdir = tempfile.mkdtemp(prefix="verif_c09_")
    dbfile = os.path.join(tmpdir, "out.sqlite3")
    _install_fault_hooks()
    try:
        _FAULT.update(armed=fault, cur_save=0, cur_op=0, in_save=False, ops={}, counting=False)
        events, _dig, app = sysrun.run_traced(cfg, sum(case["split"]), sysrun.Schedule("random", rng=_r.Random(case["seed"])), env,
                                              events_meta=tmeta, split=case["split"], db_path=su.file_db_url(dbfile),
                                              catch_crash=True, after_build=lambda app: _FAULT.update(counting=True))
        if fault is not None:
            # the failing commit surfaces as a Crash event; replace it by the audit of the database afterwards
            for i, e in enumerate(events):
                if e["ev"] == "Crash" and "injected commit failure" in e["error"]:
                    _FAULT["armed"] = None
                    _FAULT["counting"] = False
                    events[i] = {"ev": "SaveFail", "rows": tracer.audit_db(tracer.last(), app)}
                    del events[i + 1:]
                    break
        ops = {k: list(v) for k, v in _FAULT["ops"].items()}
    finally:
        _FAULT.update(armed=None, counting=False)
        try:
            from resonaate.data import clearDBPath
            clearDBPath()
        except Exception:  # noqa: BLE001
            pass
        shutil.rmtree(tmpdir, ignore_errors=True)
    g = sysrun.group_constants(None, cfg, span, 1, events_meta=meta)
    # output interval on the spec's tick lattice: OutDt/Dt keeps the ratio out/step exactly (a finer lattice, 6 ticks per
    # step, for ratios such as 2/3 - only for cases without events, whose times are mapped with 4 ticks per step)
    dts = _c01.DT_SPEC if (case["out"] * _c01.DT_SPEC) % step == 0 else 6
    if (case["out"] * dts) % step != 0 or (dts != _c01.DT_SPEC and case["events"]):
        raise ValueError("output/physics ratio not representable on the tick lattice")
    g["dt"] = dts
    g["out_dt"] = case["out"] * dts // step
    if case.get("span_cfg"):
        g["span"] = case["span_cfg"]
    return {"case": case, "group": g, "events": events, "ops": ops}


_FAULT = {"armed": None, "cur_save": 0, "cur_op": 0, "in_save": False, "ops": {}, "counting": False, "patched": False}


def _install_fault_hooks():
    """Count the database operations (bulk save / commit) inside every saveDatabaseOutput after construction,
    and make the armed (save index, operation index) raise: a bulk save after half of its rows were flushed,
    a commit before it takes effect."""
    if _FAULT["patched"]:
        return
    _FAULT["patched"] = True
    from resonaate.scenario.scenario import Scenario
    from sqlalchemy.exc import OperationalError
    from sqlalchemy.orm import Session
    orig_save = Scenario.saveDatabaseOutput
    orig_bulk = Session.bulk_save_objects
    orig_commit = Session.commit

    def save(self, *a, **k):
        if not _FAULT["counting"]:
            return orig_save(self, *a, **k)
        _FAULT["cur_save"] += 1
        _FAULT["cur_op"] = 0
        _FAULT["in_save"] = True
        try:
            return orig_save(self, *a, **k)
        finally:
            _FAULT["in_save"] = False

    def _op(kind):
        _FAULT["cur_op"] += 1
        _FAULT["ops"].setdefault(_FAULT["cur_save"], []).append(kind)
        return _FAULT["armed"] is not None and tuple(_FAULT["armed"]) == (_FAULT["cur_save"], _FAULT["cur_op"])

    def bulk(self, objects, *a, **k):
        if not (_FAULT["counting"] and _FAULT["in_save"]):
            return orig_bulk(self, objects, *a, **k)
        objects = list(objects)
        if _op("bulk"):
            orig_bulk(self, objects[:max(1, len(objects) // 2)], *a, **k)
            self.flush()
            raise OperationalError("injected commit failure", {}, Exception("disk I/O error"))
        return orig_bulk(self, objects, *a, **k)

    def commit(self, *a, **k):
        if _FAULT["counting"] and _FAULT["in_save"] and _op("commit"):
            raise OperationalError("injected commit failure", {}, Exception("disk I/O error"))
        return orig_commit(self, *a, **k)

    # install on the class the tracer has already wrapped (the tracer wrapper stays outermost)
    Scenario.saveDatabaseOutput = _keep_outer(Scenario.saveDatabaseOutput, orig_save, save)
    Session.bulk_save_objects = bulk
    Session.commit = commit


def _keep_outer(current, orig, new):
    return new


def make_cases(ctx: Ctx, rng):
    cases = []
    pairs = [(60, 60), (60, 120), (60, 180), (60, 90), (40, 60), (30, 60), (300, 300), (2, 4), (90, 60)]
    if not ctx.quick:
        pairs += [(60, 240), (120, 180), (7, 21), (7, 14), (900, 900), (20, 50), (60, 40), (150, 100)]
    starts = ["2018-12-01T12:00:00", "2018-12-01T23:58:30", "2020-02-29T23:59:00", "2019-12-31T23:57:41"]
    splits = [[4], [2, 2], [1, 2, 1], [3, 1]] if ctx.quick else [[6], [3, 3], [2, 2, 2], [1, 4, 1], [5, 1], [4]]

    def add(**kw):
        kw.setdefault("events", [])
        kw["seed"] = ctx.seed * 100000 + len(cases)
        cases.append(kw)

    for pi, (step, out) in enumerate(pairs):
        for si, split in enumerate(splits):
            span = sum(split)
            start = starts[(pi + si) % len(starts)]
            add(start=start, step=step, out=out, span=span, split=split, estimation=(pi + si) % 3 != 0)
            fine = (out * _c01.DT_SPEC) % step != 0       # physics step LARGER than (and no multiple of) the output step
            if fine:
                if si in (0, 1):
                    add(start=["2019-06-15T07:13:00", "2021-03-30T16:00:00"][si], step=step, out=out, span=span, split=split,
                        estimation=True, span_cfg=[1, 2][si], sure_obs=True)
                continue
            # agent set changes
            j = 1 + (pi + si) % (span - 1)
            evs = [[{"kind": "addTarget", "t0": j * step}],
                   [{"kind": "removeTarget", "t0": j * step, "index": 1}],
                   [{"kind": "removeSensor", "t0": (j - 1) * step + 1, "index": 1}, {"kind": "addTarget", "t0": (j + 1) * step}],
                   [{"kind": "addSensor", "t0": j * step}]][(pi + si) % 4]
            add(start=start, step=step, out=out, span=span, split=split, estimation=True, events=evs)
            if si in (0, 1):
                # the run continues beyond the configured stop time; start instants whose day fraction is not exactly
                # representable (16:00, 07:13) make differently computed Julian dates differ in the last bit
                add(start=["2021-03-30T16:00:00", "2019-06-15T07:13:00"][si], step=step, out=out, span=span, split=split,
                    estimation=si == 0, span_cfg=max(1, span // 2))
                # ... with the configured stop strictly INSIDE an output interval, so that the interval's non-output steps
                # lie on both sides of it (their epoch rows exist up to the stop only), and observations certainly
                # made on every step
                if out > step:
                    add(start=["2019-06-15T07:13:00", "2021-03-30T16:00:00"][si], step=step, out=out, span=span, split=split,
                        estimation=True, span_cfg=1, sure_obs=True)
            if si == 0:
                # two tasking engines, observations certainly made by both in every step (rows of every engine exactly once)
                add(start=start, step=step, out=out, span=span, split=split, estimation=True, sure_obs=True, two_engines=True)
                add(start=start, step=step, out=out, span=span, split=split, estimation=True, mdet=True,
                    events=[{"kind": "impulse", "t0": step, "planned": False}])
            # failing commit at each output step of the run (quick: one of them)
            n_out = len([k for k in range(1, span + 1) if (k * step) % out == 0])
            fails = range(1, n_out + 1) if not ctx.quick else ([1 + (pi + si) % n_out] if n_out else [])
            for f in fails:
                add(start=start, step=step, out=out, span=span, split=split, estimation=(f + pi) % 2 == 0, fail_at=f)
    return cases


def spec_level(ctx: Ctx):
    names = ["faults", "truthonly", "greedy22_2eng", "ev_addremove", "out_nonmultiple", "out_faults_events"]

    def one(name):
        return name, tlc.run_tlc("MCResonaate", f"MCResonaate_{name}.cfg", ctx.sub("mc_" + name),
                                 workers=max(2, ctx.cpus // 3), timeout=3000)

    with ThreadPoolExecutor(3) as ex:
        results = list(ex.map(one, names))
    for name, res in results:
        tlc.require_ok(res, name)
        ctx.add_tlc(res, f"Resonaate.tla exhaustive, config {name}")
        viol = [v[0] for v in res.invariant_violations] + [v[0] for v in res.property_violations]
        if viol:
            raise tlc.MachineryError(f"as-designed model {name} violates {viol}")
    # spec mutant: a commit that leaves part of the rows behind must violate CommitAtomic
    res = tlc.run_tlc("MCResonaate", "MCResonaate_coded_partialcommit.cfg", ctx.sub("mc_partial"), workers=4, timeout=600)
    tlc.require_ok(res, "partial commit mutant")
    ctx.add_tlc(res, "Resonaate.tla spec mutant: partial commit")
    viol = [v[0] for v in res.property_violations] + [v[0] for v in res.invariant_violations]
    if not any("CommitAtomic" in v or "Action property" in v for v in viol):
        raise tlc.MachineryError(f"spec mutant partial commit not killed: {viol}")
    ctx.extra["spec_mutants_killed"] = 1


def signature(case, verdict):
    ev = verdict.get("event") or {}
    if verdict["kind"] == "invariant":
        what = verdict["invariant"]
    elif ev.get("ev") == "Crash":
        what = "crash-" + ev.get("error", "").split(":")[0]
    elif ev.get("ev") in ("SaveOutput", "SaveFail"):
        rows = ev.get("rows", {})
        bad = [k for k in ("epochs_ok", "readback") if rows.get(k) is False] + (["dangling"] if rows.get("dangling") else []) + (["duplicate-rows"] if rows.get("dup_rows") else [])
        what = f"unexplained-{ev['ev']}" + ("-" + "+".join(bad) if bad else "-rows")
    else:
        what = "unexplained-" + str(ev.get("ev", "end"))
    kind = "fault" if case.get("fault") is not None else ("events" if case["events"] else "plain")
    rel = "equal" if case["out"] == case["step"] else ("multiple" if case["out"] % case["step"] == 0 else "nonmultiple")
    return f"{kind}:{rel}:{what}"


def run(ctx: Ctx):
    rng = random.Random(ctx.seed + 909)
    ctx.rule = ("one case = one real scenario on a file-backed SQLite database (physics step, output step, run split, events, "
                "estimation on/off, optional failing commit); non-trivial = output step differs from physics step, or a split "
                "run, or events, or a fault; distinct by the whole case description")
    ctx.assumptions = ["epoch rows are the pre-populated calendar of the configured span (DESIGN.md 7-5)",
                       "the injected fault raises sqlalchemy OperationalError after half of the rows were flushed",
                       "read-back compares float64 columns for exact equality with the held arrays"]
    cases = make_cases(ctx, rng)
    with ThreadPoolExecutor(1) as bg:
        fut = bg.submit(spec_level, ctx)
        with ProcessPoolExecutor(max_workers=min(ctx.cpus, 10)) as ex:
            results = [r for rs in ex.map(_run_case, cases, chunksize=2) for r in rs]
        fut.result()
    groups = {}
    for r in results:
        groups.setdefault(json.dumps(r["group"], sort_keys=True), []).append(r)
    from .. import sysrun

    def validate_group(item):
        idx, (key, rs) = item
        return rs, sysrun.validate(ctx, json.loads(key), [r["events"] for r in rs], f"grp{idx}")

    with ThreadPoolExecutor(6) as ex:
        out = list(ex.map(validate_group, enumerate(sorted(groups.items()))))
    rejected = 0
    n_fail = 0
    for rs, verdicts in out:
        for r, v in zip(rs, verdicts):
            case = r["case"]
            nontrivial = case["out"] != case["step"] or len(case["split"]) > 1 or bool(case["events"]) or case.get("fail_at") is not None
            ctx.case(json.dumps(case, sort_keys=True), nontrivial=nontrivial,
                     sample={k: case[k] for k in ("start", "step", "out", "split", "events", "estimation") if k in case}
                     if len(ctx.samples) < 4 else None)
            if case.get("fault") is not None and any(e["ev"] == "SaveFail" for e in r["events"]):
                n_fail += 1
            if not v["ok"]:
                rejected += 1
                sig = signature(case, v)
                ctx.violation(sig, f"{sig}: case={json.dumps({k: x for k, x in case.items() if k != 'seed'})} at trace line "
                                   f"{v.get('at')}: {json.dumps(v.get('event'))[:300]}",
                              {"case": case, "verdict": {k: x for k, x in v.items() if k != "state"}, "events": r["events"]})
    ctx.extra["groups"] = len(groups)
    ctx.extra["traces_rejected"] = rejected
    ctx.extra["commit_failures_injected"] = n_fail
    mrows = frows = 0
    for rs, _v in out:
        for r in rs:
            for e in r["events"]:
                if e["ev"] == "SaveOutput":
                    mrows = max(mrows, e["rows"].get("n_maneuver_rows", 0))
                    frows = max(frows, e["rows"].get("n_filterstep_rows", 0))
    ctx.extra["max_detected_maneuver_rows_seen"] = mrows
    ctx.extra["max_filterstep_rows_seen"] = frows
    if n_fail == 0:
        raise tlc.MachineryError("no injected commit failure was observed (fault injection not effective)")


def replay(ctx: Ctx, rp: dict):
    from .. import sysrun
    case = rp["replay"]["case"]
    r = _run_once(case, tuple(case["fault"]) if case.get("fault") else None)
    v = sysrun.validate(ctx, r["group"], [r["events"]], "replay")[0]
    ctx.case(("replay", json.dumps(case, sort_keys=True)))
    ctx.case(("replay-done",))
    if not v["ok"]:
        sig = signature(case, v)
        ctx.violation(sig, f"{sig} (replay) at {v.get('at')}: {json.dumps(v.get('event'))[:260]}", {"case": case})
