"""C03 - orbit propagation is composable, batch-consistent, Kepler-exact and conservative.

spec/Kinematics.tla (Mode = "calls") models Celestial.propagate / propagateBulk (the solve_ivp
restart loop with a terminal event, the t_eval grid, the batch of K columns) on an exactly
integrable law.  TLC proves Semigroup / BulkConsistent / ExactAtBoundaries / StepwiseEqualsRun
for every reachable state and prints every behaviour (all splits t0 < t1 < t2, batch sizes 1-4,
output grids with 0-3 interior times, with and without an event between output times, and the
caller passing the event queue in every call or only up to some call - action DropEvents: later
calls hand over scheduled_events = None / [] to the SAME dynamics object; the memory layout of
the (6, K) argument: C, Fortran / transposed, strided view, read-only) with the exact states
after every call.  OutputsImmutable (action property): what a completed call returned never
changes - the replay keeps every returned array WITHOUT copying it and re-reads all of them
after the last call of the behaviour (no aliasing with later results, arguments or internal
buffers).  NeighbourCall: a call on the same object that repeats the previous call's start time
with a neighbouring start state (replayed with the offset scaled down to 1e-7 .. 1 lattice units,
the law being linear): a result depends on (t0, t1, x0, events) only, never on earlier calls.  The named deviation StaleThrust (finite_thrust only reset when events are
passed) is refuted by TLC.  The behaviours are replayed into the real code:

(a) EXACT  the real Celestial.propagate / propagateBulk driven by `ExactLaw`: every output of every
           column must equal the spec's integers (1e-9): the spec's numbers are the oracle.
(b) REAL   the real TwoBody and SpecialPerturbations, RK45 and DOP853: the spec supplies the
           RELATION - every output of a behaviour (split calls, batch columns, bulk output times)
           must equal the separate, unsplit, single-column call from the initial state; perturbed
           dynamics must also equal the epoch-shift twin; two-body runs must equal the repository's
           closed-form Kepler solution (and an independent one) and conserve energy and angular
           momentum - the logged first integrals are validated by TLC (spec/TraceKinematics.tla).
           Calls after DropEvents are compared with a FRESH dynamics object that never saw an event,
           started from the reference state at the drop (the result may depend on epoch and state
           only, not on the history of the object).  Targeted strata of the same relations: epochs on
           both sides of calendar boundaries; batches whose columns are in different force regimes
           (solar radiation pressure on, one column sunlit, one in the Earth's umbra for the whole
           call, both orders); dropped events while the burn is on, through SpecialPerturbations.

REDUCED STRENGTH: for the real dynamics the numeric comparisons are relations between
implementation runs (plus closed-form Kepler for two-body); TLC contributes the behaviours, the
exact-law oracle and the validation of the conservation traces.
"""
from __future__ import annotations

import json
import math
import random
import re

import numpy as np

from .. import tlc
from ..core import Ctx
from . import _kinematics as K
from .c15 import Hang, guard

LEVEL = "model_checking"

ALPHA = 1.0e-4
TAUS = (10.0, 60.0, 8.5, 300.0, 2.5)   # seconds per tick; 2.5 s puts the first ticks below 8 s (event re-trigger zone)
BASE_R, BASE_V = 3.0e-7, 3.0e-10      # km, km/s at rtol 1e-13 ("tight"), times (1 + revolutions)^2; 3 x the nominal
#                                       1e-7 / 1e-10 (largest ratio to the nominal over 11 000 comparisons: 0.74)
SHIPPED_FACTOR = 1.0e3                # rtol 1e-10 / 1e-13
KEPLER_ATOL = 1.48e-8                 # resonaate.physics.maths._ATOL: convergence tolerance of the universal-variable solver
TIGHT_RTOL, TIGHT_ATOL = 1.0e-13, 1.0e-15
BURN_ACC = 1.0e-6                     # km/s^2, open-ended ECI burn used as the terminal event
INV03 = ("ExactAtBoundaries", "Semigroup", "BulkConsistent", "StepwiseEqualsRun", "QueueClean", "ThrustExactlyInterval",
         "DeliveredDv")


def spec_cfg(ctx: Ctx) -> dict:
    base = dict(Mode='"calls"', BurnChoice='"open"', Kinds="KindsOne", MaxInterior=3, StepLens="{1}", MaxSteps=1,
                CallerMayDrop="TRUE", CallerMayNeighbour="TRUE")
    if ctx.quick:
        return dict(base, Horizon=5, MaxCalls=2, Ks="{1, 2, 3, 4}", Laws="LawsOne")
    return dict(base, Horizon=6, MaxCalls=3, Ks="{1, 2, 3, 4}", Laws="LawsQuick")


def dropped(b) -> bool:
    """The caller stops passing the event queue at tick b["dropAt"] (spec action DropEvents)."""
    return b.get("dropAt", 10 ** 6) <= b["hor"]


def has_neighbour_call(b) -> bool:
    """The behaviour contains a call that repeats the previous call's start time with a neighbouring state (NeighbourCall)."""
    return any(c.get("base") for c in b["hist"])


def structure(b) -> tuple:
    return (tuple((c["kind"], len(c["times"]) - 2) for c in b["hist"]), b["K"], b["burn"]["kind"] != "none", dropped(b),
            has_neighbour_call(b))


NB_EPS = (1.0e-7, 1.0e-5, 1.0, 1.0e-3)    # size of the neighbour offset in lattice units (the law is linear in the state)


def passed_events(call, ci: int, events):
    """What the caller hands over as `scheduled_events`: the queue, or - after DropEvents - None / [] alternately."""
    if call.get("q", 1) > 0 or not events:
        return list(events)
    return None if ci % 2 else []


LAYOUTS = ("C", "F", "strided", "readonly")


def as_layout(x, layout: str):
    """The same (6, K) values in another memory layout (spec variable `layout`): C-contiguous, Fortran-ordered (the
    transpose of a (K, 6) array, what numpy.array(states).T gives), a strided view (every second column of a wider array,
    NaN in between) or a read-only array."""
    x = np.asarray(x, dtype=float)
    if x.ndim == 1 or layout == "C":
        return np.ascontiguousarray(x)
    if layout == "F":
        return np.ascontiguousarray(x.T).T
    if layout == "strided":
        wide = np.full((x.shape[0], 2 * x.shape[1]), np.nan)
        wide[:, ::2] = x
        return wide[:, ::2]
    if layout == "readonly":
        y = x.copy()
        y.flags.writeable = False
        return y
    raise ValueError(layout)


def stale_results(kept) -> str | None:
    """OutputsImmutable (Kinematics.tla): every array a call returned must still hold what it held when it was returned,
    after ALL later calls of the behaviour; kept = [(call index, returned array - not copied, its copy at return time,
    the argument array)].  Returns a description of the first array that changed, or None."""
    for n, (ci, res, snap, _arg) in enumerate(kept):
        if not np.array_equal(res, snap, equal_nan=True):
            alias = [cj for cj, other, _s, _a in kept[n + 1:] if np.shares_memory(res, other)]
            d = float(np.nanmax(np.abs(np.asarray(res, dtype=float) - snap)))
            return (f"the array returned by call {ci + 1} changed by up to {d:.3g} after later calls"
                    + (f" (it shares memory with the array returned by call {alias[0] + 1})" if alias else ""))
    for n, (ci, res, _snap, _arg) in enumerate(kept):
        for cj, other, _s, arg in kept[n + 1:]:
            if np.shares_memory(res, other) or np.shares_memory(res, arg):
                return f"the array returned by call {ci + 1} shares memory with the result or the argument of call {cj + 1}"
    return None


# ------------------------------------------------------------------ (a) exact law
def crash_signature(prefix: str, call_kind: str, ex: Exception) -> str:
    """propagateBulk has one known crash site: a restart segment without any requested output time."""
    if call_kind == "bulk" and isinstance(ex, (AttributeError, IndexError)):
        return f"{prefix}:bulk-crash-empty-output-segment"
    return f"{prefix}:exception:{type(ex).__name__}"


def exact_one(b, method: str, tau: float, rng: random.Random, tag: str = "exact-law", nb_eps: float = 1.0):
    v0, g, a = b["law"]
    burn = b["burn"]
    emb = K.Embed(rng, tau, ALPHA)
    dyn = K.ExactLaw(g * ALPHA * emb.u, method=method)
    events = []
    if burn["kind"] != "none":
        events.append(emb.thrust_event(burn["kind"], a, burn["ts"] * tau, burn["te"] * tau))
    kk = b["K"]
    x = emb.batch(b["hist"][0].get("x0", b["X0"]))
    outputs = 0
    kept = []
    for ci, call in enumerate(b["hist"]):
        times = [t * tau for t in call["times"]]
        want_outs = call["outs"]
        if call.get("base"):
            # neighbour call (spec action NeighbourCall): same start time as the previous call, on the same object, start state
            # = previous start state + eps * (one lattice unit).  The law is linear, so the exact answer is
            # base + eps * (neighbour - base), both numbers from the spec; a scaled-down eps puts the neighbour within
            # numpy.allclose of the previous state.  Only the last call of a behaviour is scaled (later calls continue it).
            eps = nb_eps if ci == len(b["hist"]) - 1 else 1.0
            prev = emb.batch(b["hist"][ci - 1]["x0"])
            x = prev + eps * (emb.batch(call["x0"]) - prev)
            want_outs = [[[bq + eps * (oq - bq) for oq, bq in zip(o, bs)] for o, bs in zip(out_t, call["base"])] for out_t in call["outs"]]
        arg = as_layout(x, call.get("layout", "C"))
        arg_before = arg.copy()
        try:
            with guard(20.0):
                if call["kind"] == "single":
                    res = dyn.propagate(times[0], times[1], arg[:, 0] if kk == 1 else arg,
                                        scheduled_events=passed_events(call, ci, events))
                    outs = [np.asarray(res, dtype=float).reshape(6, kk)]
                else:
                    res = dyn.propagateBulk(times, arg, scheduled_events=passed_events(call, ci, events))
                    if res.shape != (6, kk, len(times) - 1):
                        return (f"{tag}:bulk-output-shape", f"propagateBulk returned shape {res.shape} for K={kk}, "
                                f"{len(times) - 1} output times", {"call": ci}), outputs
                    outs = [res[:, :, j] for j in range(res.shape[2])]
        except Hang:
            return (f"{tag}:propagate-does-not-terminate", f"{call['kind']} call {call['times']} did not return within 20 s",
                    {"call": ci}), outputs
        except tlc.MachineryError:
            raise
        except Exception as ex:  # noqa: BLE001 - the real code raised on a legal call
            return (crash_signature(tag, call["kind"], ex), f"{call['kind']} call over ticks {call['times']} (K={kk}, burn "
                    f"[{burn['ts']},{burn['te']}) ticks of {tau} s) raised {type(ex).__name__}: {ex}", {"call": ci}), outputs
        for j, (got, want) in enumerate(zip(outs, want_outs)):
            for k in range(kk):
                p2, vv, off = emb.project(got[:, k])
                outputs += 1
                tol_p = max(1e-9 * max(1.0, abs(want[k][0])), 8 * np.spacing(emb.R0 + abs(want[k][0]) * emb.pu) / emb.pu)
                if off > 1e-6 or not K.close(vv, want[k][1]) or abs(p2 - want[k][0]) > tol_p:
                    if call.get("base"):
                        bs = call["base"][k]
                        same = K.close(vv, bs[1]) and abs(p2 - bs[0]) <= tol_p
                        return (f"{tag}:neighbour-call-depends-on-previous-call",
                                f"propagate over ticks {call['times']} right after a call over {b['hist'][ci - 1]['times']} on the same "
                                f"dynamics object, start state {eps:g} lattice unit(s) away from that call's: column {k + 1} is (2p, v) = "
                                f"({p2:.9f}, {vv:.9f}), spec says ({want[k][0]:.9f}, {want[k][1]:.9f})"
                                + ("; the result is the PREVIOUS state's trajectory" if same else ""), {"call": ci, "column": k, "eps": eps}), outputs
                    sig = f"{tag}:propagate-state" if call["kind"] == "single" else f"{tag}:bulk-output"
                    return (sig, f"{call['kind']} call over ticks {call['times']} (K={kk}, burn [{burn['ts']},{burn['te']})"
                            f"{', events passed' if call.get('q', 1) > 0 else ', NO events passed (same dynamics object)'}"
                            f", argument layout {call.get('layout', 'C')}): output {j + 1} column "
                            f"{k + 1} is (2p, v) = ({p2:.9f}, {vv:.9f}), spec says {want[k]}", {"call": ci, "output": j, "column": k}), outputs
        if not np.array_equal(arg, arg_before, equal_nan=True):
            return (f"{tag}:argument-modified", f"{call['kind']} call over ticks {call['times']} changed the state array it was given "
                    f"(layout {call.get('layout', 'C')})", {"call": ci}), outputs
        kept.append((ci, res, np.array(res, dtype=float, copy=True), arg))
        x = outs[-1].copy()
    stale = stale_results(kept)
    if stale:
        return (f"{tag}:earlier-result-changed-by-later-call", f"calls {[[c['kind'], c['times']] for c in b['hist']]} on one dynamics "
                f"object (K={kk}): {stale}; a result handed out must keep the states of its own call", {}), outputs
    return None, outputs


def exact_replay(ctx: Ctx, behs, rng: random.Random, tag: str = "exact-law") -> dict:
    stats = {"behaviours": 0, "outputs": 0, "violations": 0, "by_signature": {}}
    hangs = 0
    for i, b in enumerate(behs):
        if hangs >= 3:       # a tree on which propagation does not terminate: stop, every further case costs 20 s
            stats["aborted_after_hangs"] = True
            break
        methods = ("RK45", "DOP853") if (not ctx.quick and i % 2 == 0) else (("RK45", "DOP853")[(i // 2) % 2],)
        for method in methods:
            tau = TAUS[(i // 2) % len(TAUS)]
            seed = rng.getrandbits(32)
            try:
                bad, n_out = exact_one(b, method, tau, random.Random(seed), tag, NB_EPS[(i // 3) % len(NB_EPS)])
            except tlc.MachineryError:
                raise
            K.flush_events()
            stats["behaviours"] += 1
            stats["outputs"] += n_out
            ctx.case((tag, tuple(b["law"]), b["hor"], b["K"], b["burn"]["ts"], b["burn"]["te"], b.get("dropAt"), b.get("layout", "C"), tuple(tuple(c["times"]) for c in b["hist"]),
                      tuple(c["kind"] for c in b["hist"]), method),
                     nontrivial=len(b["hist"]) > 1 or b["K"] > 1 or b["hist"][0]["kind"] == "bulk",
                     sample={"part": "exact", "law": b["law"], "K": b["K"], "burn": b["burn"], "method": method, "dropAt": b.get("dropAt"),
                             "calls": [[c["kind"], c["times"], c.get("q", 1)] for c in b["hist"]]} if i % 997 == 5 else None)
            if bad:
                sig, what, detail = bad
                stats["violations"] += 1
                stats["by_signature"][sig] = stats["by_signature"].get(sig, 0) + 1
                hangs += "does-not-terminate" in sig
                ctx.violation(sig, "(a) exact law through the real Celestial.propagate/propagateBulk: " + what,
                              {"part": "exact", "tag": tag, "behaviour": b, "method": method, "tau_s": tau, "seed": seed, **detail})
    ctx.traces_validated += stats["behaviours"]
    return stats


# ------------------------------------------------------------------ (b) real dynamics
def random_orbit(rng: random.Random):
    """Bound orbit from LEO to beyond GEO, e <= 0.7, any inclination, perigee above 300 km altitude."""
    while True:
        a = math.exp(rng.uniform(math.log(6700.0), math.log(70000.0)))
        e = rng.choice((0.0, rng.uniform(0.0, 0.7), rng.uniform(0.0, 0.1)))
        if a * (1 - e) >= 6678.0:
            break
    inc = rng.choice((0.0, 180.0, 90.0, rng.uniform(0, 180), rng.uniform(0, 180), rng.uniform(0, 180)))
    el = dict(a=a, e=e, inc=inc, raan=rng.uniform(0, 360), argp=rng.uniform(0, 360), ta=rng.uniform(0, 360))
    x = K.coe_to_eci(a, e, *(math.radians(el[q]) for q in ("inc", "raan", "argp", "ta")))
    return el, x, 2 * math.pi * math.sqrt(a ** 3 / K.MU)


def make_dyn(model: str, method: str, tight: bool, jd0: float, rich: bool, srp=None):
    from resonaate.dynamics.special_perturbations import SpecialPerturbations
    from resonaate.dynamics.two_body import TwoBody
    from resonaate.physics.time.stardate import JulianDate
    from resonaate.scenario.config.geopotential_config import GeopotentialConfig
    from resonaate.scenario.config.perturbations_config import PerturbationsConfig
    if model == "tb":
        dyn = TwoBody(method=method)
    else:
        dyn = SpecialPerturbations(JulianDate(jd0), GeopotentialConfig(degree=6 if rich else 4, order=6 if rich else 4),
                                   PerturbationsConfig(third_bodies=["sun", "moon"] if rich else ["moon"],
                                                       solar_radiation_pressure=rich if srp is None else srp), 0.02,
                                   method=method)
    if tight:   # the driver under test is unchanged; only solve_ivp's tolerances are tightened
        dyn.RELATIVE_TOL, dyn.ABSOLUTE_TOL = TIGHT_RTOL, TIGHT_ATOL
    return dyn


R_EARTH = 6378.137   # km (shadow geometry of the driver; the margins below are tens of km)


def sun_position(jd: float) -> np.ndarray:
    """The simulator's own solar ephemeris (trusted input of the stratum design, not a result under test)."""
    from resonaate.physics.bodies.third_body import Sun
    return np.asarray(Sun.getPosition(jd), dtype=float).reshape(-1)[:3]


def illumination(x0, span_s: float, jd0: float, period: float) -> set:
    """Driver-side, conservative classification of a column over [0, span]: subset of {"sun", "umbra", "edge"}.

    Cylinder-plus-margin test along the Kepler path (independent closed form): "umbra" / "sun" only when the point is
    clear of the penumbra by its width (about 0.0047 |d| on either side) plus 60 km plus 10 km per revolution for the
    difference between the perturbed and the Kepler path; everything else is "edge"."""
    s0, s1 = sun_position(jd0), sun_position(jd0 + span_s / 86400.0)
    n = max(3, min(1500, int(span_s / min(60.0, period / 120.0)) + 2))
    seen = set()
    for i in range(n):
        t = span_s * i / (n - 1)
        r = np.asarray(x0[:3], dtype=float) if t == 0 else K.kepler_independent(x0, t)[:3]
        sun = s0 + (s1 - s0) * (t / span_s)
        sh = sun / np.linalg.norm(sun)
        d = float(r @ sh)
        perp = float(np.linalg.norm(r - d * sh))
        pen = 0.01 * abs(d) + 60.0 + 10.0 * span_s / period
        if d < 0 and perp < R_EARTH - pen:
            seen.add("umbra")
        elif d > 0 or perp > R_EARTH + pen:
            seen.add("sun")
        else:
            seen.add("edge")
    return seen


def first_integrals(x):
    r, v = x[:3], x[3:]
    return 0.5 * (v @ v) - K.MU / np.linalg.norm(r), np.cross(r, v)


def real_one(ctx: Ctx, b, model: str, method: str, tight: bool, tick: float, rng: random.Random, stats: dict, traces: list,
             cluster: bool = False):
    """Replay one behaviour through real dynamics; relations against separate unsplit single-column calls."""
    from resonaate.dynamics.integration_events.finite_thrust import ScheduledFiniteBurn, eciBurn
    from resonaate.physics.orbits.kepler import solveKeplerProblemUniversal
    from resonaate.physics.time.stardate import ScenarioTime
    from functools import partial
    kk = b["K"]
    patience = 150.0 if ctx.quick else 1800.0      # generous: the machine may be loaded; quick durations take seconds
    orbits = [random_orbit(rng) for _ in range(kk)]
    if cluster:
        # a tight batch: the members are 1 mm .. 10 m and 1e-6 .. 1e-3 m/s from the first one (around numpy.allclose's default
        # tolerance).  The separate single-column reference calls are made one after the other on the SAME dynamics object,
        # as a user would: a result that depends on the previous call (a cache keyed on "close enough") shows here.
        crng = random.Random(rng.getrandbits(32))
        for k in range(1, kk):
            off = np.concatenate((10.0 ** crng.uniform(-6, -2) * K.triad(crng)[0], 10.0 ** crng.uniform(-9, -6) * K.triad(crng)[0]))
            orbits[k] = (dict(orbits[0][0], offset_km_kmps=off.tolist()), orbits[0][1] + off, orbits[0][2])
    x0 = np.stack([o[1] for o in orbits], axis=1)
    # start epoch: anywhere in 2019-2020, or (half of the cases) a few hours after a calendar boundary, so that the
    # epoch-shift twin (start date moved back by up to 3 days) starts on the other side of it
    boundary = rng.choice((None, None, 2458849.5, 2459215.5, 2458908.5, 2458909.5, 2458665.5))   # 1 Jan 2020/2021, 29 Feb/1 Mar 2020, 1 Jul 2019
    if boundary is None:
        jd0 = 2458484.5 + rng.randrange(0, 700) + rng.randrange(0, 86400) / 86400.0
    else:
        jd0 = boundary + rng.randrange(0, 6 * 3600) / 86400.0
    rich = rng.random() < 0.3
    drop = b.get("dropAt") if dropped(b) and b["burn"]["kind"] != "none" else None
    # solar radiation pressure switches off discontinuously at the Earth's shadow: a column that crosses the shadow
    # boundary during the behaviour makes batch / split runs differ by more than the integrator tolerance on correct code
    # (shared step-size sequence).  SRP is therefore only switched on when every column stays sunlit, or stays in the
    # umbra, for the whole horizon; the shadow stratum below places columns in both regimes on purpose.
    srp = False
    if rich and model == "sp":
        span = b["hist"][-1]["times"][-1] * tick
        srp = all(illumination(o[1], span, jd0, o[2]) in ({"sun"}, {"umbra"}) for o in orbits)
        stats["srp_on" if srp else "srp_off_shadow_crossing"] = stats.get("srp_on" if srp else "srp_off_shadow_crossing", 0) + 1
    dyn = make_dyn(model, method, tight, jd0, rich, srp)
    dyn_free = [None]     # a FRESH object that never sees an event: reference for the calls after DropEvents
    factor = 1.0 if tight else SHIPPED_FACTOR
    burn_dir = np.array([rng.gauss(0, 1) for _ in range(3)])
    burn_dir /= np.linalg.norm(burn_dir)

    def events(offset=0.0):
        if b["burn"]["kind"] == "none":
            return []
        return [ScheduledFiniteBurn(ScenarioTime(b["burn"]["ts"] * tick + offset), ScenarioTime(1.0e9),
                                    partial(eciBurn, acc_vector=BURN_ACC * burn_dir), 1)]
    desc = {"part": "real", "model": model, "method": method, "tight": tight, "tick_s": tick, "K": kk, "jd0": jd0,
            "near_calendar_boundary": boundary is not None, "rich": rich, "srp": srp, "drop_tick": drop, "tight_cluster": cluster,
            "burn_tick": b["burn"]["ts"], "calls": [[c["kind"], c["times"], c.get("q", 1)] for c in b["hist"]],
            "orbits": [o[0] for o in orbits]}
    ref_cache: dict = {}

    def ref(k: int, t: int):
        """Separate single-column reference: one unsplit call with the events up to the drop (if any), then - semigroup -
        one call WITHOUT events on a fresh dynamics object from the reference state at the drop."""
        if (k, t) not in ref_cache:
            if drop is not None and t > drop:
                if dyn_free[0] is None:
                    dyn_free[0] = make_dyn(model, method, tight, jd0, rich, srp)
                start = ref(k, drop)
                with guard(patience):
                    ref_cache[(k, t)] = np.asarray(dyn_free[0].propagate(drop * tick, t * tick, start.copy()), dtype=float)
            else:
                with guard(patience):
                    ref_cache[(k, t)] = np.asarray(dyn.propagate(0.0, t * tick, x0[:, k].copy(), scheduled_events=events()), dtype=float)
        return ref_cache[(k, t)]

    def tol(k: int, t: int):
        s = factor * (1.0 + t * tick / orbits[k][2]) ** 2
        return BASE_R * s, BASE_V * s

    def fail(sig, what, extra):
        stats["violations"] += 1
        stats["by_signature"][sig] = stats["by_signature"].get(sig, 0) + 1
        ctx.violation(sig, f"(b) real {model}/{method} ({'rtol 1e-13' if tight else 'shipped tolerances'}): " + what, {**desc, **extra})

    x = x0.copy()
    layout = LAYOUTS[stats["behaviours"] % len(LAYOUTS)] if kk >= 2 else "C"     # spec variable `layout`
    desc["layout"] = layout
    kept = []
    e0h0 = [first_integrals(x0[:, k]) for k in range(kk)]
    pts = [[[0, 0, 0, 0]] for _ in range(kk)]
    failed = False
    for ci, call in enumerate(b["hist"]):
        times = [t * tick for t in call["times"]]
        arg = as_layout(x, layout)
        try:
            with guard(patience):
                if call["kind"] == "single":
                    res = dyn.propagate(times[0], times[1], arg[:, 0].copy() if kk == 1 else arg,
                                        scheduled_events=passed_events(call, ci, events()))
                    outs = [np.asarray(res, dtype=float).reshape(6, kk)]
                else:
                    res = dyn.propagateBulk(times, arg, scheduled_events=passed_events(call, ci, events()))
                    outs = [np.asarray(res[:, :, j], dtype=float) for j in range(res.shape[2])]
        except Hang:
            fail(f"real:{model}:propagate-does-not-terminate", f"{call['kind']} call {times} did not return within {patience:g} s", {"call": ci})
            return
        except tlc.MachineryError:
            raise
        except Exception as ex:  # noqa: BLE001 - the real code raised on a legal call
            fail(crash_signature(f"real:{model}", call["kind"], ex), f"{call['kind']} call over ticks {call['times']} (K={kk}, burn at tick "
                 f"{b['burn']['ts']}) raised {type(ex).__name__}: {ex}", {"call": ci})
            return
        if len(outs) != len(call["times"]) - 1:
            fail(f"real:{model}:bulk-output-count", f"{len(outs)} outputs for {len(call['times']) - 1} output times", {"call": ci})
            return
        for j, got in enumerate(outs):
            t = call["times"][j + 1]
            for k in range(kk):
                stats["comparisons"] += 1
                tr, tv = tol(k, t)
                want = ref(k, t)
                dr, dv = np.abs(got[:3, k] - want[:3]).max(), np.abs(got[3:, k] - want[3:]).max()
                trivial = ci == 0 and call["kind"] == "single" and kk == 1      # the very same call
                if not trivial:
                    stats["max_ratio"] = max(stats["max_ratio"], dr / tr, dv / tv)
                if (dr > tr or dv > tv) and not failed:
                    rel = "call-without-events-vs-fresh-object" if (drop is not None and t > drop) else \
                        "bulk-output-vs-separate-call" if call["kind"] == "bulk" else \
                        ("batch-column-vs-single" if ci == 0 else "split-vs-unsplit")
                    fail(f"real:{model}:{rel}", f"call {ci + 1} ({call['kind']} over ticks {call['times']}, K={kk}) output {j + 1} column "
                         f"{k + 1} differs from {'a fresh dynamics object without events started at the reference state of the drop' if 'fresh' in rel else 'the separate unsplit single-column call'} by {dr:.3g} km / {dv:.3g} km/s "
                         f"(tolerance {tr:.2g} / {tv:.2g})", {"call": ci, "output": j, "column": k, "dr_km": dr, "dv_kmps": dv})
                    failed = True
                if model == "tb":
                    # closed form: the repository's universal-variable solver and an independent one
                    ind = K.kepler_independent(x0[:, k], t * tick)
                    try:
                        rep = np.asarray(solveKeplerProblemUniversal(x0[:, k].copy(), t * tick), dtype=float)
                    except Exception as ex:  # noqa: BLE001
                        rep = None
                        if not failed:
                            fail("real:kepler-solver-raises", f"solveKeplerProblemUniversal raised {type(ex).__name__}: {ex} "
                                 f"(a={orbits[k][0]['a']:.1f} km, e={orbits[k][0]['e']:.3f}, tof={t * tick} s)", {"column": k, "tof": t * tick})
                            failed = True

                    def off(p, q, tr=tr, tv=tv):
                        return max(np.abs(p[:3] - q[:3]).max() / tr, np.abs(p[3:] - q[3:]).max() / tv)
                    # the repository solver stops when the universal anomaly moves less than _ATOL = 1.48e-8 sqrt(km)
                    el = orbits[k][0]
                    kr = tr + 4.0 * KEPLER_ATOL * math.sqrt(el["a"])
                    kv = tv + (kr - tr) * math.sqrt(K.MU * (1 + el["e"]) / (el["a"] * (1 - el["e"]))) / (el["a"] * (1 - el["e"]))
                    o_ii = off(got[:, k], ind)
                    stats["max_closed_form_ratio"] = max(stats["max_closed_form_ratio"], o_ii)
                    if o_ii > 1.0 and not failed:
                        fail("real:two-body-vs-closed-form", f"two-body output at {t * tick} s (a={el['a']:.1f} km, e={el['e']:.3f}) "
                             f"differs from the independent closed-form Kepler solution by {o_ii:.3g} x tolerance", {"column": k, "tof": t * tick})
                        failed = True
                    if rep is not None:
                        stats["kepler_checks"] += 1
                        o_ir, o_ri = off(got[:, k], rep, kr, kv), off(rep, ind, kr, kv)
                        stats["max_kepler_ratio"] = max(stats["max_kepler_ratio"], o_ir)
                        if o_ir > 1.0 and not failed:
                            who = "kepler-solver-vs-independent-closed-form" if (o_ri > 1.0 and o_ii <= 1.0) else "two-body-vs-kepler"
                            fail(f"real:{who}", f"two-body output at {t * tick} s (a={orbits[k][0]['a']:.1f} km, e={orbits[k][0]['e']:.3f}) "
                                 f"vs solveKeplerProblemUniversal: {o_ir:.3g} x tolerance; integrator vs independent closed form "
                                 f"{o_ii:.3g} x; repository solver vs independent {o_ri:.3g} x", {"column": k, "tof": t * tick})
                            failed = True
                    en, hv = first_integrals(got[:, k])
                    e0, h0 = e0h0[k]
                    hn = np.linalg.norm(h0)
                    pts[k].append([int(round(1e9 * (en - e0) / abs(e0)))] + [int(round(1e9 * float(d) / hn)) for d in (hv - h0)])
        kept.append((ci, res, np.array(res, dtype=float, copy=True), arg))
        x = outs[-1].copy()
    stale = stale_results(kept)
    if stale and not failed:
        fail(f"real:{model}:earlier-result-changed-by-later-call", f"{stale}; a result handed out must keep the states of its own call",
             {"calls": desc["calls"]})
        failed = True
    if model == "tb":
        for k in range(kk):
            revs = b["hist"][-1]["times"][-1] * tick / orbits[k][2]
            band = 1 if tight else 2 + 2 * math.ceil(revs)
            clip = [[max(-10 ** 8, min(10 ** 8, q)) for q in p] for p in pts[k]]
            traces.append({"band": band, "pts": clip, "desc": {**desc, "column": k}})
    else:
        # epoch-shift twin: the same absolute epoch written as (start date - D, elapsed seconds + D)
        shift = float(rng.randrange(6 * 3600, 3 * 86400) if boundary else rng.randrange(1, 3 * 86400))
        dyn2 = make_dyn(model, method, tight, jd0 - shift / 86400.0, rich, srp)
        dyn2_free = make_dyn(model, method, tight, jd0 - shift / 86400.0, rich, srp) if drop is not None else None
        t_end = b["hist"][-1]["times"][-1]
        for k in range(kk):
            with guard(patience):
                t_ev = t_end if drop is None else drop         # the twin is done in the same two segments
                a1 = np.asarray(dyn2.propagate(shift, shift + t_ev * tick, x0[:, k].copy(), scheduled_events=events(shift)), dtype=float)
                if drop is not None:
                    a1 = np.asarray(dyn2_free.propagate(shift + drop * tick, shift + t_end * tick, a1.copy()), dtype=float)
            a2 = ref(k, t_end)
            tr, tv = tol(k, t_end)
            dr, dv = np.abs(a1[:3] - a2[:3]).max(), np.abs(a1[3:] - a2[3:]).max()
            stats["epoch_shift_checks"] += 1
            stats["max_shift_ratio"] = max(stats["max_shift_ratio"], dr / tr, dv / tv)
            if (dr > tr or dv > tv) and not failed:
                fail("real:sp:epoch-shift-twin", f"propagating {t_end * tick} s from the same epoch written as (start - {shift} s, "
                     f"t0 = {shift} s) and as (start, t0 = 0) differs by {dr:.3g} km / {dv:.3g} km/s (tolerance {tr:.2g} / {tv:.2g})",
                     {"shift_s": shift, "column": k})
                failed = True
        del dyn2, dyn2_free
    stats["behaviours"] += 1
    ctx.traces_validated += 1
    ctx.case(("real", model, method, tight, tick, structure(b), tuple(round(o[0]["a"]) for o in orbits)), nontrivial=True,
             sample=desc if stats["behaviours"] % 41 == 1 else None)


CALENDAR_BOUNDARIES = {"2020-01-01": 2458849.5, "2021-01-01": 2459215.5, "2020-02-29": 2458908.5, "2020-03-01": 2458909.5,
                       "2019-07-01": 2458665.5, "2019-10-17": 2458773.5}


def epoch_boundary_stratum(ctx: Ctx, rng: random.Random, stats: dict):
    """Perturbed dynamics, the same absolute epoch written on both sides of a calendar boundary (year, leap day, month,
    plain midnight): start 1 h after the boundary with t0 = 0  versus  start 1 h before it with t0 = 2 h."""
    span = 600.0 if ctx.quick else 3600.0
    for i, (name, jdb) in enumerate(sorted(CALENDAR_BOUNDARIES.items())):
        method = ("RK45", "DOP853")[i % 2]
        el, x0, period = random_orbit(rng)
        while el["a"] > 12000.0:          # low orbits feel the tesseral terms most
            el, x0, period = random_orbit(rng)
        dyn_a = make_dyn("sp", method, True, jdb + 1.0 / 24.0, False)
        dyn_b = make_dyn("sp", method, True, jdb - 1.0 / 24.0, False)
        try:
            with guard(600.0):
                ya = np.asarray(dyn_a.propagate(0.0, span, x0.copy()), dtype=float)
                yb = np.asarray(dyn_b.propagate(7200.0, 7200.0 + span, x0.copy()), dtype=float)
        except Hang:
            raise tlc.MachineryError("epoch boundary stratum: propagation without events did not return in 600 s")
        s = (1.0 + span / period) ** 2
        dr, dv = np.abs(ya - yb)[:3].max(), np.abs(ya - yb)[3:].max()
        stats["epoch_shift_checks"] += 1
        stats["max_shift_ratio"] = max(stats["max_shift_ratio"], dr / (BASE_R * s), dv / (BASE_V * s))
        ctx.case(("epoch-boundary", name, method, round(el["a"])), nontrivial=True)
        if dr > BASE_R * s or dv > BASE_V * s:
            sig = "real:sp:epoch-shift-twin"
            stats["violations"] += 1
            stats["by_signature"][sig] = stats["by_signature"].get(sig, 0) + 1
            ctx.violation(sig, f"(b) real sp/{method}: {span:g} s from the epoch {name} 01:00 written as (start {name} 01:00, t0 = 0) and as "
                          f"(start 1 h before {name}, t0 = 7200 s) differ by {dr:.3g} km / {dv:.3g} km/s (tolerance {BASE_R * s:.2g} / "
                          f"{BASE_V * s:.2g}; a = {el['a']:.0f} km)", {"part": "epoch-boundary", "boundary": name, "jd": jdb,
                                                                        "method": method, "orbit": el, "span_s": span})


def fractional_second_stratum(ctx: Ctx, rng: random.Random, stats: dict):
    """Epoch-split twins whose scenario start has a FRACTIONAL second: (start = D + f, t0 = 0) against (start = D, t0 = f)
    and (thorough) (start = D - 1 s, t0 = 1 + f), D a whole second.  Perturbed dynamics with tesseral terms (4 x 4), rtol 1e-13.
    Arc lengths: an Earth-fixed frame that is off by 0.4 s of rotation (2.9e-5 rad) displaces a LEO by about 5e-5 km after
    3600 s (growing with the square of the arc); the tolerance there is 3e-7 * (1 + revolutions)^2 = 8e-7 km, and 4.4e-7 km
    at 1200 s where the effect is about 6e-6 km - so arcs of 1200 s and more decide it with a factor >= 10."""
    from datetime import datetime, timedelta
    from resonaate.physics.time.stardate import datetimeToJulianDate
    cases = [(0.400, "DOP853", 3600.0), (0.500, "RK45", 1200.0), (0.600, "DOP853", 2400.0)]
    if not ctx.quick:
        cases += [(0.999, "RK45", 3600.0), (0.250, "DOP853", 7200.0), (0.750, "RK45", 2400.0), (0.400, "RK45", 3600.0)]
    out = {"cases": 0, "max_ratio": 0.0}
    for frac, method, span in cases:
        whole = datetime(2020, 6, 1) + timedelta(days=rng.randrange(0, 400), seconds=rng.randrange(0, 86400))
        el, x0, period = random_orbit(rng)
        while el["a"] > 8000.0 or el["e"] > 0.05:        # low orbits feel the tesseral terms most
            el, x0, period = random_orbit(rng)
        twins = [(whole + timedelta(seconds=frac), 0.0), (whole, frac)]
        if not ctx.quick:
            twins.append((whole - timedelta(seconds=1), 1.0 + frac))
        ys = []
        for start, t0 in twins:
            dyn = make_dyn("sp", method, True, float(datetimeToJulianDate(start)), False)
            try:
                with guard(900.0):
                    ys.append(np.asarray(dyn.propagate(t0, t0 + span, x0.copy()), dtype=float))
            except Hang:
                raise tlc.MachineryError("fractional-second stratum: propagation without events did not return in 900 s")
        sc = (1.0 + span / period) ** 2
        out["cases"] += 1
        stats["epoch_shift_checks"] += len(twins) - 1
        ctx.case(("fractional-start", frac, method, span, round(el["a"])), nontrivial=True)
        for (start, t0), y in list(zip(twins, ys))[1:]:
            dr, dv = np.abs(ys[0] - y)[:3].max(), np.abs(ys[0] - y)[3:].max()
            out["max_ratio"] = max(out["max_ratio"], dr / (BASE_R * sc), dv / (BASE_V * sc))
            if dr > BASE_R * sc or dv > BASE_V * sc:
                sig = "real:sp:epoch-split-with-fractional-second-start"
                stats["violations"] += 1
                stats["by_signature"][sig] = stats["by_signature"].get(sig, 0) + 1
                ctx.violation(sig, f"(b) real sp/{method} (rtol 1e-13): {span:g} s from the epoch {twins[0][0].isoformat()} written as "
                              f"(start {twins[0][0].isoformat()}, t0 = 0) and as (start {start.isoformat()}, t0 = {t0} s) differ by "
                              f"{dr:.3g} km / {dv:.3g} km/s (tolerance {BASE_R * sc:.2g} / {BASE_V * sc:.2g}; a = {el['a']:.0f} km)",
                              {"part": "fractional-start", "start": twins[0][0].isoformat(), "twin_start": start.isoformat(),
                               "t0_s": t0, "span_s": span, "method": method, "orbit": el})
                break
    ctx.traces_validated += out["cases"]
    return out


def negative_time_stratum(ctx: Ctx, rng: random.Random, stats: dict):
    """Epoch-split twins whose scenario start date lies AFTER the state epoch: (start = E, t0 = 0) against
    (start = E + D, t0 = -D) - negative elapsed seconds.  Windows [-D, -D + span] that straddle 0, that are entirely
    negative, and that cross a whole negative day.  Perturbed dynamics (4 x 4, moon), rtol 1e-13, plain tolerance
    3e-7 km (1 + revolutions)^2: an epoch that is off by a day moves the Moon by 13 deg, about 1e-4 km after 1200 s in LEO."""
    cases = [("straddles zero", 400.0, 1200.0, "DOP853"), ("entirely negative", 3000.0, 1200.0, "RK45"),
             ("crosses minus one day", 86400.0 + 500.0, 1200.0, "DOP853")]
    if not ctx.quick:
        cases += [("straddles zero", 1800.0, 10800.0, "RK45"), ("entirely negative", 200000.0, 3600.0, "DOP853"),
                  ("crosses minus two days", 2 * 86400.0 + 1000.0, 3600.0, "RK45"), ("ends at zero", 2400.0, 2400.0, "DOP853")]
    out = {"cases": 0, "max_ratio": 0.0}
    for name, back, span, method in cases:
        jd0 = 2458484.5 + rng.randrange(0, 700) + rng.randrange(0, 86400) / 86400.0
        el, x0, period = random_orbit(rng)
        while el["e"] > 0.3:
            el, x0, period = random_orbit(rng)
        dyn_a = make_dyn("sp", method, True, jd0, False)
        dyn_b = make_dyn("sp", method, True, jd0 + back / 86400.0, False)
        try:
            with guard(900.0):
                ya = np.asarray(dyn_a.propagate(0.0, span, x0.copy()), dtype=float)
                yb = np.asarray(dyn_b.propagate(-back, -back + span, x0.copy()), dtype=float)
        except Hang:
            raise tlc.MachineryError("negative-time stratum: propagation without events did not return in 900 s")
        sc = (1.0 + span / period) ** 2
        dr, dv = np.abs(ya - yb)[:3].max(), np.abs(ya - yb)[3:].max()
        out["cases"] += 1
        out["max_ratio"] = max(out["max_ratio"], dr / (BASE_R * sc), dv / (BASE_V * sc))
        stats["epoch_shift_checks"] += 1
        ctx.case(("negative-time", name, method, span, round(el["a"])), nontrivial=True)
        if dr > BASE_R * sc or dv > BASE_V * sc:
            sig = "real:sp:epoch-split-with-negative-elapsed-time"
            stats["violations"] += 1
            stats["by_signature"][sig] = stats["by_signature"].get(sig, 0) + 1
            ctx.violation(sig, f"(b) real sp/{method} (rtol 1e-13): {span:g} s from one epoch written as (start = epoch, t0 = 0) and as "
                          f"(start = epoch + {back:g} s, t0 = {-back:g} s; window {name}) differ by {dr:.3g} km / {dv:.3g} km/s "
                          f"(tolerance {BASE_R * sc:.2g} / {BASE_V * sc:.2g}; a = {el['a']:.0f} km)",
                          {"part": "negative-time", "jd_epoch": jd0, "start_after_epoch_s": back, "span_s": span, "method": method,
                           "orbit": el})
    ctx.traces_validated += out["cases"]
    return out


def late_short_leg_stratum(ctx: Ctx, rng: random.Random, stats: dict):
    """Split points close to the END of a long call and short calls late in a scenario (seed C03/11: a leg shorter than
    1e-5 of the elapsed time at which it ends was taken for rounding noise and skipped).  Two-body: the composed result
    and the short late leg itself are held to the closed-form Kepler solution; perturbed: (start, T -> T + d) equals
    (start + T, 0 -> d)."""
    from resonaate.physics.orbits.kepler import solveKeplerProblemUniversal
    out = {"splits": 0, "late_legs": 0, "late_twins": 0}
    horizons = (86400.0, 21600.0, 3600.0) if ctx.quick else (86400.0, 43200.0, 21600.0, 3600.0, 600.0)
    for hi, T in enumerate(horizons):
        for di, d in enumerate((0.5, 1.0, 2.0, 0.1) if not ctx.quick else (0.5, 2.0)):
            method = ("RK45", "DOP853")[(hi + di) % 2]
            el, x0, period = random_orbit(rng)
            dyn = make_dyn("tb", method, True, 2458849.5, False)
            try:
                with guard(300.0):
                    whole = np.asarray(dyn.propagate(0.0, T, x0.copy()), dtype=float)
                    mid = np.asarray(dyn.propagate(0.0, T - d, x0.copy()), dtype=float)
                    comp = np.asarray(dyn.propagate(T - d, T, mid.copy()), dtype=float)
                    # the same short leg late in a run of several days: elapsed time 3-5 d, duration d
                    t_late = float(rng.choice((3, 4, 5))) * 86400.0 + float(rng.randrange(0, 86400))
                    late = np.asarray(dyn.propagate(t_late, t_late + d, x0.copy()), dtype=float)
            except Hang:
                raise tlc.MachineryError("late short leg stratum: propagation without events did not return in 300 s")
            s_ = (1.0 + T / period) ** 2
            dr, dv = np.abs(whole - comp)[:3].max(), np.abs(whole - comp)[3:].max()
            out["splits"] += 1
            stats["comparisons"] += 1
            ctx.case(("late-split", T, d, method, round(el["a"])), nontrivial=True)
            if not (dr <= BASE_R * s_ and dv <= BASE_V * s_):
                sig = "real:tb:late-split-composability"
                stats["violations"] += 1
                stats["by_signature"][sig] = stats["by_signature"].get(sig, 0) + 1
                ctx.violation(sig, f"(b) real tb/{method}: 0 -> {T:g} s differs from 0 -> {T - d:g} -> {T:g} s by {dr:.3g} km / {dv:.3g} km/s "
                              f"(tolerance {BASE_R * s_:.2g} / {BASE_V * s_:.2g}; a = {el['a']:.0f} km, e = {el['e']:.3f})",
                              {"part": "late-split", "T": T, "d": d, "method": method, "orbit": el})
            ref = np.asarray(solveKeplerProblemUniversal(x0.copy(), d), dtype=float).ravel()
            dr, dv = np.abs(late - ref)[:3].max(), np.abs(late - ref)[3:].max()
            out["late_legs"] += 1
            stats["kepler_checks"] += 1
            ctx.case(("late-leg", t_late, d, method, round(el["a"])), nontrivial=True)
            if not (dr <= 10 * BASE_R + 1e-6 and dv <= 10 * BASE_V + 1e-9):
                sig = "real:tb:late-short-leg-kepler"
                stats["violations"] += 1
                stats["by_signature"][sig] = stats["by_signature"].get(sig, 0) + 1
                ctx.violation(sig, f"(b) real tb/{method}: the {d:g} s leg {t_late:g} -> {t_late + d:g} s differs from the closed-form Kepler "
                              f"solution by {dr:.3g} km / {dv:.3g} km/s (a = {el['a']:.0f} km)",
                              {"part": "late-leg", "t": t_late, "d": d, "method": method, "orbit": el})
    for i in range(2 if ctx.quick else 6):
        method = ("RK45", "DOP853")[i % 2]
        el, x0, period = random_orbit(rng)
        days, d = float(rng.choice((2, 3, 4))), float(rng.choice((1.0, 2.0, 5.0)))
        jd = 2458849.5 + rng.randrange(0, 300)
        dyn_a = make_dyn("sp", method, True, jd, False)
        dyn_b = make_dyn("sp", method, True, jd + days, False)
        try:
            with guard(300.0):
                ya = np.asarray(dyn_a.propagate(days * 86400.0, days * 86400.0 + d, x0.copy()), dtype=float)
                yb = np.asarray(dyn_b.propagate(0.0, d, x0.copy()), dtype=float)
        except Hang:
            raise tlc.MachineryError("late short leg stratum: perturbed propagation did not return in 300 s")
        dr, dv = np.abs(ya - yb)[:3].max(), np.abs(ya - yb)[3:].max()
        out["late_twins"] += 1
        stats["epoch_shift_checks"] += 1
        ctx.case(("late-twin", jd, days, d, method, round(el["a"])), nontrivial=True)
        if not (dr <= BASE_R * 4 and dv <= BASE_V * 4):
            sig = "real:sp:epoch-shift-twin"
            stats["violations"] += 1
            stats["by_signature"][sig] = stats["by_signature"].get(sig, 0) + 1
            ctx.violation(sig, f"(b) real sp/{method}: a {d:g} s leg written as (start, {days:g} d -> {days:g} d + {d:g} s) and as (start + {days:g} d, "
                          f"0 -> {d:g} s) differs by {dr:.3g} km / {dv:.3g} km/s", {"part": "late-twin", "jd": jd, "days": days, "d": d,
                                                                                  "method": method, "orbit": el})
    return out


def repeated_columns_stratum(ctx: Ctx, rng: random.Random, stats: dict):
    """Batches in which some states occur more than once, in first-appearance orders that are not their sorted order
    (seed C03/12: repeated columns integrated once and copied back through a wrong permutation): every column of the
    batch - propagate and propagateBulk - equals the separate single-column call of ITS state."""
    out = {"batches": 0, "columns": 0}
    layouts = [(0, 1, 2, 3, 2, 0), (2, 0, 1, 0), (1, 2, 0, 2, 1), (3, 1, 0, 2, 3, 3), (0, 0, 1), (1, 0, 2, 1, 0, 2)]
    for li, layout in enumerate(layouts if not ctx.quick else layouts[:4]):
        method = ("RK45", "DOP853")[li % 2]
        model = "sp" if li == 3 else "tb"
        span = 1800.0 if model == "tb" else 600.0
        base = []
        while len(base) < max(layout) + 1:
            o = random_orbit(rng)
            base.append(o)
        rng.shuffle(base)                    # first-appearance order unrelated to any ordering of the values
        x0 = np.stack([base[j][1] for j in layout], axis=1)
        dyn = make_dyn(model, method, True, 2458849.5 + li, False)
        try:
            with guard(600.0):
                singles = [np.asarray(dyn.propagate(0.0, span, base[j][1].copy()), dtype=float).ravel() for j in range(len(base))]
                both = np.asarray(dyn.propagate(0.0, span, x0.copy()), dtype=float)
                bulk = np.asarray(dyn.propagateBulk(np.array([0.0, span / 2, span]), x0.copy()), dtype=float)
        except Hang:
            raise tlc.MachineryError("repeated columns stratum: propagation without events did not return in 600 s")
        out["batches"] += 1
        for kind, got in (("propagate", both), ("propagateBulk", bulk[:, :, -1] if bulk.ndim == 3 else bulk)):
            for c, j in enumerate(layout):
                s_ = (1.0 + span / base[j][2]) ** 2
                dr, dv = np.abs(got[:3, c] - singles[j][:3]).max(), np.abs(got[3:, c] - singles[j][3:]).max()
                out["columns"] += 1
                stats["comparisons"] += 1
                ctx.case(("repeated-columns", li, kind, c), nontrivial=True)
                if not (dr <= BASE_R * s_ and dv <= BASE_V * s_):
                    sig = f"real:{model}:{kind}:batch-with-repeated-states"
                    stats["violations"] += 1
                    stats["by_signature"][sig] = stats["by_signature"].get(sig, 0) + 1
                    ctx.violation(sig, f"(b) real {model}/{method}: column {c} of a {len(layout)}-column {kind} batch with repeated states "
                                  f"(layout {list(layout)}) differs from the separate call of its own state by {dr:.3g} km / {dv:.3g} km/s",
                                  {"part": "repeated-columns", "layout": list(layout), "kind": kind, "column": c, "method": method,
                                   "orbits": [b_[0] for b_ in base]})
                    break
    return out


def shadow_stratum(ctx: Ctx, rng: random.Random, stats: dict):
    """BulkConsistent / batch-vs-single with the columns in DIFFERENT force regimes: solar radiation pressure on, one
    column sunlit for the whole call, another inside the Earth's umbra for the whole call (a low circular orbit in a plane
    that contains the Sun line, passing the anti-Sun point at mid-call; the umbra lasts ~2000 s there, the calls 450-900 s),
    in both orders, K = 2..3, single and bulk calls, both integrators, rtol 1e-13.  Every output of every column must
    equal the separate single-column call.  No column crosses the shadow boundary (checked by `illumination`), so the
    right-hand side of every column is smooth and the plain tolerance applies."""
    from resonaate.dynamics.special_perturbations import SpecialPerturbations
    from resonaate.physics.time.stardate import JulianDate
    from resonaate.scenario.config.geopotential_config import GeopotentialConfig
    from resonaate.scenario.config.perturbations_config import PerturbationsConfig
    cases = [("SU", "single", "RK45", ["sun"]), ("SU", "bulk", "DOP853", []), ("US", "single", "DOP853", ["sun"]),
             ("USU", "bulk", "RK45", [])]
    if not ctx.quick:
        cases += [("SU", "bulk", "RK45", ["sun", "moon"]), ("SU", "single", "DOP853", []), ("SUS", "single", "RK45", []),
                  ("USU", "single", "DOP853", ["sun"]), ("US", "bulk", "RK45", []), ("SSU", "bulk", "DOP853", ["moon"]),
                  ("UUS", "single", "RK45", ["sun"]), ("SUU", "bulk", "DOP853", [])]
    out = {"cases": 0, "comparisons": 0, "max_ratio": 0.0}
    for ci, (order, kind, method, bodies) in enumerate(cases):
        span = (450.0, 600.0, 900.0)[ci % 3]
        jd0 = 2458484.5 + rng.randrange(0, 700) + rng.randrange(0, 86400) / 86400.0
        sh = sun_position(jd0)
        sh = sh / np.linalg.norm(sh)
        cols, periods = [], []
        for regime in order:
            w = np.cross(sh, np.array([rng.gauss(0, 1) for _ in range(3)]))
            w = w / np.linalg.norm(w)
            a = rng.uniform(6800.0, 7100.0) if regime == "U" else rng.uniform(6800.0, 9000.0)
            n = math.sqrt(K.MU / a ** 3)
            th = -0.5 * n * span + rng.uniform(-0.05, 0.05)       # passes the (anti-)Sun point about mid-call
            axis = -sh if regime == "U" else sh
            x = np.concatenate((a * (axis * math.cos(th) + w * math.sin(th)), a * n * (-axis * math.sin(th) + w * math.cos(th))))
            seen = illumination(x, span, jd0, 2 * math.pi / n)
            if seen != ({"umbra"} if regime == "U" else {"sun"}):
                raise tlc.MachineryError(f"shadow stratum: column meant to be {regime} is classified {seen}")
            cols.append(x)
            periods.append(2 * math.pi / n)
        dyn = SpecialPerturbations(JulianDate(jd0), GeopotentialConfig(degree=2, order=2),
                                   PerturbationsConfig(third_bodies=bodies, solar_radiation_pressure=True), 0.02, method=method)
        dyn.RELATIVE_TOL, dyn.ABSOLUTE_TOL = TIGHT_RTOL, TIGHT_ATOL
        x0 = np.stack(cols, axis=1)
        times = [0.0, span] if kind == "single" else [0.0, round(span / 3.0), span]
        desc = {"part": "shadow", "order": order, "kind": kind, "method": method, "third_bodies": bodies, "jd0": jd0, "span_s": span,
                "columns": [c.tolist() for c in cols]}
        try:
            with guard(600.0):
                if kind == "single":
                    outs = [np.asarray(dyn.propagate(0.0, span, x0.copy()), dtype=float).reshape(6, len(cols))]
                else:
                    res = dyn.propagateBulk(times, x0.copy())
                    outs = [np.asarray(res[:, :, j], dtype=float) for j in range(res.shape[2])]
                refs = [[np.asarray(dyn.propagate(0.0, t, x0[:, k].copy()), dtype=float) for k in range(len(cols))] for t in times[1:]]
        except Hang:
            raise tlc.MachineryError("shadow stratum: propagation without events did not return in 600 s")
        out["cases"] += 1
        ctx.case(("shadow", order, kind, method, tuple(bodies), span), nontrivial=True, sample=desc if ci == 0 else None)
        bad = None
        for j, t in enumerate(times[1:]):
            for k in range(len(cols)):
                sc = (1.0 + t / periods[k]) ** 2
                dr, dv = np.abs(outs[j][:3, k] - refs[j][k][:3]).max(), np.abs(outs[j][3:, k] - refs[j][k][3:]).max()
                out["comparisons"] += 1
                out["max_ratio"] = max(out["max_ratio"], dr / (BASE_R * sc), dv / (BASE_V * sc))
                if (dr > BASE_R * sc or dv > BASE_V * sc) and bad is None:
                    bad = (j, k, dr, dv, BASE_R * sc, BASE_V * sc)
        if bad:
            j, k, dr, dv, tr, tv = bad
            sig = "real:sp:batch-columns-in-different-force-regimes"
            stats["violations"] += 1
            stats["by_signature"][sig] = stats["by_signature"].get(sig, 0) + 1
            names = {"S": "sunlit", "U": "in the umbra"}
            ctx.violation(sig, f"(b) real sp/{method} (rtol 1e-13), solar radiation pressure on, batch of columns "
                          f"[{', '.join(names[c] for c in order)}] for the whole {kind} call of {span:g} s: output {j + 1} column {k + 1} "
                          f"({names[order[k]]}) differs from its separate single-column call by {dr:.3g} km / {dv:.3g} km/s "
                          f"(tolerance {tr:.2g} / {tv:.2g})", {**desc, "output": j, "column": k, "dr_km": dr, "dv_kmps": dv})
    ctx.traces_validated += out["cases"]
    return out


def real_replay(ctx: Ctx, behs, rng: random.Random):
    stats = {"behaviours": 0, "comparisons": 0, "kepler_checks": 0, "epoch_shift_checks": 0, "violations": 0, "max_ratio": 0.0,
             "max_kepler_ratio": 0.0, "max_closed_form_ratio": 0.0, "max_shift_ratio": 0.0, "by_signature": {}, "by_config": {}}
    traces: list = []
    groups: dict = {}
    for b in behs:
        if (len(b["hist"]) > 1 or b["K"] > 1 or b["hist"][0]["kind"] == "bulk") and not has_neighbour_call(b):
            groups.setdefault(structure(b), []).append(b)
    keys = sorted(groups, key=repr)
    rng.shuffle(keys)
    n_tb, n_sp = (44, 14) if ctx.quick else (450, 80)
    tb_ticks = (2.0, 12.0, 120.0, 720.0, 4320.0) if ctx.quick else (2.0, 12.0, 120.0, 720.0, 4320.0, 17280.0, 17280.0)
    sp_ticks = (2.0, 12.0, 120.0) if ctx.quick else (2.0, 12.0, 120.0, 720.0, 2880.0)
    epoch_boundary_stratum(ctx, random.Random(rng.getrandbits(32)), stats)
    stats["shadow"] = shadow_stratum(ctx, random.Random(rng.getrandbits(32)), stats)
    stats["fractional_second_start"] = fractional_second_stratum(ctx, random.Random(rng.getrandbits(32)), stats)
    stats["negative_elapsed_time"] = negative_time_stratum(ctx, random.Random(rng.getrandbits(32)), stats)
    stats["late_short_legs"] = late_short_leg_stratum(ctx, random.Random(20260929), stats)
    stats["repeated_columns"] = repeated_columns_stratum(ctx, random.Random(20260930), stats)
    # behaviours in which the caller drops the events while the burn is ON, through the perturbed dynamics (the only real
    # model that reads finite_thrust): a fixed share of the sample, whatever the stratified draw below picks
    # (behaviours with a neighbour call are replayed by the exact-law part only: real_one reads every call as a continuation)
    live_drop = sorted((b for b in behs if dropped(b) and b["burn"]["kind"] != "none" and b["burn"]["ts"] < b["dropAt"] and b["K"] <= 2
                        and not has_neighbour_call(b)),
                       key=lambda b: json.dumps(b, sort_keys=True))
    forced = [live_drop[rng.randrange(len(live_drop))] for _ in range((4 if ctx.quick else 16) if live_drop else 0)]
    stats["dropped_with_thrust_on_sp"] = len(forced)
    # tight clusters: event-free batches (K >= 2) whose members are neighbours, references one after the other on one object
    calm = sorted((b for b in behs if b["burn"]["kind"] == "none" and b["K"] >= 2 and not has_neighbour_call(b)),
                  key=lambda b: json.dumps(b, sort_keys=True))
    crng = random.Random(rng.getrandbits(32))
    for ci in range((4 if ctx.quick else 40) if calm else 0):
        b = calm[crng.randrange(len(calm))]
        model = "sp" if ci % 4 == 3 and b["K"] <= 2 else "tb"
        real_one(ctx, b, model, ("RK45", "DOP853")[ci % 2], True, (120.0, 12.0, 720.0)[ci % 3] if model == "tb" else 60.0,
                 random.Random(crng.getrandbits(32)), stats, traces, cluster=True)
        K.flush_events()
        stats["tight_clusters"] = stats.get("tight_clusters", 0) + 1
    for i in range(len(forced) + n_tb + n_sp):
        forced_b = forced[i] if i < len(forced) else None
        i -= len(forced)
        key = keys[i % len(keys)]
        b = forced_b or groups[key][rng.randrange(len(groups[key]))]
        model = "sp" if forced_b else ("tb" if i < n_tb else "sp")
        method = ("RK45", "DOP853")[i % 2]
        tight = True if forced_b else (i // 2) % 2 == 0
        tick = 120.0 if forced_b else (tb_ticks if model == "tb" else sp_ticks)[(i // 4) % len(tb_ticks if model == "tb" else sp_ticks)]
        if model == "sp" and b["K"] > 2:      # cost: keep perturbed batches small
            small = [q for q in groups if q[1] <= 2 and q[0] == key[0]] or [q for q in groups if q[1] <= 2]
            key = small[rng.randrange(len(small))]
            b = groups[key][rng.randrange(len(groups[key]))]
        cfgname = f"{model}/{method}/{'tight' if tight else 'shipped'}"
        stats["by_config"][cfgname] = stats["by_config"].get(cfgname, 0) + 1
        try:
            real_one(ctx, b, model, method, tight, tick, random.Random(rng.getrandbits(32)), stats, traces)
        except Hang:     # a separate single-column reference call did not return
            sig = f"real:{model}:propagate-does-not-terminate"
            stats["violations"] += 1
            stats["by_signature"][sig] = stats["by_signature"].get(sig, 0) + 1
            ctx.violation(sig, f"(b) real {model}/{method}: an unsplit single-column propagate call (reference of the relation) did "
                          "not return", {"part": "real", "model": model, "method": method, "tick_s": tick,
                                         "calls": [[c["kind"], c["times"]] for c in b["hist"]], "burn_tick": b["burn"]["ts"]})
        K.flush_events()
        if any("does-not-terminate" in sig for sig in stats["by_signature"]):
            stats["aborted_after_hang"] = True      # every further call would cost the full patience
            break
    return stats, traces


def zero_length_grid_probe(ctx: Ctx) -> dict:
    """propagate(t0, t0, x) refuses a zero-length request (ValueError).  propagateBulk([t0, t0], x) must either refuse
    it the same way or return the initial state for the single output time - never other numbers."""
    out = {"cases": 0, "raised": 0, "returned_initial_state": 0}
    for method in ("RK45", "DOP853"):
        for kk in (1, 3):
            emb = K.Embed(random.Random(kk), 10.0, ALPHA)
            dyn = K.ExactLaw(np.zeros(3), method=method)
            x = emb.batch([[2 * k, 3 + k] for k in range(kk)])
            out["cases"] += 1
            ctx.case(("zero-length-grid", method, kk), nontrivial=False)
            try:
                with guard(20.0):
                    res = np.asarray(dyn.propagateBulk([50.0, 50.0], x.copy()), dtype=float)
            except Hang:
                ctx.violation("exact-law:bulk-zero-length-grid-does-not-terminate", "propagateBulk([t0, t0], x) did not return", {})
                continue
            except ValueError:
                out["raised"] += 1
                continue
            if res.shape[:2] == x.shape and np.allclose(res.reshape(6, kk, -1)[:, :, -1], x, rtol=0, atol=1e-12):
                out["returned_initial_state"] += 1
                continue
            ctx.violation("exact-law:bulk-zero-length-grid-returns-other-states",
                          f"propagateBulk([t0, t0], x) with K={kk} ({method}) neither raises (propagate(t0, t0, x) raises ValueError) nor "
                          f"returns the initial state: shape {res.shape}, largest |value| {float(np.abs(res).max()):.3g} "
                          f"(initial state has {float(np.abs(x).max()):.3g})", {"part": "zero-length-grid", "method": method, "K": kk})
    return out


def validate_traces(ctx: Ctx, traces: list) -> dict:
    """impl -> spec: the logged first integrals must stutter (TraceKinematics.tla)."""
    d = ctx.sub("traces")
    (d / "traces.json").write_text(json.dumps([{"band": t["band"], "pts": t["pts"]} for t in traces]))
    cfg = "SPECIFICATION Spec\nINVARIANT Conserved\nINVARIANT StartsAtZero\n"
    res = tlc.run_tlc("TraceKinematics", cfg, d, workers=max(2, ctx.cpus // 2), cont=True, env={"TRACES_FILE": "traces.json"},
                      timeout=3000)
    tlc.require_ok(res, "TraceKinematics")
    ctx.add_tlc(res, f"conservation traces of {len(traces)} real two-body columns validated against TraceKinematics.tla")
    expected = 1 + min(16, 16) + sum(len(t["pts"]) for t in traces)
    bad = 0
    for inv, states in res.invariant_violations:
        txt = "\n".join(states)
        mi, mj = re.findall(r"/\\ i = (\d+)", txt), re.findall(r"/\\ j = (\d+)", txt)
        tr = traces[int(mi[-1]) - 1] if mi else None
        bad += 1
        ctx.violation(f"real:tb:{inv}", f"first integrals of a real two-body run do not stutter: point {mj[-1] if mj else '?'} "
                      f"{tr['pts'][int(mj[-1]) - 1] if tr and mj else ''} (1e-9 relative units, band {tr['band'] if tr else '?'})",
                      {"part": "trace", "trace": tr})
    if not res.invariant_violations and res.distinct_states != expected:
        raise tlc.MachineryError(f"TraceKinematics: {res.distinct_states} states, expected {expected}")
    ctx.traces_validated += len(traces)
    return {"traces": len(traces), "points": sum(len(t["pts"]) for t in traces), "rejected": bad,
            "max_abs_logged": max((abs(q) for t in traces for p in t["pts"] for q in p), default=0)}


# ------------------------------------------------------------------ entry points
def run(ctx: Ctx):
    import time
    rng = random.Random(ctx.seed * 7907 + 3)
    t_phase = [time.time()]
    phases: dict = {}

    def lap(name):
        phases[name] = round(time.time() - t_phase[0], 1)
        t_phase[0] = time.time()
    ctx.extra["phase_seconds"] = phases
    ctx.rule = ("TLC enumerates every behaviour of Kinematics.tla (Mode calls): call sequences (single / bulk with 0-3 interior output "
                "times) tiling [0, H], batch sizes 1-4, no event or an open-ended burn starting at every interior tick, events passed "
                "in every call or dropped (None / []) from any call boundary on. (a) all "
                "behaviours replayed on the exact law; (b) a seeded sample stratified by call structure replayed on real TwoBody / "
                "SpecialPerturbations x RK45 / DOP853 x (rtol 1e-13 | shipped tolerances), seeded orbits a in [6700, 70000] km "
                "log-uniform, e <= 0.7, any inclination incl. 0/90/180, tick 2 s .. 4320 s (17280 s in thorough: a day). "
                "Fixed strata: 6 calendar boundaries (epoch-shift twin), 4 (thorough 12) sunlit/umbra batches with SRP on, 4 (16) "
                "dropped-while-thrusting behaviours through SpecialPerturbations, 3 (7) fractional-second and 3 (7) negative-elapsed-time epoch splits, 4 (40) tight "
                "clusters; neighbour calls on the exact law. Non-trivial = more than one call, a batch, or a bulk call.")
    ctx.assumptions = [
        "REDUCED STRENGTH: for real dynamics the comparisons are relations between implementation runs (and closed-form Kepler for "
        "two-body); TLC supplies the behaviours, the exact-law oracle and validates the conservation traces",
        f"real-dynamics tolerance: ({BASE_R} km, {BASE_V} km/s) x (1 + revolutions)^2 when solve_ivp runs at rtol {TIGHT_RTOL} / atol "
        f"{TIGHT_ATOL} (instance attributes; the driver code is unchanged), x {SHIPPED_FACTOR:g} at the shipped rtol 1e-10 / atol 1e-12 "
        "(measured: the shipped integrator alone differs from Kepler by 6e-4 km after a day in LEO)",
        "events in C03 are open-ended burns (start inside, end beyond the horizon): the restart loop is exercised without depending "
        "on end-of-burn detection, which is C15's subject (defects D10/D10b); a separate exact-law stratum replays closed burns "
        "(signatures exact-law:closed-burn:*)",
        "the repository's Kepler solver is compared within its own convergence tolerance (4 * 1.48e-8 * sqrt(a) km added); the "
        "integrator is compared with an independent closed-form solution at the plain tolerance",
        "conservation: energy and angular momentum logged as integers in 1e-9 relative units; band 1 at rtol 1e-13, "
        "2 + 2*ceil(revolutions) at the shipped tolerances",
        "solar radiation pressure is discontinuous at the Earth's shadow: in the random sample it is switched on only when every "
        "column stays sunlit or stays in the umbra for the whole horizon (driver-side cylinder test with margins: penumbra width + "
        "60 km + 10 km per revolution); a column that crosses the shadow boundary makes batch and separate runs differ by more than "
        "the integrator tolerance on correct code (shared step sequence) and is not compared with SRP on",
        "a call that is handed no events must behave like a fresh dynamics object (DropEvents / StaleThrust in Kinematics.tla); "
        "TwoBody never reads finite_thrust, so on real dynamics only SpecialPerturbations can show a stale thrust",
        "every array a call returns is kept un-copied and compared with its copy after the last call of the behaviour; results "
        "that share memory with each other or with an argument are a violation (OutputsImmutable); arguments must not be modified",
        "argument layouts: the exact-law run poses C / Fortran(transposed) / strided-view / read-only batches (K = 2, 3) through "
        "the spec; the real replay rotates the four layouts over its K >= 2 behaviours",
        "a zero-length grid propagateBulk([t0, t0], x) is outside the quantifier (durations from seconds) but must not return "
        "invented states: raising like propagate(t0, t0) or returning the initial state are both accepted",
        "separate single-column reference calls are made one after the other on the SAME dynamics object; a fixed share of the real "
        "batches are tight clusters (members 1 mm .. 10 m, 1e-6 .. 1e-3 m/s from the first: around numpy.allclose's tolerance); the "
        "exact law replays the spec's neighbour calls with the offset scaled to 1e-7 .. 1 lattice units",
        "epoch-split twins with a fractional-second start (x.400, x.500, x.600; thorough also .999, .250, .750) against a whole-second "
        "start with fractional t0: arcs of 1200 .. 3600 s (7200 s thorough), where 0.4 s of Earth rotation shows 10 x above the "
        "tolerance 3e-7 km (1 + revolutions)^2; start dates through resonaate's datetimeToJulianDate (a Julian date resolves 4e-5 s)",
        "epoch-split twins also with the scenario start AFTER the state epoch (negative elapsed seconds: windows straddling 0, "
        "entirely negative, crossing whole negative days), arcs of 1200 s (thorough to 10800 s), same tolerance model",
        "accuracy of perturbed propagation against an external truth is not decided",
    ]
    res, behs = K.run_spec(ctx, "calls", "Kinematics.tla Mode=calls: all call sequences/batches/grids; C03 invariants + behaviours",
                           invs=INV03, **spec_cfg(ctx))
    small = dict(invs=INV03, Mode='"calls"', Horizon=5, MaxCalls=2, Ks="{1}", MaxInterior=1, Laws="LawsOne", Kinds="KindsOne",
                 StepLens="{1}", MaxSteps=1, CallerMayDrop="TRUE", CallerMayNeighbour="TRUE")
    # spec-level: closed burns too (Semigroup with an end root), and the as-coded deviations break composability
    res2, closed = K.run_spec(ctx, "calls_closed", "Kinematics.tla Mode=calls with closed and open burns (Semigroup with an end root)",
                              emit="BEHC", BurnChoice='"both"', **{**small, "CallerMayDrop": "FALSE", "CallerMayNeighbour": "FALSE"})
    closed = [b for b in closed if 0 < b["burn"]["te"] <= b["hor"]]
    refuted = K.run_as_coded(ctx, "ascoded", ("Semigroup",), BurnChoice='"both"', **small)
    refuted_stale = K.run_as_coded(ctx, "stale", ("ExactAtBoundaries",), deviation="StaleThrust", BurnChoice='"both"', **small)
    cov = K.run_coverage(ctx, "cov", [a for a in K.ACTIONS if a not in ("Deliver", "PoseImp", "ApplyImpulse")], BurnChoice='"both"', **small)
    lap("tlc")
    ctx.extra["spec_mutants_killed"] = {"EndNeedsLanding(D10)": refuted, "StaleThrust(thrust survives a call without events)": refuted_stale}
    ctx.extra["action_coverage"] = cov
    ctx.extra["behaviours"] = len(behs)
    neighbours = [b for b in behs if has_neighbour_call(b)]
    ctx.extra["exact"] = exact_replay(ctx, [b for b in behs if not has_neighbour_call(b)], rng)
    # neighbour calls (same start time, neighbouring start state, same dynamics object): every third one in quick
    ctx.extra["exact_neighbour_calls"] = exact_replay(ctx, neighbours[::3 if ctx.quick else 1], rng)
    # closed burns through propagate/propagateBulk (two roots inside one call): own signatures, because on a tree with
    # defect D10 (C15) they fail for that reason
    ctx.extra["exact_closed_burn"] = exact_replay(ctx, closed, rng, tag="exact-law:closed-burn")
    # the memory layout of the (6, K) argument is part of the posed call (spec variable `layout`): batches only
    _, layouts = K.run_spec(ctx, "layouts", "Kinematics.tla Mode=calls, every memory layout of the state argument (K >= 2)",
                            invs=INV03, emit="BEHL", **dict(spec_cfg(ctx), Horizon=3 if ctx.quick else 4, MaxInterior=1, MaxCalls=2,
                                                            Ks="{2, 3}", Laws="LawsOne", Layouts="LayoutsAll", CallerMayDrop="FALSE",
                                                            CallerMayNeighbour="FALSE"))
    ctx.extra["exact_layouts"] = exact_replay(ctx, [b for b in layouts if b["layout"] != "C"], rng, tag="exact-law:layout")
    ctx.extra["zero_length_grid"] = zero_length_grid_probe(ctx)
    lap("exact")
    stats, traces = real_replay(ctx, behs, rng)
    ctx.extra["real"] = stats
    lap("real")
    ctx.extra["conservation"] = validate_traces(ctx, traces) if traces else {"traces": 0}


def replay(ctx: Ctx, rp: dict):
    r = rp["replay"]
    if r.get("part") != "exact":
        return run(ctx)
    bad, _ = exact_one(r["behaviour"], r["method"], r["tau_s"], random.Random(r["seed"]))
    ctx.case(("replay", str(r["behaviour"]["hist"])[:200]))
    ctx.case(("replay2", r["method"]))
    if bad:
        ctx.violation(bad[0], bad[1], r)
