"""C03 - orbit propagation is composable, batch-consistent, Kepler-exact and conservative.

spec/Kinematics.tla (Mode = "calls") models Celestial.propagate / propagateBulk (the solve_ivp
restart loop with a terminal event, the t_eval grid, the batch of K columns) on an exactly
integrable law.  TLC proves Semigroup / BulkConsistent / ExactAtBoundaries / StepwiseEqualsRun
for every reachable state and prints every behaviour (all splits t0 < t1 < t2, batch sizes 1-4,
output grids with 0-3 interior times, with and without an event between output times) with the
exact states after every call.  The behaviours are replayed into the real code:

(a) EXACT  the real Celestial.propagate / propagateBulk driven by `ExactLaw`: every output of every
           column must equal the spec's integers (1e-9): the spec's numbers are the oracle.
(b) REAL   the real TwoBody and SpecialPerturbations, RK45 and DOP853: the spec supplies the
           RELATION - every output of a behaviour (split calls, batch columns, bulk output times)
           must equal the separate, unsplit, single-column call from the initial state; perturbed
           dynamics must also equal the epoch-shift twin; two-body runs must equal the repository's
           closed-form Kepler solution (and an independent one) and conserve energy and angular
           momentum - the logged first integrals are validated by TLC (spec/TraceKinematics.tla).

REDUCED STRENGTH: for the real dynamics the numeric comparisons are relations between
implementation runs (plus closed-form Kepler for two-body); TLC contributes the behaviours, the
exact-law oracle and the validation of the conservation traces.
"""
from __future__ import annotations

import json
import math
import random
import re

import numpy as np

from .. import tlc
from ..core import Ctx
from . import _kinematics as K
from .c15 import Hang, guard

LEVEL = "model_checking"

ALPHA = 1.0e-4
TAUS = (10.0, 60.0, 8.5, 300.0, 2.5)   # seconds per tick; 2.5 s puts the first ticks below 8 s (event re-trigger zone)
BASE_R, BASE_V = 3.0e-7, 3.0e-10      # km, km/s at rtol 1e-13 ("tight"), times (1 + revolutions)^2; 3 x the nominal
#                                       1e-7 / 1e-10 (largest ratio to the nominal over 11 000 comparisons: 0.74)
SHIPPED_FACTOR = 1.0e3                # rtol 1e-10 / 1e-13
KEPLER_ATOL = 1.48e-8                 # resonaate.physics.maths._ATOL: convergence tolerance of the universal-variable solver
TIGHT_RTOL, TIGHT_ATOL = 1.0e-13, 1.0e-15
BURN_ACC = 1.0e-6                     # km/s^2, open-ended ECI burn used as the terminal event
INV03 = ("ExactAtBoundaries", "Semigroup", "BulkConsistent", "StepwiseEqualsRun", "QueueClean", "ThrustExactlyInterval",
         "DeliveredDv")


def spec_cfg(ctx: Ctx) -> dict:
    base = dict(Mode='"calls"', BurnChoice='"open"', Kinds="KindsOne", MaxInterior=3, StepLens="{1}", MaxSteps=1)
    if ctx.quick:
        return dict(base, Horizon=5, MaxCalls=2, Ks="{1, 2, 3, 4}", Laws="LawsOne")
    return dict(base, Horizon=6, MaxCalls=3, Ks="{1, 2, 3, 4}", Laws="LawsQuick")


def structure(b) -> tuple:
    return (tuple((c["kind"], len(c["times"]) - 2) for c in b["hist"]), b["K"], b["burn"]["kind"] != "none")


# ------------------------------------------------------------------ (a) exact law
def crash_signature(prefix: str, call_kind: str, ex: Exception) -> str:
    """propagateBulk has one known crash site: a restart segment without any requested output time."""
    if call_kind == "bulk" and isinstance(ex, (AttributeError, IndexError)):
        return f"{prefix}:bulk-crash-empty-output-segment"
    return f"{prefix}:exception:{type(ex).__name__}"


def exact_one(b, method: str, tau: float, rng: random.Random, tag: str = "exact-law"):
    v0, g, a = b["law"]
    burn = b["burn"]
    emb = K.Embed(rng, tau, ALPHA)
    dyn = K.ExactLaw(g * ALPHA * emb.u, method=method)
    events = []
    if burn["kind"] != "none":
        events.append(emb.thrust_event(burn["kind"], a, burn["ts"] * tau, burn["te"] * tau))
    kk = b["K"]
    x = emb.batch(b["X0"])
    outputs = 0
    for ci, call in enumerate(b["hist"]):
        times = [t * tau for t in call["times"]]
        try:
            with guard(20.0):
                if call["kind"] == "single":
                    res = dyn.propagate(times[0], times[1], x[:, 0] if kk == 1 else x, scheduled_events=list(events))
                    outs = [np.asarray(res, dtype=float).reshape(6, kk)]
                else:
                    res = dyn.propagateBulk(times, x, scheduled_events=list(events))
                    if res.shape != (6, kk, len(times) - 1):
                        return (f"{tag}:bulk-output-shape", f"propagateBulk returned shape {res.shape} for K={kk}, "
                                f"{len(times) - 1} output times", {"call": ci}), outputs
                    outs = [res[:, :, j] for j in range(res.shape[2])]
        except Hang:
            return (f"{tag}:propagate-does-not-terminate", f"{call['kind']} call {call['times']} did not return within 20 s",
                    {"call": ci}), outputs
        except tlc.MachineryError:
            raise
        except Exception as ex:  # noqa: BLE001 - the real code raised on a legal call
            return (crash_signature(tag, call["kind"], ex), f"{call['kind']} call over ticks {call['times']} (K={kk}, burn "
                    f"[{burn['ts']},{burn['te']}) ticks of {tau} s) raised {type(ex).__name__}: {ex}", {"call": ci}), outputs
        for j, (got, want) in enumerate(zip(outs, call["outs"])):
            for k in range(kk):
                p2, vv, off = emb.project(got[:, k])
                outputs += 1
                tol_p = max(1e-9 * max(1.0, abs(want[k][0])), 8 * np.spacing(emb.R0 + abs(want[k][0]) * emb.pu) / emb.pu)
                if off > 1e-6 or not K.close(vv, want[k][1]) or abs(p2 - want[k][0]) > tol_p:
                    sig = f"{tag}:propagate-state" if call["kind"] == "single" else f"{tag}:bulk-output"
                    return (sig, f"{call['kind']} call over ticks {call['times']} (K={kk}, burn [{burn['ts']},{burn['te']})): output {j + 1} column "
                            f"{k + 1} is (2p, v) = ({p2:.9f}, {vv:.9f}), spec says {want[k]}", {"call": ci, "output": j, "column": k}), outputs
        x = outs[-1].copy()
    return None, outputs


def exact_replay(ctx: Ctx, behs, rng: random.Random, tag: str = "exact-law") -> dict:
    stats = {"behaviours": 0, "outputs": 0, "violations": 0, "by_signature": {}}
    hangs = 0
    for i, b in enumerate(behs):
        if hangs >= 3:       # a tree on which propagation does not terminate: stop, every further case costs 20 s
            stats["aborted_after_hangs"] = True
            break
        methods = ("RK45", "DOP853") if (not ctx.quick and i % 2 == 0) else (("RK45", "DOP853")[(i // 2) % 2],)
        for method in methods:
            tau = TAUS[(i // 2) % len(TAUS)]
            seed = rng.getrandbits(32)
            try:
                bad, n_out = exact_one(b, method, tau, random.Random(seed), tag)
            except tlc.MachineryError:
                raise
            K.flush_events()
            stats["behaviours"] += 1
            stats["outputs"] += n_out
            ctx.case((tag, tuple(b["law"]), b["hor"], b["K"], b["burn"]["ts"], b["burn"]["te"], tuple(tuple(c["times"]) for c in b["hist"]),
                      tuple(c["kind"] for c in b["hist"]), method),
                     nontrivial=len(b["hist"]) > 1 or b["K"] > 1 or b["hist"][0]["kind"] == "bulk",
                     sample={"part": "exact", "law": b["law"], "K": b["K"], "burn": b["burn"], "method": method,
                             "calls": [[c["kind"], c["times"]] for c in b["hist"]]} if i % 997 == 5 else None)
            if bad:
                sig, what, detail = bad
                stats["violations"] += 1
                stats["by_signature"][sig] = stats["by_signature"].get(sig, 0) + 1
                hangs += "does-not-terminate" in sig
                ctx.violation(sig, "(a) exact law through the real Celestial.propagate/propagateBulk: " + what,
                              {"part": "exact", "tag": tag, "behaviour": b, "method": method, "tau_s": tau, "seed": seed, **detail})
    ctx.traces_validated += stats["behaviours"]
    return stats


# ------------------------------------------------------------------ (b) real dynamics
def random_orbit(rng: random.Random):
    """Bound orbit from LEO to beyond GEO, e <= 0.7, any inclination, perigee above 300 km altitude."""
    while True:
        a = math.exp(rng.uniform(math.log(6700.0), math.log(70000.0)))
        e = rng.choice((0.0, rng.uniform(0.0, 0.7), rng.uniform(0.0, 0.1)))
        if a * (1 - e) >= 6678.0:
            break
    inc = rng.choice((0.0, 180.0, 90.0, rng.uniform(0, 180), rng.uniform(0, 180), rng.uniform(0, 180)))
    el = dict(a=a, e=e, inc=inc, raan=rng.uniform(0, 360), argp=rng.uniform(0, 360), ta=rng.uniform(0, 360))
    x = K.coe_to_eci(a, e, *(math.radians(el[q]) for q in ("inc", "raan", "argp", "ta")))
    return el, x, 2 * math.pi * math.sqrt(a ** 3 / K.MU)


def make_dyn(model: str, method: str, tight: bool, jd0: float, rich: bool):
    from resonaate.dynamics.special_perturbations import SpecialPerturbations
    from resonaate.dynamics.two_body import TwoBody
    from resonaate.physics.time.stardate import JulianDate
    from resonaate.scenario.config.geopotential_config import GeopotentialConfig
    from resonaate.scenario.config.perturbations_config import PerturbationsConfig
    if model == "tb":
        dyn = TwoBody(method=method)
    else:
        dyn = SpecialPerturbations(JulianDate(jd0), GeopotentialConfig(degree=6 if rich else 4, order=6 if rich else 4),
                                   PerturbationsConfig(third_bodies=["sun", "moon"] if rich else ["moon"],
                                                       solar_radiation_pressure=rich), 0.02, method=method)
    if tight:   # the driver under test is unchanged; only solve_ivp's tolerances are tightened
        dyn.RELATIVE_TOL, dyn.ABSOLUTE_TOL = TIGHT_RTOL, TIGHT_ATOL
    return dyn


def first_integrals(x):
    r, v = x[:3], x[3:]
    return 0.5 * (v @ v) - K.MU / np.linalg.norm(r), np.cross(r, v)


def real_one(ctx: Ctx, b, model: str, method: str, tight: bool, tick: float, rng: random.Random, stats: dict, traces: list):
    """Replay one behaviour through real dynamics; relations against separate unsplit single-column calls."""
    from resonaate.dynamics.integration_events.finite_thrust import ScheduledFiniteBurn, eciBurn
    from resonaate.physics.orbits.kepler import solveKeplerProblemUniversal
    from resonaate.physics.time.stardate import ScenarioTime
    from functools import partial
    kk = b["K"]
    patience = 150.0 if ctx.quick else 1800.0      # generous: the machine may be loaded; quick durations take seconds
    orbits = [random_orbit(rng) for _ in range(kk)]
    x0 = np.stack([o[1] for o in orbits], axis=1)
    # start epoch: anywhere in 2019-2020, or (half of the cases) a few hours after a calendar boundary, so that the
    # epoch-shift twin (start date moved back by up to 3 days) starts on the other side of it
    boundary = rng.choice((None, None, 2458849.5, 2459215.5, 2458908.5, 2458909.5, 2458665.5))   # 1 Jan 2020/2021, 29 Feb/1 Mar 2020, 1 Jul 2019
    if boundary is None:
        jd0 = 2458484.5 + rng.randrange(0, 700) + rng.randrange(0, 86400) / 86400.0
    else:
        jd0 = boundary + rng.randrange(0, 6 * 3600) / 86400.0
    rich = rng.random() < 0.3
    dyn = make_dyn(model, method, tight, jd0, rich)
    factor = 1.0 if tight else SHIPPED_FACTOR
    burn_dir = np.array([rng.gauss(0, 1) for _ in range(3)])
    burn_dir /= np.linalg.norm(burn_dir)

    def events(offset=0.0):
        if b["burn"]["kind"] == "none":
            return []
        return [ScheduledFiniteBurn(ScenarioTime(b["burn"]["ts"] * tick + offset), ScenarioTime(1.0e9),
                                    partial(eciBurn, acc_vector=BURN_ACC * burn_dir), 1)]
    desc = {"part": "real", "model": model, "method": method, "tight": tight, "tick_s": tick, "K": kk, "jd0": jd0, "near_calendar_boundary": boundary is not None, "rich": rich,
            "burn_tick": b["burn"]["ts"], "calls": [[c["kind"], c["times"]] for c in b["hist"]],
            "orbits": [o[0] for o in orbits]}
    ref_cache: dict = {}

    def ref(k: int, t: int):
        if (k, t) not in ref_cache:
            with guard(patience):
                ref_cache[(k, t)] = np.asarray(dyn.propagate(0.0, t * tick, x0[:, k].copy(), scheduled_events=events()), dtype=float)
        return ref_cache[(k, t)]

    def tol(k: int, t: int):
        s = factor * (1.0 + t * tick / orbits[k][2]) ** 2
        return BASE_R * s, BASE_V * s

    def fail(sig, what, extra):
        stats["violations"] += 1
        stats["by_signature"][sig] = stats["by_signature"].get(sig, 0) + 1
        ctx.violation(sig, f"(b) real {model}/{method} ({'rtol 1e-13' if tight else 'shipped tolerances'}): " + what, {**desc, **extra})

    x = x0.copy()
    e0h0 = [first_integrals(x0[:, k]) for k in range(kk)]
    pts = [[[0, 0, 0, 0]] for _ in range(kk)]
    failed = False
    for ci, call in enumerate(b["hist"]):
        times = [t * tick for t in call["times"]]
        try:
            with guard(patience):
                if call["kind"] == "single":
                    res = dyn.propagate(times[0], times[1], x[:, 0].copy() if kk == 1 else x.copy(), scheduled_events=events())
                    outs = [np.asarray(res, dtype=float).reshape(6, kk)]
                else:
                    res = dyn.propagateBulk(times, x.copy(), scheduled_events=events())
                    outs = [np.asarray(res[:, :, j], dtype=float) for j in range(res.shape[2])]
        except Hang:
            fail(f"real:{model}:propagate-does-not-terminate", f"{call['kind']} call {times} did not return within {patience:g} s", {"call": ci})
            return
        except tlc.MachineryError:
            raise
        except Exception as ex:  # noqa: BLE001 - the real code raised on a legal call
            fail(crash_signature(f"real:{model}", call["kind"], ex), f"{call['kind']} call over ticks {call['times']} (K={kk}, burn at tick "
                 f"{b['burn']['ts']}) raised {type(ex).__name__}: {ex}", {"call": ci})
            return
        if len(outs) != len(call["times"]) - 1:
            fail(f"real:{model}:bulk-output-count", f"{len(outs)} outputs for {len(call['times']) - 1} output times", {"call": ci})
            return
        for j, got in enumerate(outs):
            t = call["times"][j + 1]
            for k in range(kk):
                stats["comparisons"] += 1
                tr, tv = tol(k, t)
                want = ref(k, t)
                dr, dv = np.abs(got[:3, k] - want[:3]).max(), np.abs(got[3:, k] - want[3:]).max()
                trivial = ci == 0 and call["kind"] == "single" and kk == 1      # the very same call
                if not trivial:
                    stats["max_ratio"] = max(stats["max_ratio"], dr / tr, dv / tv)
                if (dr > tr or dv > tv) and not failed:
                    rel = "bulk-output-vs-separate-call" if call["kind"] == "bulk" else \
                        ("batch-column-vs-single" if ci == 0 else "split-vs-unsplit")
                    fail(f"real:{model}:{rel}", f"call {ci + 1} ({call['kind']} over ticks {call['times']}, K={kk}) output {j + 1} column "
                         f"{k + 1} differs from the separate unsplit single-column call by {dr:.3g} km / {dv:.3g} km/s "
                         f"(tolerance {tr:.2g} / {tv:.2g})", {"call": ci, "output": j, "column": k, "dr_km": dr, "dv_kmps": dv})
                    failed = True
                if model == "tb":
                    # closed form: the repository's universal-variable solver and an independent one
                    ind = K.kepler_independent(x0[:, k], t * tick)
                    try:
                        rep = np.asarray(solveKeplerProblemUniversal(x0[:, k].copy(), t * tick), dtype=float)
                    except Exception as ex:  # noqa: BLE001
                        rep = None
                        if not failed:
                            fail("real:kepler-solver-raises", f"solveKeplerProblemUniversal raised {type(ex).__name__}: {ex} "
                                 f"(a={orbits[k][0]['a']:.1f} km, e={orbits[k][0]['e']:.3f}, tof={t * tick} s)", {"column": k, "tof": t * tick})
                            failed = True

                    def off(p, q, tr=tr, tv=tv):
                        return max(np.abs(p[:3] - q[:3]).max() / tr, np.abs(p[3:] - q[3:]).max() / tv)
                    # the repository solver stops when the universal anomaly moves less than _ATOL = 1.48e-8 sqrt(km)
                    el = orbits[k][0]
                    kr = tr + 4.0 * KEPLER_ATOL * math.sqrt(el["a"])
                    kv = tv + (kr - tr) * math.sqrt(K.MU * (1 + el["e"]) / (el["a"] * (1 - el["e"]))) / (el["a"] * (1 - el["e"]))
                    o_ii = off(got[:, k], ind)
                    stats["max_closed_form_ratio"] = max(stats["max_closed_form_ratio"], o_ii)
                    if o_ii > 1.0 and not failed:
                        fail("real:two-body-vs-closed-form", f"two-body output at {t * tick} s (a={el['a']:.1f} km, e={el['e']:.3f}) "
                             f"differs from the independent closed-form Kepler solution by {o_ii:.3g} x tolerance", {"column": k, "tof": t * tick})
                        failed = True
                    if rep is not None:
                        stats["kepler_checks"] += 1
                        o_ir, o_ri = off(got[:, k], rep, kr, kv), off(rep, ind, kr, kv)
                        stats["max_kepler_ratio"] = max(stats["max_kepler_ratio"], o_ir)
                        if o_ir > 1.0 and not failed:
                            who = "kepler-solver-vs-independent-closed-form" if (o_ri > 1.0 and o_ii <= 1.0) else "two-body-vs-kepler"
                            fail(f"real:{who}", f"two-body output at {t * tick} s (a={orbits[k][0]['a']:.1f} km, e={orbits[k][0]['e']:.3f}) "
                                 f"vs solveKeplerProblemUniversal: {o_ir:.3g} x tolerance; integrator vs independent closed form "
                                 f"{o_ii:.3g} x; repository solver vs independent {o_ri:.3g} x", {"column": k, "tof": t * tick})
                            failed = True
                    en, hv = first_integrals(got[:, k])
                    e0, h0 = e0h0[k]
                    hn = np.linalg.norm(h0)
                    pts[k].append([int(round(1e9 * (en - e0) / abs(e0)))] + [int(round(1e9 * float(d) / hn)) for d in (hv - h0)])
        x = outs[-1].copy()
    if model == "tb":
        for k in range(kk):
            revs = b["hist"][-1]["times"][-1] * tick / orbits[k][2]
            band = 1 if tight else 2 + 2 * math.ceil(revs)
            clip = [[max(-10 ** 8, min(10 ** 8, q)) for q in p] for p in pts[k]]
            traces.append({"band": band, "pts": clip, "desc": {**desc, "column": k}})
    else:
        # epoch-shift twin: the same absolute epoch written as (start date - D, elapsed seconds + D)
        shift = float(rng.randrange(6 * 3600, 3 * 86400) if boundary else rng.randrange(1, 3 * 86400))
        dyn2 = make_dyn(model, method, tight, jd0 - shift / 86400.0, rich)
        t_end = b["hist"][-1]["times"][-1]
        for k in range(kk):
            with guard(patience):
                a1 = np.asarray(dyn2.propagate(shift, shift + t_end * tick, x0[:, k].copy(), scheduled_events=events(shift)), dtype=float)
            a2 = ref(k, t_end)
            tr, tv = tol(k, t_end)
            dr, dv = np.abs(a1[:3] - a2[:3]).max(), np.abs(a1[3:] - a2[3:]).max()
            stats["epoch_shift_checks"] += 1
            stats["max_shift_ratio"] = max(stats["max_shift_ratio"], dr / tr, dv / tv)
            if (dr > tr or dv > tv) and not failed:
                fail("real:sp:epoch-shift-twin", f"propagating {t_end * tick} s from the same epoch written as (start - {shift} s, "
                     f"t0 = {shift} s) and as (start, t0 = 0) differs by {dr:.3g} km / {dv:.3g} km/s (tolerance {tr:.2g} / {tv:.2g})",
                     {"shift_s": shift, "column": k})
                failed = True
        del dyn2
    stats["behaviours"] += 1
    ctx.traces_validated += 1
    ctx.case(("real", model, method, tight, tick, structure(b), tuple(round(o[0]["a"]) for o in orbits)), nontrivial=True,
             sample=desc if stats["behaviours"] % 41 == 1 else None)


CALENDAR_BOUNDARIES = {"2020-01-01": 2458849.5, "2021-01-01": 2459215.5, "2020-02-29": 2458908.5, "2020-03-01": 2458909.5,
                       "2019-07-01": 2458665.5, "2019-10-17": 2458773.5}


def epoch_boundary_stratum(ctx: Ctx, rng: random.Random, stats: dict):
    """Perturbed dynamics, the same absolute epoch written on both sides of a calendar boundary (year, leap day, month,
    plain midnight): start 1 h after the boundary with t0 = 0  versus  start 1 h before it with t0 = 2 h."""
    span = 600.0 if ctx.quick else 3600.0
    for i, (name, jdb) in enumerate(sorted(CALENDAR_BOUNDARIES.items())):
        method = ("RK45", "DOP853")[i % 2]
        el, x0, period = random_orbit(rng)
        while el["a"] > 12000.0:          # low orbits feel the tesseral terms most
            el, x0, period = random_orbit(rng)
        dyn_a = make_dyn("sp", method, True, jdb + 1.0 / 24.0, False)
        dyn_b = make_dyn("sp", method, True, jdb - 1.0 / 24.0, False)
        try:
            with guard(600.0):
                ya = np.asarray(dyn_a.propagate(0.0, span, x0.copy()), dtype=float)
                yb = np.asarray(dyn_b.propagate(7200.0, 7200.0 + span, x0.copy()), dtype=float)
        except Hang:
            raise tlc.MachineryError("epoch boundary stratum: propagation without events did not return in 600 s")
        s = (1.0 + span / period) ** 2
        dr, dv = np.abs(ya - yb)[:3].max(), np.abs(ya - yb)[3:].max()
        stats["epoch_shift_checks"] += 1
        stats["max_shift_ratio"] = max(stats["max_shift_ratio"], dr / (BASE_R * s), dv / (BASE_V * s))
        ctx.case(("epoch-boundary", name, method, round(el["a"])), nontrivial=True)
        if dr > BASE_R * s or dv > BASE_V * s:
            sig = "real:sp:epoch-shift-twin"
            stats["violations"] += 1
            stats["by_signature"][sig] = stats["by_signature"].get(sig, 0) + 1
            ctx.violation(sig, f"(b) real sp/{method}: {span:g} s from the epoch {name} 01:00 written as (start {name} 01:00, t0 = 0) and as "
                          f"(start 1 h before {name}, t0 = 7200 s) differ by {dr:.3g} km / {dv:.3g} km/s (tolerance {BASE_R * s:.2g} / "
                          f"{BASE_V * s:.2g}; a = {el['a']:.0f} km)", {"part": "epoch-boundary", "boundary": name, "jd": jdb,
                                                                        "method": method, "orbit": el, "span_s": span})


def real_replay(ctx: Ctx, behs, rng: random.Random):
    stats = {"behaviours": 0, "comparisons": 0, "kepler_checks": 0, "epoch_shift_checks": 0, "violations": 0, "max_ratio": 0.0,
             "max_kepler_ratio": 0.0, "max_closed_form_ratio": 0.0, "max_shift_ratio": 0.0, "by_signature": {}, "by_config": {}}
    traces: list = []
    groups: dict = {}
    for b in behs:
        if len(b["hist"]) > 1 or b["K"] > 1 or b["hist"][0]["kind"] == "bulk":
            groups.setdefault(structure(b), []).append(b)
    keys = sorted(groups, key=repr)
    rng.shuffle(keys)
    n_tb, n_sp = (44, 14) if ctx.quick else (450, 80)
    tb_ticks = (2.0, 12.0, 120.0, 720.0, 4320.0) if ctx.quick else (2.0, 12.0, 120.0, 720.0, 4320.0, 17280.0, 17280.0)
    sp_ticks = (2.0, 12.0, 120.0) if ctx.quick else (2.0, 12.0, 120.0, 720.0, 2880.0)
    epoch_boundary_stratum(ctx, random.Random(rng.getrandbits(32)), stats)
    for i in range(n_tb + n_sp):
        key = keys[i % len(keys)]
        b = groups[key][rng.randrange(len(groups[key]))]
        model = "tb" if i < n_tb else "sp"
        method = ("RK45", "DOP853")[i % 2]
        tight = (i // 2) % 2 == 0
        tick = (tb_ticks if model == "tb" else sp_ticks)[(i // 4) % len(tb_ticks if model == "tb" else sp_ticks)]
        if model == "sp" and b["K"] > 2:      # cost: keep perturbed batches small
            small = [q for q in groups if q[1] <= 2 and q[0] == key[0]] or [q for q in groups if q[1] <= 2]
            key = small[rng.randrange(len(small))]
            b = groups[key][rng.randrange(len(groups[key]))]
        cfgname = f"{model}/{method}/{'tight' if tight else 'shipped'}"
        stats["by_config"][cfgname] = stats["by_config"].get(cfgname, 0) + 1
        try:
            real_one(ctx, b, model, method, tight, tick, random.Random(rng.getrandbits(32)), stats, traces)
        except Hang:     # a separate single-column reference call did not return
            sig = f"real:{model}:propagate-does-not-terminate"
            stats["violations"] += 1
            stats["by_signature"][sig] = stats["by_signature"].get(sig, 0) + 1
            ctx.violation(sig, f"(b) real {model}/{method}: an unsplit single-column propagate call (reference of the relation) did "
                          "not return", {"part": "real", "model": model, "method": method, "tick_s": tick,
                                         "calls": [[c["kind"], c["times"]] for c in b["hist"]], "burn_tick": b["burn"]["ts"]})
        K.flush_events()
        if any("does-not-terminate" in sig for sig in stats["by_signature"]):
            stats["aborted_after_hang"] = True      # every further call would cost the full patience
            break
    return stats, traces


def validate_traces(ctx: Ctx, traces: list) -> dict:
    """impl -> spec: the logged first integrals must stutter (TraceKinematics.tla)."""
    d = ctx.sub("traces")
    (d / "traces.json").write_text(json.dumps([{"band": t["band"], "pts": t["pts"]} for t in traces]))
    cfg = "SPECIFICATION Spec\nINVARIANT Conserved\nINVARIANT StartsAtZero\n"
    res = tlc.run_tlc("TraceKinematics", cfg, d, workers=max(2, ctx.cpus // 2), cont=True, env={"TRACES_FILE": "traces.json"},
                      timeout=3000)
    tlc.require_ok(res, "TraceKinematics")
    ctx.add_tlc(res, f"conservation traces of {len(traces)} real two-body columns validated against TraceKinematics.tla")
    expected = 1 + min(16, 16) + sum(len(t["pts"]) for t in traces)
    bad = 0
    for inv, states in res.invariant_violations:
        txt = "\n".join(states)
        mi, mj = re.findall(r"/\\ i = (\d+)", txt), re.findall(r"/\\ j = (\d+)", txt)
        tr = traces[int(mi[-1]) - 1] if mi else None
        bad += 1
        ctx.violation(f"real:tb:{inv}", f"first integrals of a real two-body run do not stutter: point {mj[-1] if mj else '?'} "
                      f"{tr['pts'][int(mj[-1]) - 1] if tr and mj else ''} (1e-9 relative units, band {tr['band'] if tr else '?'})",
                      {"part": "trace", "trace": tr})
    if not res.invariant_violations and res.distinct_states != expected:
        raise tlc.MachineryError(f"TraceKinematics: {res.distinct_states} states, expected {expected}")
    ctx.traces_validated += len(traces)
    return {"traces": len(traces), "points": sum(len(t["pts"]) for t in traces), "rejected": bad,
            "max_abs_logged": max((abs(q) for t in traces for p in t["pts"] for q in p), default=0)}


# ------------------------------------------------------------------ entry points
def run(ctx: Ctx):
    rng = random.Random(ctx.seed * 7907 + 3)
    ctx.rule = ("TLC enumerates every behaviour of Kinematics.tla (Mode calls): call sequences (single / bulk with 0-3 interior output "
                "times) tiling [0, H], batch sizes 1-4, no event or an open-ended burn starting at every interior tick. (a) all "
                "behaviours replayed on the exact law; (b) a seeded sample stratified by call structure replayed on real TwoBody / "
                "SpecialPerturbations x RK45 / DOP853 x (rtol 1e-13 | shipped tolerances), seeded orbits a in [6700, 70000] km "
                "log-uniform, e <= 0.7, any inclination incl. 0/90/180, tick 2 s .. 4320 s (17280 s in thorough: a day). "
                "Non-trivial = more than one call, a batch, or a bulk call.")
    ctx.assumptions = [
        "REDUCED STRENGTH: for real dynamics the comparisons are relations between implementation runs (and closed-form Kepler for "
        "two-body); TLC supplies the behaviours, the exact-law oracle and validates the conservation traces",
        f"real-dynamics tolerance: ({BASE_R} km, {BASE_V} km/s) x (1 + revolutions)^2 when solve_ivp runs at rtol {TIGHT_RTOL} / atol "
        f"{TIGHT_ATOL} (instance attributes; the driver code is unchanged), x {SHIPPED_FACTOR:g} at the shipped rtol 1e-10 / atol 1e-12 "
        "(measured: the shipped integrator alone differs from Kepler by 6e-4 km after a day in LEO)",
        "events in C03 are open-ended burns (start inside, end beyond the horizon): the restart loop is exercised without depending "
        "on end-of-burn detection, which is C15's subject (defects D10/D10b); a separate exact-law stratum replays closed burns "
        "(signatures exact-law:closed-burn:*)",
        "the repository's Kepler solver is compared within its own convergence tolerance (4 * 1.48e-8 * sqrt(a) km added); the "
        "integrator is compared with an independent closed-form solution at the plain tolerance",
        "conservation: energy and angular momentum logged as integers in 1e-9 relative units; band 1 at rtol 1e-13, "
        "2 + 2*ceil(revolutions) at the shipped tolerances",
        "accuracy of perturbed propagation against an external truth is not decided",
    ]
    res, behs = K.run_spec(ctx, "calls", "Kinematics.tla Mode=calls: all call sequences/batches/grids; C03 invariants + behaviours",
                           invs=INV03, **spec_cfg(ctx))
    small = dict(invs=INV03, Mode='"calls"', Horizon=5, MaxCalls=2, Ks="{1}", MaxInterior=1, Laws="LawsOne", Kinds="KindsOne",
                 StepLens="{1}", MaxSteps=1)
    # spec-level: closed burns too (Semigroup with an end root), and the as-coded deviations break composability
    res2, closed = K.run_spec(ctx, "calls_closed", "Kinematics.tla Mode=calls with closed and open burns (Semigroup with an end root)",
                              emit="BEHC", BurnChoice='"both"', **small)
    closed = [b for b in closed if 0 < b["burn"]["te"] <= b["hor"]]
    refuted = K.run_as_coded(ctx, "ascoded", ("Semigroup",), BurnChoice='"both"', **small)
    cov = K.run_coverage(ctx, "cov", [a for a in K.ACTIONS if a != "Deliver"], BurnChoice='"both"', **small)
    ctx.extra["spec_mutants_killed"] = {"EndNeedsLanding(D10)": refuted}
    ctx.extra["action_coverage"] = cov
    ctx.extra["behaviours"] = len(behs)
    ctx.extra["exact"] = exact_replay(ctx, behs, rng)
    # closed burns through propagate/propagateBulk (two roots inside one call): own signatures, because on a tree with
    # defect D10 (C15) they fail for that reason
    ctx.extra["exact_closed_burn"] = exact_replay(ctx, closed, rng, tag="exact-law:closed-burn")
    stats, traces = real_replay(ctx, behs, rng)
    ctx.extra["real"] = stats
    ctx.extra["conservation"] = validate_traces(ctx, traces) if traces else {"traces": 0}


def replay(ctx: Ctx, rp: dict):
    r = rp["replay"]
    if r.get("part") != "exact":
        return run(ctx)
    bad, _ = exact_one(r["behaviour"], r["method"], r["tau_s"], random.Random(r["seed"]))
    ctx.case(("replay", str(r["behaviour"]["hist"])[:200]))
    ctx.case(("replay2", r["method"]))
    if bad:
        ctx.violation(bad[0], bad[1], r)
