"""Independent sensor/target geometry for C02 (oracle side of the SensorChain records).

Everything here is evaluated from first principles in a formulation DIFFERENT from the
code under test (src/resonaate/sensors/*, physics/sensor_utils.py, physics/measurements.py):

* site frame: iterative geodetic latitude (fixed point on the prime-vertical radius) and an
  east/north/up projection, azimuth = atan2(E, N) clockwise from north, elevation =
  atan2(U, hypot(E, N))  (code: closed-form ecef2lla, rot2/rot3 SEZ rotation, arcsin/arctan2);
* line of sight: |S x T| / |T - S| distance of the LINE to the geocentre, used only when the
  foot of the perpendicular is interior to the segment (convention of DESIGN.md 12.7)
  (code: Vallado's tau parametrisation);
* masks / field of view: wrapped differences  (code: two-branch comparisons, unwrapped FoV);
* slew / cone angles: atan2(|a x b|, a.b)  (code: arccos of the normalised dot product);
* radar: received power of the radar range equation against the minimum detectable power
  (code: fourth-root maximum range);
* illumination: umbra CONE of the Sun/Earth pair (code: Montenbruck's angular disks);
* photometry: the documented formula re-evaluated (wiring only, not physics).

Trusted inputs (stated in ctx.assumptions): the ECI->ECEF rotation matrix of the code's FK5
reduction built at the AUTHORITATIVE datetime (start + timedelta), the code's Sun ephemeris
at host.julian_date_epoch, and the model constants (Earth radius, eccentricity, atmosphere
height, Sun radius / magnitude, solar flux, speed of light).

Every constraint is returned as a tri-state: 1 holds, 0 fails, 2 undecided (the independent
margin lies inside the tolerance band, or the quantity is singular).
"""
from __future__ import annotations

import math

import numpy as np

TWO_PI = 2.0 * math.pi
REL = 1e-9            # generic relative / angular band
SING_COS = 1e-6       # cos(elevation) below this: azimuth is treated as undefined

CONSTRAINTS = ("slew", "fov", "minR", "maxR", "los", "el", "az", "radar",
               "flux", "vismag", "galactic", "sunCone", "limb", "dark")

_ROT_CACHE: dict = {}


def consts():
    from resonaate.physics import constants as c
    from resonaate.physics.bodies import Earth
    from resonaate.physics.bodies.third_body import Sun
    return {"RE": Earth.radius, "E2": Earth.eccentricity ** 2, "ATM": Earth.atmosphere,
            "RSUN": Sun.radius, "MSUN": Sun.absolute_magnitude, "C": c.SPEED_OF_LIGHT}


def rot_eci2ecef(dt):
    """Trusted: position rotation ECI -> ECEF of the code's reduction at datetime `dt`."""
    if dt not in _ROT_CACHE:
        from resonaate.physics.transforms.reductions import ReductionParams
        rp = ReductionParams.build(dt)
        if len(_ROT_CACHE) > 4096:
            _ROT_CACHE.clear()
        _ROT_CACHE[dt] = np.asarray(rp.rot_wt) @ np.asarray(rp.rot_rnp)
    return _ROT_CACHE[dt]


def tri(margin: float, band: float) -> int:
    if not math.isfinite(margin):
        return 1 if margin > 0 else (0 if margin < 0 else 2)
    if margin > band:
        return 1
    if margin < -band:
        return 0
    return 2


def and3(*vals) -> int:
    if any(v == 0 for v in vals):
        return 0
    if all(v == 1 for v in vals):
        return 1
    return 2


def ang(a, b) -> float:
    """Angle between two 3-vectors, atan2 form (well conditioned everywhere)."""
    a = np.asarray(a, float)
    b = np.asarray(b, float)
    return math.atan2(float(np.linalg.norm(np.cross(a, b))), float(np.dot(a, b)))


def wrap_pi(x: float) -> float:
    """Wrapped difference in (-pi, pi]."""
    y = math.fmod(x, TWO_PI)
    if y > math.pi:
        y -= TWO_PI
    elif y <= -math.pi:
        y += TWO_PI
    return y


def geodetic(r_ecef, k):
    """Iterative geodetic latitude / longitude / height of an ECEF point."""
    x, y, z = (float(v) for v in r_ecef)
    p = math.hypot(x, y)
    lon = math.atan2(y, x)
    lat = math.atan2(z, p * (1.0 - k["E2"]))
    for _ in range(60):
        n = k["RE"] / math.sqrt(1.0 - k["E2"] * math.sin(lat) ** 2)
        new = math.atan2(z + k["E2"] * n * math.sin(lat), p)
        if abs(new - lat) < 1e-16:
            lat = new
            break
        lat = new
    n = k["RE"] / math.sqrt(1.0 - k["E2"] * math.sin(lat) ** 2)
    if abs(math.cos(lat)) > 1e-3:
        h = p / math.cos(lat) - n
    else:
        h = z / math.sin(lat) - n * (1.0 - k["E2"])
    return lat, lon, h


class Site:
    """Sensor position at one authoritative epoch: rotation, geodetic normal, ENU basis."""

    def __init__(self, sensor_eci, epoch_dt, k=None):
        self.k = k or consts()
        self.s = np.asarray(sensor_eci, float).reshape(6)
        self.R = rot_eci2ecef(epoch_dt)
        self.s_ecef = self.R @ self.s[:3]
        lat, lon, h = geodetic(self.s_ecef, self.k)
        self.lat, self.lon, self.h = lat, lon, h
        sl, cl, so, co = math.sin(lat), math.cos(lat), math.sin(lon), math.cos(lon)
        self.E = np.array([-so, co, 0.0])
        self.N = np.array([-sl * co, -sl * so, cl])
        self.U = np.array([cl * co, cl * so, sl])
        # angle between the geodetic normal and the geocentric radial direction
        self.defl = ang(self.U, self.s_ecef)

    def look(self, target_eci):
        t = np.asarray(target_eci, float).reshape(6)
        d_eci = t[:3] - self.s[:3]
        d = self.R @ d_eci
        e, n, u = float(self.E @ d), float(self.N @ d), float(self.U @ d)
        hor = math.hypot(e, n)
        rng = float(np.linalg.norm(d_eci))
        L = {"t": t, "d_eci": d_eci, "rng": rng,
             "az": math.atan2(e, n) % TWO_PI, "el": math.atan2(u, hor),
             "coshor": hor / rng if rng > 0 else 0.0,
             "sez": np.array([-n, e, u]) / (math.sqrt(e * e + n * n + u * u) or 1.0),
             "rr": float(d_eci @ (t[3:] - self.s[3:])) / rng if rng > 0 else 0.0}
        return L


# ------------------------------------------------------------------ single constraints
def c_min_range(L, minimum):
    if minimum is None:
        return 1
    return tri(L["rng"] - minimum, REL * max(L["rng"], 1.0))


def c_max_range(L, maximum):
    if maximum is None or maximum == math.inf:
        return 1
    return tri(maximum - L["rng"], REL * max(L["rng"], 1.0))


def c_los(site: Site, L):
    S, T = site.s[:3], L["t"][:3]
    d = T - S
    dd = float(d @ d)
    if dd == 0.0:
        return 2
    sstar = -float(S @ d) / dd                   # foot of the perpendicular, 0 = sensor, 1 = target
    if sstar < -REL or sstar > 1.0 + REL:
        return 1
    dist = float(np.linalg.norm(np.cross(S, T))) / math.sqrt(dd)
    v = tri(dist - site.k["RE"], REL * site.k["RE"])
    if v == 1:
        return 1
    if abs(sstar) <= REL or abs(sstar - 1.0) <= REL:
        return 2
    return v


def c_el(L, el_mask):
    """The elevation range is documented as an ORDER-INDEPENDENT pair (SensorConfigBase.elevation_range)."""
    lo, hi = sorted((float(el_mask[0]), float(el_mask[1])))
    return tri(min(L["el"] - lo, hi - L["el"]), REL)


def c_az(L, az_mask):
    """Wrapped mask membership: offset from the mask start (mod 2 pi) within the mask span."""
    if L["coshor"] < SING_COS:
        return 2
    a0, a1 = float(az_mask[0]), float(az_mask[1])
    span = a1 - a0 if a1 >= a0 else a1 - a0 + TWO_PI
    off = (L["az"] - a0) % TWO_PI
    band = REL / L["coshor"]
    if abs(wrap_pi(L["az"] - a0)) <= band or abs(wrap_pi(a1 - L["az"])) <= band:
        return 2
    return 1 if off <= span else 0


def c_fov(fov, Lp, Lt):
    """fov = ("conic", cone) | ("rect", az_angle, el_angle); Lp = commanded pointing, Lt = target."""
    if fov[0] == "conic":
        return tri(fov[1] / 2.0 - ang(Lp["sez"], Lt["sez"]), REL)
    v_el = tri(fov[2] / 2.0 - abs(Lp["el"] - Lt["el"]), REL)
    ch = min(Lp["coshor"], Lt["coshor"])
    if ch < SING_COS:
        v_az = 2
    else:
        v_az = tri(fov[1] / 2.0 - abs(wrap_pi(Lp["az"] - Lt["az"])), REL / ch)
    return and3(v_az, v_el)


def slew_angle(boresight_sez, Lp):
    return ang(boresight_sez, Lp["sez"])


def c_slew(boresight_sez, Lp, slew_rate, dt):
    a = slew_angle(boresight_sez, Lp)
    band = REL + 4e-16 / max(math.sin(a), 2e-8) + 1e-15 * abs(slew_rate * dt)
    return tri(slew_rate * dt - a, band)


def c_radar(L, rad, area):
    """Radar range equation in power form; rad = dict(P, D, eta, f, Pmin)."""
    lam = rad["C"] / rad["f"]
    sigma = 4.0 * math.pi * area ** 2 / lam ** 2
    r_m = L["rng"] * 1000.0
    if r_m == 0.0:
        return 2
    gain = rad["eta"] * (math.pi * rad["D"] / lam) ** 2
    p_rx = rad["P"] * gain ** 2 * lam ** 2 * sigma / ((4.0 * math.pi) ** 3 * r_m ** 4)
    return tri(p_rx / rad["Pmin"] - 1.0, 1e-8)


def c_flux(site: Site, L, sun, area):
    """Target illuminated: not inside the umbra cone (and a positive cross-section)."""
    if area <= 0:
        return 0
    k = site.k
    T = L["t"][:3]
    D = float(np.linalg.norm(sun))
    shat = np.asarray(sun, float) / D
    x = -float(T @ shat)                          # distance behind the Earth along the shadow axis
    rho = float(np.linalg.norm(T + x * shat))
    sin_a = (k["RSUN"] - k["RE"]) / D
    cos_a = math.sqrt(1.0 - sin_a * sin_a)
    x_apex = k["RE"] / sin_a
    x_tan = k["RE"] * sin_a
    inside = (x_apex - x) * sin_a - rho * cos_a    # > 0: inside the umbra cone
    lit_margin = max(-inside, x_tan - x)
    return tri(lit_margin, 1e-5)


def vismag(site: Site, L, sun, area, refl):
    T = L["t"][:3]
    phi = ang(np.asarray(sun, float) - T, site.s[:3] - T)
    F = 2.0 * ((math.pi - phi) * math.cos(phi) + math.sin(phi)) / (3.0 * math.pi ** 2)
    arg = (area * 1e-6) * refl * F / L["rng"] ** 2
    if not arg > 0:
        return math.inf
    return site.k["MSUN"] - 2.5 * math.log10(arg)


def c_vismag(site, L, sun, area, refl, detectable):
    m = vismag(site, L, sun, area, refl)
    if m == math.inf:
        return 0
    return tri(detectable - m, 1e-8 * max(1.0, abs(m)))


_GAL = None


def galactic_dir():
    global _GAL
    if _GAL is None:
        ra = (17.0 + 45.0 / 60.0 + 40.04 / 3600.0) * 15.0 * math.pi / 180.0
        dec = -(29.0 + 0.0 / 60.0 + 28.1 / 3600.0) * math.pi / 180.0
        _GAL = np.array([math.cos(dec) * math.cos(ra), math.cos(dec) * math.sin(ra), math.sin(dec)])
    return _GAL


def c_galactic(L):
    return tri(ang(galactic_dir(), L["d_eci"]) - math.pi / 30.0, 1e-7)


def c_suncone(site, L, sun):
    sun = np.asarray(sun, float)
    parallax = ang(sun - L["t"][:3], sun - site.s[:3])
    return tri(ang(L["d_eci"], sun - site.s[:3]) - math.pi / 12.0, REL + parallax)


def c_limb(site, L):
    k = site.k
    rs = float(np.linalg.norm(site.s[:3]))
    if rs <= k["RE"] + k["ATM"]:
        return 2
    eta = ang(L["d_eci"], -site.s[:3])           # nadir angle of the line of sight
    return tri(eta - math.asin((k["RE"] + k["ATM"]) / rs), REL + site.defl)


def c_dark(site, sun):
    return tri(ang(sun, site.s[:3]) - (math.pi / 2.0 + math.pi / 12.0), REL)


def needed(kind: str, host: str):
    base = ["minR", "maxR", "los", "el", "az"]
    if kind in ("radar", "adv_radar"):
        return base + ["radar"]
    return base + ["flux", "vismag", "galactic"] + (["sunCone", "limb"] if host == "space" else ["dark"])


def constraints(site: Site, P: dict, Lp, Lt, target, sun):
    """All gate constraints of one target (everything but slew).  P = sensor parameters,
    target = dict(area, refl).  Constraints the sensor kind does not have are reported as 1."""
    c = {n: 1 for n in CONSTRAINTS}
    c["fov"] = c_fov(P["fov"], Lp, Lt)
    c["minR"] = c_min_range(Lt, P["min_range"])
    c["maxR"] = c_max_range(Lt, P["max_range"])
    c["los"] = c_los(site, Lt)
    c["el"] = c_el(Lt, P["el_mask"])
    c["az"] = c_az(Lt, P["az_mask"])
    if P["kind"] in ("radar", "adv_radar"):
        c["radar"] = c_radar(Lt, P["radar"], target["area"])
    else:
        c["flux"] = c_flux(site, Lt, sun, target["area"])
        c["vismag"] = c_vismag(site, Lt, sun, target["area"], target["refl"], P["detectable_vismag"])
        c["galactic"] = c_galactic(Lt)
        if P["host"] == "space":
            c["sunCone"] = c_suncone(site, Lt, sun)
            c["limb"] = c_limb(site, Lt)
        else:
            c["dark"] = c_dark(site, sun)
    return c


def sensor_params(sensor, kind: str, host: str, cfg: dict | None = None) -> dict:
    """Parameters of a sensor as inputs of the property.

    The PUBLIC CONFIGURATION (cfg = the "sensor" block the agent was built from) is authoritative for every
    key it states (masks, slew rate, field of view and its shape/extents, range limits, radar and optical
    parameters, background flag), so that an error on the way from the configuration to the Sensor object
    is a disagreement with the oracle; only defaults the configuration leaves open are read off the object.
    """
    from resonaate.sensors.field_of_view import ConicFoV
    cfg = {k: v for k, v in (cfg or {}).items() if v is not None}
    f = sensor.field_of_view
    fov = ("conic", float(f.cone_angle)) if isinstance(f, ConicFoV) else \
        ("rect", float(f.azimuth_angle), float(f.elevation_angle))
    fc = cfg.get("field_of_view")
    if fc:
        shape = str(getattr(fc.get("fov_shape"), "value", fc.get("fov_shape") or "rectangular"))
        if shape == "conic":
            fov = ("conic", math.radians(float(fc.get("cone_angle", 1.0))))
        else:
            fov = ("rect", math.radians(float(fc.get("azimuth_angle", 1.0))),
                   math.radians(float(fc.get("elevation_angle", 1.0))))
    rad = math.radians
    P = {"kind": kind, "host": host, "fov": fov,
         "az_mask": [rad(float(v)) for v in cfg["azimuth_range"]] if "azimuth_range" in cfg
         else [float(v) for v in sensor.az_mask],
         "el_mask": [rad(float(v)) for v in cfg["elevation_range"]] if "elevation_range" in cfg
         else [float(v) for v in sensor.el_mask],
         "min_range": float(cfg["minimum_range"]) if "minimum_range" in cfg
         else (None if sensor.minimum_range is None else float(sensor.minimum_range)),
         "max_range": float(cfg["maximum_range"]) if "maximum_range" in cfg
         else (None if sensor.maximum_range is None else float(sensor.maximum_range)),
         "slew_rate": rad(float(cfg["slew_rate"])) if "slew_rate" in cfg else float(sensor.slew_rate),
         "calc_bg": bool(cfg["background_observations"]) if "background_observations" in cfg
         else bool(sensor.calculate_background)}
    if kind in ("radar", "adv_radar"):
        freq = cfg.get("tx_frequency")
        P["radar"] = {"P": float(cfg.get("tx_power", sensor.tx_power)),
                      "D": float(cfg.get("aperture_diameter", sensor.aperture_diameter)),
                      "eta": float(cfg.get("efficiency", sensor.efficiency)),
                      "f": float(freq) if isinstance(freq, (int, float)) else float(sensor.tx_frequency),
                      "Pmin": float(cfg.get("min_detectable_power", sensor.min_detectable_power)),
                      "C": consts()["C"]}
    else:
        P["detectable_vismag"] = float(cfg.get("detectable_vismag", sensor.detectable_vismag))
    return P
