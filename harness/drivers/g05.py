"""G05 (spec growth) - the output database as a transactional relational store and its query API.

Specification: spec/OutputStore.tla (DataInterface.insertData / bulkSave / deleteData / resetData and the fetch* / jd*Query
functions of data/queries.py; tables epochs, agents, truth_ephemerides, estimate_ephemerides, observations).

1. TLC checks the module on every posed state x every call (QuerySound, QueryComplete, PointIntervalIsEpoch, IdsCoverVisible,
   DroppedIsEmpty, WriteAtomic, WriteExact, QueriesRead, DeleteExact, ResetOnlyNamed) and refutes three named deviations
   (half_open, outer_join, partial_commit) - spec mutants.
2. spec -> impl: TLC prints every (state, call) edge of the edge configuration; a deterministic sample (quick) / all of them
   (thorough) is replayed on a REAL ResonaateDatabase("sqlite://"): the posed rows are installed with plain SQL, the REAL call is
   made through the public API (real Epoch / AgentModel / TruthEphemeris / EstimateEphemeris objects; real fetch* functions;
   real deleteData(jdIntervalQuery(...)); real resetData), and the outcome class, the reply (bag of rows in non-decreasing
   Julian-date order, count, id set) and the tables afterwards (read back with plain SQL) must equal the specification's.
Not replayed: insert / bulk batches that contain an observation row (the Observation constructor needs a measurement object);
observation rows are posed in the states for queries, deletes and resets.
"""
from __future__ import annotations

import json
import random

from .. import tlc
from ..core import Ctx

LEVEL = "model_checking"
JD0 = 2458000.5
REAL = {"epochs": "epochs", "agents": "agents", "truth": "truth_ephemerides", "est": "estimate_ephemerides", "obs": "observations",
        "bogus": "bogus"}
DEVS = [("half_open", {"QueryComplete", "PointIntervalIsEpoch", "DeleteExact"}), ("outer_join", {"QuerySound", "DeleteExact", "QueryComplete", "PointIntervalIsEpoch"}),
        ("partial_commit", {"WriteAtomic"})]


def jd_of(h):
    return JD0 + h * 30.0 / 86400.0


def tick_of(jd):
    h = round((jd - JD0) * 86400.0 / 30.0)
    return h // 2


class Store:
    """One real in-memory database, re-posed for every edge."""

    def __init__(self):
        from resonaate.data.resonaate_database import ResonaateDatabase
        self.db = ResonaateDatabase(db_path="sqlite://")

    def sql(self, text, params=None):
        from sqlalchemy import text as _t
        with self.db.engine.begin() as con:
            r = con.execute(_t(text), params or {})
            return r.fetchall() if r.returns_rows else None

    def live(self):
        names = {r[0] for r in self.sql("SELECT name FROM sqlite_master WHERE type = 'table'")}
        return sorted(k for k, v in REAL.items() if v in names)

    def pose(self, e):
        self.db.resetData(())                       # every table of the data model exists
        for t in ("observations", "truth_ephemerides", "estimate_ephemerides", "epochs", "agents"):
            self.sql(f"DELETE FROM {t}")
        for t in e["ep"]:
            self.sql("INSERT INTO epochs (julian_date, timestampISO) VALUES (:j, :s)", {"j": jd_of(2 * t), "s": f"2017-09-03T00:0{t}:00.000000"})
        for a in e["ag"]:
            self.sql("INSERT INTO agents (unique_id, name) VALUES (:a, :n)", {"a": a, "n": f"agent{a}"})
        for tb, a, t, n in e["rows"]:
            for _ in range(n):
                self.insert_row_sql(tb, a, t)

    def insert_row_sql(self, tb, a, t):
        j = jd_of(2 * t)
        st = "pos_x_km, pos_y_km, pos_z_km, vel_x_km_p_sec, vel_y_km_p_sec, vel_z_km_p_sec"
        if tb == "truth":
            self.sql(f"INSERT INTO truth_ephemerides (julian_date, agent_id, {st}) VALUES (:j, :a, 7000, 0, 0, 0, 7.5, 0)", {"j": j, "a": a})
        elif tb == "est":
            self.sql(f"INSERT INTO estimate_ephemerides (julian_date, agent_id, source, {st}) VALUES (:j, :a, 'Propagation', 7000, 0, 0, 0, 7.5, 0)",
                     {"j": j, "a": a})
        else:
            self.sql(f"INSERT INTO observations (julian_date, sensor_id, target_id, sensor_type, azimuth_rad, elevation_rad, {st}) "
                     "VALUES (:j, 1, :a, 'Optical', 0.5, 0.25, 6378, 0, 0, 0, 0.4, 0)", {"j": j, "a": a})

    def project(self):
        live = self.live()
        ep = sorted(tick_of(r[0]) for r in self.sql("SELECT julian_date FROM epochs")) if "epochs" in live else []
        ag = sorted(r[0] for r in self.sql("SELECT unique_id FROM agents")) if "agents" in live else []
        rows = []
        for tb, col in (("truth", "agent_id"), ("est", "agent_id"), ("obs", "target_id")):
            if tb in live:
                for a, j, n in self.sql(f"SELECT {col}, julian_date, COUNT(*) FROM {REAL[tb]} GROUP BY {col}, julian_date"):
                    rows.append([tb, int(a), tick_of(j), int(n)])
        return live, ep, ag, sorted(rows)

    def objects(self, batch):
        from resonaate.data.agent import AgentModel
        from resonaate.data.ephemeris import EstimateEphemeris, TruthEphemeris
        from resonaate.data.epoch import Epoch
        st = dict(pos_x_km=7000.0, pos_y_km=0.0, pos_z_km=0.0, vel_x_km_p_sec=0.0, vel_y_km_p_sec=7.5, vel_z_km_p_sec=0.0)
        out = []
        for it in batch:
            tb, a, t = it["tb"], it["a"], it["t"]
            if tb == "epochs":
                out.append(Epoch(julian_date=jd_of(2 * t), timestampISO=f"2017-09-03T00:0{t}:00.000000"))
            elif tb == "agents":
                out.append(AgentModel(unique_id=a, name=f"agent{a}"))
            elif tb == "truth":
                out.append(TruthEphemeris(julian_date=jd_of(2 * t), agent_id=a, **st))
            else:
                out.append(EstimateEphemeris(julian_date=jd_of(2 * t), agent_id=a, source="Propagation", **st))
        return out

    def call(self, c):
        """-> (res, reply dict)"""
        from sqlalchemy.exc import OperationalError, SQLAlchemyError

        from resonaate.data import queries as Q
        from resonaate.data.ephemeris import EstimateEphemeris, TruthEphemeris
        from resonaate.data.observation import Observation
        from resonaate.physics.time.stardate import JulianDate
        model = {"truth": (TruthEphemeris, "agent_id", Q.fetchTruthByJDInterval, Q.fetchTruthByJDEpoch),
                 "est": (EstimateEphemeris, "agent_id", Q.fetchEstimatesByJDInterval, Q.fetchEstimatesByJDEpoch),
                 "obs": (Observation, "target_id", Q.fetchObservationsByJDInterval, Q.fetchObservationsByJDEpoch)}

        def bound(h):
            return None if h == -99 else JulianDate(jd_of(h))

        def bag(rows, col):
            jds = [float(r.julian_date) for r in rows]
            out = {}
            for r in rows:
                k = (int(getattr(r, col)), tick_of(float(r.julian_date)))
                out[k] = out.get(k, 0) + 1
            return sorted([a, t, n] for (a, t), n in out.items()), all(x <= y for x, y in zip(jds, jds[1:]))
        op = c["op"]
        try:
            if op in ("insert", "bulk"):
                objs = self.objects(c["batch"])
                if op == "insert":
                    self.db.insertData(*objs)
                else:
                    self.db.bulkSave(objs)
                return "ok", {}
            if op == "delete":
                tbl, col, _, _ = model[c["tb"]]
                n = self.db.deleteData(Q.jdIntervalQuery(tbl, col, list(c["ids"]), bound(c["lb"]), bound(c["ub"])))
                return "ok", {"n": int(n)}
            if op == "interval":
                _, col, f_int, _ = model[c["tb"]]
                b, ordered = bag(f_int(self.db, list(c["ids"]), bound(c["lb"]), bound(c["ub"])), col)
                return "ok", {"bag": b, "ordered": ordered}
            if op == "epoch":
                _, col, _, f_ep = model[c["tb"]]
                b, _o = bag(f_ep(self.db, list(c["ids"]), JulianDate(jd_of(c["h"]))), col)
                return "ok", {"bag": b, "ordered": True}
            if op == "ids":
                got = Q.fetchAgentIDs(self.db) if c["which"] == "agents" else Q.fetchEstimateIDs(self.db)
                return "ok", {"set": sorted(got), "nodup": len(got) == len(set(got))}
            if op == "reset":
                self.db.resetData(tuple(REAL[x] for x in c["names"]))
                return "ok", {}
        except ValueError:
            return "ValueError", {}
        except OperationalError:
            return "notable", {}
        except SQLAlchemyError:
            return "error", {}
        raise tlc.MachineryError(f"unknown call {c}")


def replay_edges(edges):
    """Runs in a worker process: -> list of (index, signature, what) for the edges that disagree."""
    import logging

    from harness import sched
    sched.install()
    logging.disable(logging.ERROR)         # resetData logs a warning per dropped table, the queries an error per refused interval
    store = Store()
    bad = []
    for idx, e in edges:
        c = e["call"]
        store.pose(e)
        got_res, rep = store.call(c)
        live2, ep2, ag2, rows2 = store.project()
        exp_rows2 = sorted([r[0], r[1], r[2], r[3]] for r in e["rows2"])
        what = None
        if got_res != c["res"]:
            what = ("outcome", f"outcome {got_res!r}, specification {c['res']!r}")
        elif sorted(live2) != sorted(e["live2"]):
            what = ("schema-after", f"tables afterwards {live2}, specification {sorted(e['live2'])}")
        elif ep2 != sorted(e["ep2"]) or ag2 != sorted(e["ag2"]) or rows2 != exp_rows2:
            what = ("rows-after", f"rows afterwards ep={ep2} ag={ag2} rows={rows2}, specification ep={sorted(e['ep2'])} ag={sorted(e['ag2'])} rows={exp_rows2}")
        elif c["res"] == "ok" and c["op"] in ("interval", "epoch"):
            if rep["bag"] != sorted([r[0], r[1], r[2]] for r in c["bag"]):
                what = ("query-rows", f"returned rows {rep['bag']}, specification {sorted(c['bag'])}")
            elif not rep["ordered"]:
                what = ("query-order", "rows not in non-decreasing Julian-date order")
        elif c["res"] == "ok" and c["op"] == "delete" and rep["n"] != c["n"]:
            what = ("delete-count", f"reported {rep['n']} deleted rows, specification {c['n']}")
        elif c["res"] == "ok" and c["op"] == "ids" and (rep["set"] != sorted(c["set"]) or not rep["nodup"]):
            what = ("ids", f"returned {rep['set']} (duplicate-free: {rep['nodup']}), specification {sorted(c['set'])}")
        if what:
            bad.append((idx, f"{c['op']}:{what[0]}", what[1]))
    return bad


def _cfg(name, dev=None):
    text = (tlc.SPEC_DIR / f"MCOutputStore_{name}.cfg").read_text()
    if dev:
        assert text.count('Dev = "none"') == 1
        text = text.replace('Dev = "none"', f'Dev = "{dev}"')
    return text


def run(ctx: Ctx):
    from concurrent.futures import ProcessPoolExecutor, ThreadPoolExecutor
    ctx.rule = ("edge case = (posed database state, call with arguments) of the edge configuration, replayed on a real in-memory "
                "ResonaateDatabase; non-trivial unless the state is empty and the call is a query; distinct by (state, call)")
    ctx.assumptions = ["instants are half ticks of 30 s from JD 2458000.5; a row sits on an even half tick",
                       "insert / bulk batches containing an observation row are not replayed (Observation needs a measurement object)",
                       "the order of rows with EQUAL Julian date in a query result is not part of the specification"]
    pool = ThreadPoolExecutor(4)
    f_mc = pool.submit(tlc.run_tlc, "MCOutputStore", _cfg("quick"), ctx.sub("mc"), workers=4, timeout=1500)
    f_edges = pool.submit(tlc.run_tlc, "MCOutputStore", _cfg("edges"), ctx.sub("edges"), workers=4, timeout=1500)
    f_dev = {d: pool.submit(tlc.run_tlc, "MCOutputStore", _cfg("dev", d), ctx.sub("dev_" + d), workers=2, timeout=900) for d, _ in DEVS}
    res = f_edges.result()
    tlc.require_ok(res, "OutputStore edge configuration")
    ctx.add_tlc(res, "OutputStore.tla: posed states x calls, edges emitted")
    edges = [json.loads(t[0]) for t in res.tuples("EDGE")]
    if len(edges) < 1000:
        raise tlc.MachineryError(f"only {len(edges)} edges emitted")
    edges.sort(key=lambda e: json.dumps(e, sort_keys=True))
    replayable = [e for e in edges if not (e["call"]["op"] in ("insert", "bulk") and any(it["tb"] == "obs" for it in e["call"]["batch"]))]
    rng = random.Random(ctx.seed + 5)
    if ctx.quick:
        by_op: dict = {}
        for e in replayable:
            by_op.setdefault((e["call"]["op"], e["call"]["res"]), []).append(e)
        sample = []
        for k in sorted(by_op):
            es = by_op[k]
            sample += es if len(es) <= 600 else rng.sample(es, 600)
    else:
        sample = replayable
    indexed = list(enumerate(sample))
    chunks = [indexed[i::8] for i in range(8)]
    with ProcessPoolExecutor(max_workers=min(8, ctx.cpus)) as ex:
        outs = list(ex.map(replay_edges, chunks))
    by_sig: dict = {}
    for out in outs:
        for idx, sig, what in out:
            by_sig.setdefault(sig, []).append((idx, what))
    for e in sample:
        c = e["call"]
        ctx.case((json.dumps([e["ep"], e["ag"], e["rows"]]), json.dumps(c, sort_keys=True)),
                 nontrivial=bool(e["rows"] or e["ep"] or e["ag"]) or c["op"] in ("insert", "bulk", "reset"))
    for sig, lst in sorted(by_sig.items()):
        idx, what = lst[0]
        ctx.violation(f"store:{sig}", f"{sig}: {what} [{len(lst)} edges]; state/call: {json.dumps(sample[idx])[:400]}", {"edge": sample[idx]})
    ctx.traces_validated += len(sample)
    ctx.extra["edges_emitted"] = len(edges)
    ctx.extra["edges_replayed"] = len(sample)
    ctx.extra["edges_by_op"] = {f"{k[0]}/{k[1]}": sum(1 for e in sample if (e["call"]["op"], e["call"]["res"]) == k)
                                for k in sorted({(e["call"]["op"], e["call"]["res"]) for e in sample})}
    mc = f_mc.result()
    tlc.require_ok(mc, "OutputStore theorems (posed states x calls)")
    ctx.add_tlc(mc, "OutputStore.tla: all properties on posed states x every call")
    killed = {}
    for d, want in DEVS:
        r = f_dev[d].result()
        names = {n for n, _ in r.invariant_violations} | {n for n, _ in r.property_violations}
        hit = any(w in n for n in names for w in want)
        killed[d] = sorted(names)
        if not hit:
            raise tlc.MachineryError(f"deviation {d} not refuted (violations: {sorted(names)}, errors: {r.errors[:2]})")
    ctx.extra["spec_mutants_killed"] = killed
    pool.shutdown()
