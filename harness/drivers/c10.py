"""C10 - truth trajectories depend only on dynamics and initial states.

1. Spec level: NonInterference (only scenario-step events, propagation-event queueing, ticToc
   and propagation merges may change a truth variable) is an action property of Resonaate.tla,
   checked by TLC for every schedule / policy / visibility pattern / output cadence / fault in
   the exhaustive configurations (and in every validated trace of C01/C08/C09).
2. impl -> spec: FAMILIES of real scenarios that share dynamics settings, initial states and
   truth-affecting events but differ in estimation on/off, decision policy, reward, sensor
   noise and masks, filter noise, output cadence, run split, job completion schedule,
   real-vs-table-driven sensing, and in the presence of OTHER agents (configured or
   added/removed by events).  Each run logs the SHA-256 digest of every agent's float64
   truth state per epoch; TLC validates the concatenated records of a family against
   TruthPairs.tla (a value, once defined for (agent, epoch), must be repeated bit for bit).
"""
from __future__ import annotations

import copy
import hashlib
import json
import random
from concurrent.futures import ProcessPoolExecutor

from .. import tlc
from ..core import Ctx

LEVEL = "model_checking"


def _digest(arr):
    import numpy as np
    h = hashlib.sha256(np.ascontiguousarray(np.asarray(arr, dtype=np.float64)).tobytes()).hexdigest()
    return int(h[:7], 16), int(h[7:14], 16)


def _variant_cfg(fam, var):
    """Config dict of one variant of a family (only NON-truth settings may differ)."""
    from harness import scenario_util as su
    cfg = su.base_config(start=fam["start"], step=fam["step"], n_steps=fam["nsteps"], n_targets=fam["nt"], n_sensors=fam["ns"],
                         decision=var.get("decision", "MunkresDecision"), model=fam["model"],
                         seed=var.get("noise_seed", 1), out_step=fam["step"] * var.get("out_mult", 1))
    cfg["propagation"]["integration_method"] = fam.get("integrator", "RK45")
    cfg["propagation"]["truth_simulation_only"] = var.get("truth_only", False)
    eng = cfg["engines"][0]
    if fam.get("hetero"):
        # physically different spacecraft (same mass and area, different reflectivity) under solar radiation pressure:
        # each agent's truth must depend on ITS parameters only, whichever other agents exist and in whichever order
        cfg.setdefault("perturbations", {})["solar_radiation_pressure"] = True
        cfg["perturbations"]["third_bodies"] = ["sun", "moon"]
        geo = [su.target_cfg(41001 + i, sma_km=42164.0 + 50 * i, inc_deg=0.5 + i, ta_deg=10.0 + 40 * i, ecc=0.0005) for i in range(3)]
        for i, t in enumerate(geo):
            t["platform"] = {"type": "spacecraft", "mass": 500.0, "visual_cross_section": 20.0,
                             "reflectivity": [0.21, 0.9, 0.55][i]}
        eng["targets"] = geo[:fam["nt"]]
        if var.get("reverse_targets"):
            eng["targets"] = list(reversed(eng["targets"]))
    if fam.get("station_keeping"):
        # a target that keeps station (the routine fires within a few minutes under J2): station keeping belongs to the
        # truth, so it must act identically with and without estimation / tasking
        cfg["propagation"]["station_keeping"] = True
        cfg.setdefault("perturbations", {})["third_bodies"] = []
        eng["targets"][0] = {"id": 40001, "name": "CIRCULAR-LEO",
                             "platform": {"type": "spacecraft", "station_keeping": {"routines": ["LEO"]}},
                             "state": {"type": "coe", "semi_major_axis": 6878.0, "eccentricity": 0.0, "inclination": 45.0,
                                       "right_ascension": 0.0, "argument_latitude": 0.0}}
    if var.get("drop_target") is not None and len(eng["targets"]) > 1:
        del eng["targets"][var["drop_target"]]
    if var.get("extra_target"):
        eng["targets"].append(su.target_cfg(50001 + var["extra_target"], sma_km=7000.0 + 300 * var["extra_target"],
                                            inc_deg=20.0 * var["extra_target"], ta_deg=45.0))
    if var.get("reused_id"):
        # an agent with the id of the target ADDED later (another orbit) exists from the start and is removed before
        from harness.drivers import c01 as _c01
        eng["targets"].append(su.target_cfg(_c01.NEW_TARGET_ID, sma_km=8000.0, inc_deg=10.0, ta_deg=200.0))
    if var.get("space_sensors"):
        import json as _json
        import os as _os
        sat = _json.load(open(_os.path.join(su.CFG_DIR, "sensor_sets", "sat_sensors.json")))
        eng["sensors"] = eng["sensors"] + sat[:var["space_sensors"]]          # other (space-based) agents join
    if var.get("filter_model_differs"):
        # the FILTER's dynamics model is an estimation setting: it must not influence any truth trajectory
        other = "special_perturbations" if fam["model"] == "two_body" else "two_body"
        cfg["estimation"]["sequential_filter"]["dynamics_model"] = other
    if var.get("adaptive"):
        sf = cfg["estimation"]["sequential_filter"]
        sf["maneuver_detection"] = {"name": "standard_nis", "threshold": 0.5, "parameters": {}}
        sf["adaptive_estimation"] = True
        sf["save_filter_steps"] = True
        cfg["estimation"]["adaptive_filter"] = {"name": var["adaptive"], "orbit_determination": "lambert_universal",
                                                "model_interval": 60, "stacking_method": "eci_stack", "observation_window": 1,
                                                "prune_threshold": 1e-10, "prune_percentage": 0.995}
    if var.get("drop_sensor") is not None and len(eng["sensors"]) > 1:
        del eng["sensors"][var["drop_sensor"]]
    if var.get("sensor_noise"):
        for s in eng["sensors"]:
            s["sensor"]["covariance"] = [[x * var["sensor_noise"] for x in row] for row in s["sensor"]["covariance"]]
    if var.get("elev_mask"):
        for s in eng["sensors"]:
            s["sensor"]["elevation_range"] = [var["elev_mask"], 89.0]
    if var.get("reward"):
        eng["reward"] = copy.deepcopy(var["reward"])
    if var.get("filter_noise"):
        cfg["noise"]["filter_noise_magnitude"] = var["filter_noise"]
    if var.get("init_std"):
        cfg["noise"]["init_position_std_km"] = var["init_std"]
    # truth-affecting events are part of the FAMILY
    from harness.drivers import c01
    events = list(fam.get("events", []))
    # other-agent events are part of the VARIANT (they must not touch the remaining agents)
    events += var.get("events", [])
    return cfg, events


def _run_variant(task):
    """One variant in a process of its own (forked from a parent that never ran a scenario): process-wide state left
    behind by an earlier run - caches, registries - can neither leak into the next variant nor mask a difference."""
    fam, vi = task
    r = _run_family(dict(fam, variants=[fam["variants"][vi]]), first_index=vi)
    return r["records"], r["crashes"]


def _run_family(fam, first_index=0):
    import random as _r

    import numpy as np
    from harness import scenario_util as su
    from harness import sysrun, tracer
    from harness.drivers import c01
    recs = []
    crashes = []
    meta_out = []
    for vi, var in enumerate(fam["variants"], start=first_index):
        cfg, evs = _variant_cfg(fam, var)
        if evs:
            case = {"start": fam["start"], "step": fam["step"], "nsteps": fam["nsteps"], "events": evs, "seed": 1}
            ecfg, _meta = c01.build_case(case)
            # build_case builds its own 2x2 config; only take the event dicts, re-targeted to this family's ids
            cfg["events"] = _retarget_events(ecfg["events"], cfg, len(fam.get("events", [])))
        env = None
        if var.get("table_env"):
            tracer.install_table_env()
            env = tracer.TableEnv(_r.Random(var.get("env_seed", 0)), serendipity=True)
        np.random.seed(var.get("np_seed", 0))
        sch = sysrun.Schedule(var.get("schedule", "fifo"), rng=_r.Random(var.get("sched_seed", 0)))
        app = su.build(cfg)
        from harness import sched
        sched.set_chooser(sch)
        rec = tracer.start(app, env)
        try:
            orig = app.stepForward
            kk = [0]

            def step():
                orig()
                kk[0] += 1
                for aid, ag in list(app.target_agents.items()) + list(app.sensor_agents.items()):
                    d1, d2 = _digest(ag.eci_state)
                    recs.append({"v": vi, "a": int(aid), "k": kk[0], "d1": d1, "d2": d2})

            app.stepForward = step
            for aid, ag in list(app.target_agents.items()) + list(app.sensor_agents.items()):
                d1, d2 = _digest(ag.eci_state)
                recs.append({"v": vi, "a": int(aid), "k": 0, "d1": d1, "d2": d2})
            try:
                for c in var.get("split", [fam["nsteps"]]):
                    su.run_for(app, c * fam["step"])
            except tlc.MachineryError:
                raise
            except Exception as ex:  # noqa: BLE001 - the real run died: the remaining agents get no truth at all
                crashes.append({"v": vi, "at_step": kk[0] + 1, "error": f"{type(ex).__name__}: {ex}"[:300]})
        finally:
            tracer.stop()
            sched.set_chooser(None)
        meta_out.append({"variant": var, "agents": len(app.target_agents) + len(app.sensor_agents)})
    return {"family": {k: v for k, v in fam.items() if k != "variants"}, "variants": [m["variant"] for m in meta_out], "records": recs,
            "crashes": crashes}


def _retarget_events(events, cfg, n_family):
    """Point events built for the 2x2 template at this config's engine / agent ids: the family's maneuvers go to the
    first target, a VARIANT's maneuvers to the last one (an agent that exists in that variant only)."""
    eng = cfg["engines"][0]
    out = []
    for i, e in enumerate(events):
        e = copy.deepcopy(e)
        if i >= n_family and e["event_type"] in ("impulse", "finite_burn", "finite_maneuver"):
            e["scope_instance_id"] = eng["targets"][-1]["id"]
            out.append(e)
            continue
        if "tasking_engine_id" in e:
            e["tasking_engine_id"] = eng["unique_id"]
        if e["event_type"] == "agent_removal":
            e["agent_id"] = (eng["targets"] if e["agent_type"] == "target" else eng["sensors"])[-1]["id"]
        if e["event_type"] in ("impulse", "finite_burn", "finite_maneuver"):
            e["scope_instance_id"] = eng["targets"][0]["id"]
        out.append(e)
    return out


REWARD_ALT = {"name": "CostConstrainedReward",
              "metrics": [{"name": "ShannonInformation", "parameters": {}}, {"name": "SlewTimeMinimization", "parameters": {}},
                          {"name": "LyapunovStability", "parameters": {}}],
              "parameters": {"delta": 0.85}}


def make_families(ctx: Ctx, rng):
    fams = []
    base_variants = [
        {},                                                     # reference
        {"truth_only": True},
        {"decision": "MyopicNaiveGreedyDecision", "schedule": "lifo"},
        {"decision": "RandomDecision", "schedule": "random", "sched_seed": 3, "noise_seed": 7},
        {"decision": "AllVisibleDecision", "sensor_noise": 4.0, "np_seed": 5},
        {"out_mult": 2, "split": None},                         # split filled below
        {"elev_mask": 20.0, "filter_noise": 3e-12, "init_std": 0.01},
        {"table_env": True, "env_seed": 11, "schedule": "random", "sched_seed": 9},
        {"reward": REWARD_ALT},
        {"extra_target": 1},
        {"split_at": 2},
        {"space_sensors": 2, "table_env": True, "env_seed": 4},
        {"space_sensors": 2, "filter_model_differs": True, "table_env": True, "env_seed": 5},
        # the same space-based sensors in truth-only runs whose output step is a multiple of the physics step: a sensor on
        # a spacecraft has a truth trajectory too, at EVERY physics step (seed C10/14: propagated lazily, per output step)
        {"space_sensors": 2, "truth_only": True, "out_mult": 2},
        {"space_sensors": 2, "truth_only": True, "out_mult": 3, "schedule": "lifo"},
        {"filter_model_differs": True, "events": [{"kind": "addTarget", "t0": None}], "table_env": True, "env_seed": 8},
        {"adaptive": "smm", "table_env": True, "env_seed": 6, "schedule": "lifo"},                                        # the run is split exactly at the family's impulse epoch
        {"drop_sensor": 0, "schedule": "random", "sched_seed": 2},
        {"events": [{"kind": "removeSensor", "t0": None, "index": -1}]},   # another agent leaves mid-run
        {"events": [{"kind": "addTarget", "t0": None}], "decision": "MyopicNaiveGreedyDecision"},
        # ANOTHER agent (present in this variant only) maneuvers, unplanned, in the very step of the family's maneuver and
        # earlier in it; and: another agent is removed while a maneuver of it is still scheduled
        {"extra_target": 3, "events": [{"kind": "impulse", "t0": "step+2", "planned": False},
                                       {"kind": "burn", "t0": "step+2", "t1": "3step", "planned": False}], "truth_only": True},
        {"extra_target": 2, "events": [{"kind": "removeTarget", "t0": "step", "index": -1},
                                       {"kind": "impulse", "t0": "2step-1", "planned": False},      # right before the family's
                                       {"kind": "impulse", "t0": "2step+1", "planned": False}]},
        # the id of the target that joins was used before by another agent, removed one second before the join epoch
        {"reused_id": True, "events": [{"kind": "removeTarget", "t0": "before", "index": -1}, {"kind": "addTarget", "t0": None}]},
    ]
    specs = [("two_body", "RK45", 60, "2018-12-01T12:00:00"), ("special_perturbations", "RK45", 60, "2018-12-01T12:00:07"),
             ("two_body", "DOP853", 300, "2019-12-31T23:58:00")]
    if not ctx.quick:
        specs += [("special_perturbations", "DOP853", 300, "2020-02-29T06:00:13"), ("two_body", "RK45", 7, "2021-06-15T03:17:41"),
                  ("special_perturbations", "RK45", 120, "2018-03-11T06:30:29")]
    # heterogeneous spacecraft under solar radiation pressure: other agents present / absent / reordered
    hv = [{}, {"drop_target": 0, "truth_only": True}, {"reverse_targets": True}, {"drop_target": 1},
          {"reverse_targets": True, "drop_target": 0, "decision": "MyopicNaiveGreedyDecision"}]
    fams.append({"model": "special_perturbations", "integrator": "RK45", "step": 300, "start": "2018-12-01T12:00:00",
                 "nsteps": 3 if ctx.quick else 6, "nt": 3, "ns": 2, "events": [], "hetero": True, "variants": hv})
    fams.append({"model": "special_perturbations", "integrator": "RK45", "step": 300, "start": "2021-03-30T16:00:00",
                 "nsteps": 6 if ctx.quick else 10, "nt": 2, "ns": 2, "events": [], "station_keeping": True,
                 "variants": [{}, {"truth_only": True}, {"decision": "MyopicNaiveGreedyDecision", "schedule": "lifo"},
                              {"out_mult": 2, "split": [2, 4 if ctx.quick else 8]}, {"table_env": True, "env_seed": 3}]})
    for fi, (model, integ, step, start) in enumerate(specs):
        n = 4 if ctx.quick else 6
        for with_impulse in ((False, True) if fi % 2 == 0 or not ctx.quick else (False,)):
            fam_event_t0 = [step, 2 * step, step + 1][fi % 3]
            fam = {"model": model, "integrator": integ, "step": step, "start": start, "nsteps": n, "nt": 2, "ns": 3,
                   # two maneuvers of the family's target in ONE step (step+1 and the step's end); a variant's other agent
                   # maneuvers in between (step+2)
                   "events": ([{"kind": "impulse", "t0": step + 1, "planned": False, "dv_scale": 2.0},
                               {"kind": "impulse", "t0": 2 * step, "planned": False}] if with_impulse else []), "variants": []}
            for var in base_variants:
                var = copy.deepcopy(var)
                if "split" in var and var["split"] is None:
                    var["split"] = [1, n - 2, 1]
                if "split_at" in var:
                    var["split"] = [var.pop("split_at"), n - 2]
                for e in var.get("events", []):
                    for key in ("t0", "t1"):
                        if isinstance(e.get(key), str) and e[key] != "before":
                            e[key] = {"step": step, "step+1": step + 1, "step+2": step + 2, "2step-1": 2 * step - 1, "2step+1": 2 * step + 1,
                                      "3step": 3 * step}[e[key]]
                    if e.get("t0") == "before":
                        e["t0"] = fam_event_t0 - 1
                    if e.get("t0") is None:
                        # the epoch at which ANOTHER agent joins / leaves is the same in every variant of the family:
                        # the joining agent's own trajectory is defined from that epoch on
                        e["t0"] = fam_event_t0
                fam["variants"].append(var)
            if not ctx.quick:
                fam["variants"].append({"drop_target": 1, "truth_only": True})
                fam["variants"].append({"split": [2, n - 2], "decision": "RandomDecision", "noise_seed": 99})
            fams.append(fam)
    return fams


def spec_level(ctx: Ctx):
    names = ["greedy22", "truthonly", "ev_imp3", "ev_addremove", "faults"]
    for name in names:
        res = tlc.require_ok(tlc.run_tlc("MCResonaate", f"MCResonaate_{name}.cfg", ctx.sub("mc_" + name), workers=ctx.cpus, timeout=3000))
        ctx.add_tlc(res, f"Resonaate.tla exhaustive incl. PROPERTY NonInterference, config {name}")
        viol = [v[0] for v in res.invariant_violations] + [v[0] for v in res.property_violations]
        if viol:
            raise tlc.MachineryError(f"as-designed model {name} violates {viol}")
    # spec mutant: a tasking action that touches a truth variable must violate NonInterference
    res = tlc.run_tlc("MCResonaate", "MCResonaate_coded_interference.cfg", ctx.sub("mc_interf"), workers=4, timeout=600)
    tlc.require_ok(res, "interference mutant")
    ctx.add_tlc(res, "Resonaate.tla spec mutant: update job writes a truth variable")
    if not res.property_violations:
        raise tlc.MachineryError("spec mutant 'interference' not killed by NonInterference")
    ctx.extra["spec_mutants_killed"] = 1


def run(ctx: Ctx):
    rng = random.Random(ctx.seed + 1010)
    ctx.rule = ("one case = one variant run of a family (same dynamics settings, initial states, truth-affecting events); "
                "non-trivial = any variant other than the family's reference; distinct by (family, variant description)")
    ctx.assumptions = ["digest = first 56 bits of SHA-256 over the float64 bytes of eci_state",
                       "bit-for-bit comparison is meaningful because all variants execute the same float operations for the truth "
                       "(same dynamics object settings, same integrator)",
                       "every variant runs in a process of its own, forked from a parent that has imported the package but never "
                       "run a scenario (process-wide caches cannot carry values from one variant to the next)"]
    fams = make_families(ctx, rng)
    from concurrent.futures import ThreadPoolExecutor
    with ThreadPoolExecutor(1) as bg:
        fut = bg.submit(spec_level, ctx)
        import multiprocessing as mp

        from .. import scenario_util  # noqa: F401 - imported BEFORE forking: children start with pristine, loaded modules
        tasks = [(fam, vi) for fam in fams for vi in range(len(fam["variants"]))]
        with mp.get_context("fork").Pool(processes=min(ctx.cpus, 10), maxtasksperchild=1) as pool:
            recs = pool.map(_run_variant, tasks, chunksize=1)
        fut.result()
    results = []
    it = iter(recs)
    for fam in fams:
        parts = [next(it) for _ in fam["variants"]]
        merged = [x for p in parts for x in p[0]]
        results.append({"family": {k: v for k, v in fam.items() if k != "variants"}, "variants": fam["variants"], "records": merged,
                        "crashes": [c for p in parts for c in p[1]]})
    traces = [r["records"] for r in results]
    d = ctx.sub("truthpairs")
    (d / "traces.json").write_text(json.dumps(traces))
    res = tlc.require_ok(tlc.run_tlc("TruthPairs", "TruthPairs.cfg", d, workers=min(ctx.cpus, len(traces)), cont=True,
                                     env={"TRACE_FILE": "traces.json"}, timeout=1800))
    ctx.add_tlc(res, f"TruthPairs.tla: {len(traces)} families, {sum(len(t) for t in traces)} digest records")
    if res.property_violations:
        raise tlc.MachineryError("TruthPairs.OnlyExtended violated by the trace spec itself")
    reached = {}
    for t_id, pos, end in res.tuples("AT"):
        reached[t_id] = max(reached.get(t_id, 0), pos)
    for i, r in enumerate(results):
        fam = r["family"]
        for vi, var in enumerate(r["variants"]):
            ctx.case((json.dumps(fam, sort_keys=True), json.dumps(var, sort_keys=True)), nontrivial=vi > 0,
                     sample={"family": fam, "variant": var} if len(ctx.samples) < 4 and vi in (1, 5) else None)
        ctx.traces_validated += len(r["variants"])
        for c in r.get("crashes", []):
            var = r["variants"][c["v"]]
            kind = "+".join(sorted(k for k in var if k not in ("sched_seed", "np_seed", "noise_seed", "env_seed"))) or "reference"
            sig = f"truth-run-dies:{fam['model']}:{kind}:{c['error'].split(':')[0]}"
            ctx.violation(sig, f"{sig}: variant {json.dumps(var)} of family {json.dumps(fam)} raised {c['error']} in step {c['at_step']}: "
                               "the other agents of the scenario get no truth from that step on", {"family": dict(fam, variants=[r["variants"][0], var])})
        pos = reached.get(i + 1, 1)
        if pos != len(traces[i]) + 1:
            bad = traces[i][pos - 1]
            var = r["variants"][bad["v"]]
            first = next(x for x in traces[i] if x["a"] == bad["a"] and x["k"] == bad["k"])
            kind = "+".join(sorted(k for k in var if k not in ("sched_seed", "np_seed", "noise_seed", "env_seed"))) or "reference"
            sig = f"truth-differs:{fam['model']}:{kind}"
            ctx.violation(sig, f"{sig}: agent {bad['a']} epoch {bad['k']} differs between variant {first['v']} "
                               f"({json.dumps(r['variants'][first['v']])}) and variant {bad['v']} ({json.dumps(var)}) of family {json.dumps(fam)}",
                          {"family": dict(fam, variants=[r["variants"][first["v"]], var])})
    ctx.extra["families"] = len(fams)


def replay(ctx: Ctx, rp: dict):
    fam = rp["replay"]["family"]
    r = _run_family(fam)
    d = ctx.sub("truthpairs")
    (d / "traces.json").write_text(json.dumps([r["records"]]))
    res = tlc.require_ok(tlc.run_tlc("TruthPairs", "TruthPairs.cfg", d, workers=1, cont=True, env={"TRACE_FILE": "traces.json"}))
    ctx.add_tlc(res, "replay")
    pos = max([t[1] for t in res.tuples("AT")] or [1])
    ctx.case(("replay", json.dumps(fam, sort_keys=True)))
    ctx.case(("replay-done",))
    if pos != len(r["records"]) + 1:
        ctx.violation("truth-differs:replay", "truth digests differ between the two variants", {"family": fam})
