"""C05 - calendar, Julian date and scenario time agree; requested durations are honoured.

1. TLC walks Calendar.tla day by day over 1901-2099 (every reachable day checked against the
   module's invariants: month lengths, leap rule, closed-form day number, RoundTrip, ...) and
   prints the per-day table; a second configuration ticks seconds across boundary instants
   (minute, hour, noon, day, month, leap day, year) under the action property Monotone.
2. spec -> impl (calendar): the driver crosses the TLC table with seconds of the day and
   replays every instant into the REAL resonaate.physics.time functions
   (JulianDate.getJulianDate, datetimeToJulianDate, julianDateToDatetime,
   JulianDate.calendar_date/getCalendarDate, days2mdh, conversions.dayOfYear,
   ScenarioTime.convertToJulianDate, JulianDate.convertToScenarioTime): the Julian date must
   be the spec's day number + fraction (1e-9 d), the inverse must be exactly the same
   whole-second instant, later instants must have strictly larger Julian dates, scenario-second
   offsets must round trip (1e-4 s).  Every TLC second tick is replayed as a transition.
3. TLC enumerates the lattice of Durations.tla (start second x step x 1-3 requested durations:
   whole seconds, requests of 12 h .. 4 d, and - DurationsFrac.tla - requests on a sub-second lattice
   just below / on / above multiples of the step) and prints expected step counts / epochs; the driver runs REAL scenarios for a stratified
   sample of them (public Scenario.propagateTo, called with a target computed by datetime
   arithmetic ("api") and the way the command line does, through
   conversions.getTargetJulianDate ("cli")), start instants with every second of the minute placed
   around the day / month / leap-day / year ends that Calendar.tla's second ticks cross.
4. impl -> spec (durations): the recorded traces (stepForward calls, clock.datetime_epoch per
   step, truth/epoch rows of the database) are validated by TLC against TraceDurations.tla.
"""
from __future__ import annotations

import json
import multiprocessing as mp
import random
from concurrent.futures import ThreadPoolExecutor
from datetime import datetime, timedelta

from .. import tlc
from ..core import Ctx
from . import _calendar as cal

LEVEL = "model_checking"
EOP_FIRST, EOP_LAST = (2014, 1, 2), (2022, 9, 25)     # Earth-orientation table of the simulator
MAX_EX = 3

# ======================================================================================
# worker side (forked processes): replay of instants, real scenario runs
# ======================================================================================
_W: dict = {}


def _init_worker(dn_pairs=()):
    from .. import scenario_util  # noqa: F401  (installs the scheduler stand-in)
    from resonaate.physics.time import conversions as conv
    from resonaate.physics.time import stardate as sd
    _W.update(sd=sd, conv=conv, dn=dict(dn_pairs))


def _note(acc, sig, inst, **more):
    """Count one failure; keep the first few as examples (inst = (y, m, d, sod) or a dict)."""
    e = acc.get(sig)
    if e is None:
        e = acc[sig] = [0, []]
    e[0] += 1
    if len(e[1]) < MAX_EX:
        ex = dict(zip(("y", "m", "d", "sod"), inst)) if isinstance(inst, tuple) else dict(inst)
        ex.update(more)
        e[1].append(ex)


def _instant(acc, y, m, d, dn, doy, sod, extras, ref, inverse=True):
    """Replay one instant of the spec into the real conversion functions; returns its JD.

    An exception raised by a conversion function on a valid instant is a failure of that
    function (signature <function>-raised-<type>), not of the driver."""
    sd, conv, dnmap = _W["sd"], _W["conv"], _W["dn"]
    h, r = divmod(sod, 3600)
    mi, s = divmod(r, 60)
    frac = sod / 86400.0
    base = dn + cal.JD_OF_DN0
    inst = (y, m, d, sod)
    try:
        jd = sd.JulianDate.getJulianDate(y, m, d, h, mi, s)
        jdf = float(jd)
    except Exception as ex:  # noqa: BLE001
        _note(acc, f"getJulianDate-raised-{type(ex).__name__}", inst, error=str(ex))
        return sd.JulianDate(base + frac)
    if not abs((jdf - base) - frac) <= cal.JD_TOL:
        _note(acc, "getJulianDate-differs-from-day-number", inst, got=jdf, expected=base + frac)
    if inverse or extras:
        dtm = datetime(y, m, d, h, mi, s)
        try:
            back = sd.julianDateToDatetime(jd)
        except Exception as ex:  # noqa: BLE001
            back = dtm
            _note(acc, f"julianDateToDatetime-raised-{type(ex).__name__}", inst, error=str(ex))
        if back != dtm:
            late = (back - dtm).total_seconds()
            sig = "julianDateToDatetime-one-second-early" if late == -1.0 else "julianDateToDatetime-wrong-instant"
            _note(acc, sig, inst, got=back.isoformat(), expected=dtm.isoformat())
    if ref is not None:     # scenario seconds relative to an earlier instant of the same task
        jd0, dn0, sod0 = ref
        off = (dn - dn0) * 86400 + sod - sod0
        try:
            got = float(jd.convertToScenarioTime(jd0))
            if not abs(got - off) <= cal.SEC_TOL:
                _note(acc, "convertToScenarioTime-offset-off", inst, ref=[dn0, sod0], got=got, expected=off)
            if extras:
                jd_fwd = float(sd.ScenarioTime(off).convertToJulianDate(jd0))
                if not abs((jd_fwd - base) - frac) <= cal.JD_TOL:
                    _note(acc, "convertToJulianDate-offset-off", inst, ref=[dn0, sod0], got=jd_fwd)
                elif not abs(float(sd.JulianDate(jd_fwd).convertToScenarioTime(jd0)) - off) <= cal.SEC_TOL:
                    _note(acc, "scenario-offset-round-trip-off", inst, ref=[dn0, sod0])
        except Exception as ex:  # noqa: BLE001
            _note(acc, f"scenario-time-conversion-raised-{type(ex).__name__}", inst, error=str(ex))
    if extras:
        try:
            jd2 = float(sd.datetimeToJulianDate(dtm))
            if jd2 != jdf and not abs((jd2 - base) - frac) <= cal.JD_TOL:
                _note(acc, "datetimeToJulianDate-differs-from-day-number", inst, got=jd2)
        except Exception as ex:  # noqa: BLE001
            _note(acc, f"datetimeToJulianDate-raised-{type(ex).__name__}", inst, error=str(ex))
        try:
            cy, cm, cd, ch, cmi, cs = jd.calendar_date
            g = dnmap.get((int(cy), int(cm), int(cd)))
            if g is None or not abs((g - dn) * 86400 + (float(ch) * 3600 + float(cmi) * 60 + float(cs)) - sod) <= cal.SEC_TOL:
                _note(acc, "calendar_date-wrong-instant",
                      inst, got=[int(cy), int(cm), int(cd), float(ch), float(cmi), float(cs)])
        except Exception as ex:  # noqa: BLE001
            _note(acc, f"calendar_date-raised-{type(ex).__name__}", inst, error=str(ex))
        try:
            doyf = float(conv.dayOfYear(y, m, d, h, mi, s))
            if not abs((doyf - doy) - frac) <= cal.JD_TOL:
                _note(acc, "dayOfYear-differs-from-spec", inst, got=doyf, expected=doy + frac)
        except Exception as ex:  # noqa: BLE001
            _note(acc, f"dayOfYear-raised-{type(ex).__name__}", inst, error=str(ex))
        try:
            mo, dd, hh, mm_, ss = sd.days2mdh(y, doy + frac)
            g = dnmap.get((y, int(mo), int(dd)))
            if g is None or not abs((g - dn) * 86400 + (float(hh) * 3600 + float(mm_) * 60 + float(ss)) - sod) <= cal.SEC_TOL:
                _note(acc, "days2mdh-wrong-instant", inst, got=[int(mo), int(dd), float(hh), float(mm_), float(ss)])
        except Exception as ex:  # noqa: BLE001
            _note(acc, f"days2mdh-raised-{type(ex).__name__}", inst, error=str(ex))
    return jd


def _sods_of_day(seed, dn, n):
    """n seconds of the day for the sparse sweep: distinct seconds of the minute, varied hour/minute."""
    rng = random.Random(seed * 1000003 + dn)
    secs = rng.sample(range(60), n)
    out = []
    for j, s in enumerate(secs):
        pick = rng.random()
        if pick < 0.15:
            h, mi = rng.choice(((23, 59), (0, 0), (11, 59), (12, 0)))
        else:
            h, mi = rng.randrange(24), rng.randrange(60)
        out.append(h * 3600 + mi * 60 + s)
    return sorted(set(out))


def _sweep(task):
    """kind 'sparse': many days x a few seconds; kind 'full': every second of an hour range.

    The task carries the spec's day numbers of the days it may meet (task['dn'])."""
    _W["dn"] = {tuple(k): v for k, v in task["dn"]}
    acc: dict = {}
    n = n_inv = 0
    prev = None          # (jd float, dn, sod) of the previous instant (instants come in time order)
    ref = None
    if task["kind"] == "sparse":
        for (y, m, d, dn, doy) in task["days"]:
            for sod in _sods_of_day(task["seed"], dn, task["n"]):
                jd = _instant(acc, y, m, d, dn, doy, sod, True, ref)
                jdf = float(jd)
                if prev is not None and not jdf > prev[0]:
                    _note(acc, "julian-date-not-strictly-increasing",
                          {"earlier": [prev[1], prev[2]], "later": [dn, sod], "jd": [prev[0], jdf]})
                prev = (jdf, dn, sod)
                if ref is None:
                    ref = (jd, dn, sod)
                n += 1
                n_inv += 1
    else:
        (y, m, d, dn, doy), nxt = task["day"], task["next"]
        dense = task["dense"]
        for sod in range(task["lo"], task["hi"] + 1):        # hi inclusive: overlaps the next chunk
            if sod == 86400:
                if nxt is None:
                    break
                y, m, d, dn, doy = nxt
                sod = 0
            # every second: forward conversion, monotonicity, offset; the inverse on every second
            # of the hours next to midnight and noon and on every 7th second elsewhere (7 is coprime
            # to 60, so every second of the minute is met); all other functions on a thinner grid
            extras = sod % 60 in (0, 59) or sod % 97 == 0
            inverse = dense or sod < 3600 or sod >= 82800 or 39600 <= sod < 46800 or sod % 7 == 0
            jd = _instant(acc, y, m, d, dn, doy, sod, extras, ref, inverse)
            jdf = float(jd)
            if prev is not None and not jdf > prev[0]:
                _note(acc, "julian-date-not-strictly-increasing",
                      {"earlier": [prev[1], prev[2]], "later": [dn, sod], "jd": [prev[0], jdf]})
            prev = (jdf, dn, sod)
            if ref is None:
                ref = (jd, dn, sod)
            n += 1
            n_inv += inverse or extras
    return {"id": task["id"], "n": n, "n_inv": n_inv, "acc": acc}


class _RunAway(Exception):
    """Raised by the step wrapper when a call takes more steps than floor(D/step) + 2."""


def _run_duration(task):
    """One REAL scenario: consecutive propagateTo calls; returns the raw record of the run.

    Julian dates are returned as floats; the driver compares them with Calendar.tla's table."""
    from .. import scenario_util as su
    from resonaate.data.ephemeris import TruthEphemeris
    from resonaate.data.epoch import Epoch
    from resonaate.physics.time.conversions import getTargetJulianDate
    from sqlalchemy.orm import Query
    start = su.parse_iso(task["start"])
    dt, reqs, via = task["dt"], task["reqs"], task["via"]       # reqs in seconds (a float when fractional)
    reqs_cs = [round(D * 100) for D in reqs]                    # the same in exact hundredths of a second
    n_total = sum(c // (100 * dt) for c in reqs_cs)
    tick = 1 if all(c % 100 == 0 for c in reqs_cs) else 100     # unit of the requests in the trace
    out = {"id": task["id"], "startSec": start.second, "dt": dt, "via": via, "start": task["start"], "tick": tick,
           "reqs": reqs, "ev": [], "rows": [], "table": [], "crash": None, "counts": []}
    try:
        cfg = su.base_config(start=start, step=dt, n_steps=max(1, n_total + 1), n_targets=1,
                             n_sensors=task.get("sensors", 1), truth_only=True, model="two_body")
        if task.get("span"):        # a configured time span that is not a whole multiple of the step
            cfg["time"]["stop_timestamp"] = su.iso(start + timedelta(seconds=task["span"]))
        out["span"] = (su.parse_iso(cfg["time"]["stop_timestamp"]) - start).total_seconds() if not task.get("span") else task["span"]
        app = su.build(cfg)
        tgt_id = next(iter(app.target_agents))
        real_step = app.stepForward

        budget = [0]

        def traced_step():
            real_step()
            out["ev"].append({"e": "step", "clockMs": cal.ms_between(app.clock.datetime_epoch, start),
                              "jd": float(app.clock.julian_date_epoch)})
            budget[0] -= 1
            if budget[0] < 0:       # more steps than any reading of the request allows: stop the run-away
                raise _RunAway      # (the extra steps are in the trace and TLC rejects them)

        app.stepForward = traced_step          # wrapper on the instance, no source hook
        for c, D in enumerate(reqs):
            out["ev"].append({"e": "begin", "D": reqs_cs[c] * tick // 100})
            before = len(out["ev"])
            raised = 0
            budget[0] = reqs_cs[c] // (100 * dt) + 2
            try:
                if via == "api":
                    su.run_for(app, D)
                else:                           # the way resonaate.runResonaate computes its target:
                    #                             hours as a float -> timedelta -> getTargetJulianDate
                    jd_from = app.clock.julian_date_start if c == 0 else app.clock.julian_date_epoch
                    jump = timedelta(hours=D / 3600)
                    if jump != timedelta(microseconds=reqs_cs[c] * 10000):      # (float hours did not land on
                        jump = timedelta(microseconds=reqs_cs[c] * 10000)       #  the lattice point: use it exactly)
                    app.propagateTo(getTargetJulianDate(jd_from, jump))
            except ValueError:
                raised = 1                      # "delta less than physics time step"
            except _RunAway:
                raised = 2
            out["counts"].append(len(out["ev"]) - before)
            out["ev"].append({"e": "end", "raised": raised})
        db = app.database
        epochs = {float(e.julian_date): e.timestampISO for e in db.getData(Query(Epoch))}
        rows = db.getData(Query(TruthEphemeris).filter(TruthEphemeris.agent_id == tgt_id))
        out["rows"] = [[float(r.julian_date), epochs.get(float(r.julian_date))] for r in rows]
        from sqlalchemy import text
        with db.engine.connect() as conn:       # the table of epochs as it is, read with plain SQL
            out["table"] = [[float(jd), iso] for jd, iso in conn.execute(text("SELECT julian_date, timestampISO FROM epochs"))]
    except Exception as ex:  # noqa: BLE001   (the simulator failed on a valid public configuration)
        import traceback
        out["crash"] = f"{type(ex).__name__}: {ex}"
        out["tb"] = traceback.format_exc()[-1500:]
    return out


def _project_run(r, idx):
    """Raw run record -> integer trace for TraceDurations.tla (Julian dates judged against the spec)."""
    start = datetime.fromisoformat(r["start"])
    n = 0
    ev = []
    for e in r["ev"]:
        if e["e"] == "step":
            n += 1
            auth = start + timedelta(seconds=n * r["dt"])      # authoritative instant of the n-th step
            ev.append({"e": "step", "clockMs": e["clockMs"], "jdOk": idx.jd_ok(e["jd"], auth)})
        else:
            ev.append(e)
    offs, ok = [], 1
    for jd, iso in r["rows"]:
        if iso is None:
            offs.append(-1)
            ok = 0
            continue
        t = datetime.fromisoformat(iso)
        offs.append(cal.ms_between(t, start))
        ok &= idx.jd_ok(jd, t)
    toffs, tok = [], 1
    for jd, iso in r["table"]:
        t = datetime.fromisoformat(iso)
        toffs.append(cal.ms_between(t, start))
        tok &= idx.jd_ok(jd, t)
    return {"startSec": r["startSec"], "dt": r["dt"], "tick": r["tick"], "ev": ev, "rows": sorted(offs), "epochRowsOk": ok,
            "span": int(round(r["span"] * r["tick"], 6)), "table": sorted(toffs), "tableJdOk": tok}


def _dispatch(task):
    return _sweep(task) if task["kind"] in ("sparse", "full") else _run_duration(task)


# ======================================================================================
# driver side
# ======================================================================================
def _in_seconds(lattice):
    """DUR records are in ticks (DurationsFrac.tla: 100 per second, Durations.tla: 1): convert to seconds."""
    for r in lattice:
        tk = r.get("tick", 1)
        r["reqsCs"] = [c * 100 // tk for c in r["reqs"]]
        r["reqs"] = [c // 100 if c % 100 == 0 else c / 100 for c in r["reqsCs"]]
        r["dt"] = r["dt"] // tk
        r["epochs"] = [e // tk for e in r["epochs"]]
        if "span" in r:
            r["span"] = r["span"] / tk
    return lattice


def _choose_fractional(lattice, per_class, rng):
    """Sub-second lattice: `per_class` configurations per distance of the last request from a
    multiple of the step (-0.51, -0.50, -0.49, -0.12, +0.12, +0.49, +0.50 s, and "elsewhere in the
    step"), spread over steps and start seconds."""
    by_f: dict = {}
    for r in lattice:
        m = r["reqsCs"][-1] % (100 * r["dt"])
        f = m - 100 * r["dt"] if m >= 100 * r["dt"] - 51 else (m if m <= 50 else "elsewhere")
        by_f.setdefault(f, []).append(r)
    chosen = []
    for f in sorted(by_f, key=str):
        pool = sorted(by_f[f], key=lambda r: (r["startSec"], r["dt"], r["reqsCs"]))
        rng.shuffle(pool)
        seen_dt, seen_sec, mine = set(), set(), []
        for r in pool:
            if len(mine) >= per_class:
                break
            if (r["dt"] in seen_dt and len(seen_dt) < 4) or r["startSec"] in seen_sec:
                continue
            seen_dt.add(r["dt"])
            seen_sec.add(r["startSec"])
            mine.append(r)
        chosen += mine
    return chosen


def _pick_boundary_days(days, quick, rng):
    """Boundary days for the every-second sweeps, by the spec's classification."""
    by_kind: dict = {}
    for i, r in enumerate(days):
        by_kind.setdefault(r["kind"], []).append(i)
    special_years = {1901, 1904, 1999, 2000, 2001, 2016, 2019, 2020, 2098, 2099}
    want = {"year": 7, "leapday": 7, "month": 7, "day": 3} if quick else \
           {"year": 50, "leapday": 50, "month": 60, "day": 40}
    chosen = []
    for kind, n in want.items():
        pool = by_kind.get(kind, [])
        first = [i for i in pool if days[i]["y"] in special_years]
        rng.shuffle(first)
        rest = [i for i in pool if days[i]["y"] not in special_years]
        rng.shuffle(rest)
        chosen += (first + rest)[:n]
    return sorted(set(chosen))


def _start_instants(ticks, rng):
    """Midnights inside the Earth-orientation table, by the kind of boundary Calendar.tla says
    the second tick crossed there: {kind: [datetime of the midnight]}."""
    out = {"day": set(), "month": set(), "leapday": set(), "year": set()}
    for tk in ticks:
        y, m, d, sod = tk["to"]
        if sod == 0 and tk["kind"] in out and EOP_FIRST <= (y, m, d) <= EOP_LAST:
            out[tk["kind"]].add(datetime(y, m, d))
    res = {}
    for k, v in out.items():
        res[k] = sorted(v)
        rng.shuffle(res[k])
    if not any(res.values()):
        raise tlc.MachineryError("Calendar.tla ticks contain no boundary inside the Earth-orientation table")
    return res


def _choose_durations(lattice, per_sec, rng):
    """Stratified sample of the Durations.tla lattice: per start second, spread over steps and
    numbers of calls; two thirds contain a request that is a whole multiple of the step."""
    by_sec: dict = {}
    for r in lattice:
        by_sec.setdefault(r["startSec"], []).append(r)

    def pick(pool, n):
        seen, mine = set(), []
        for r in pool:
            key = (r["dt"], len(r["reqs"]))
            if len(mine) < n and key not in seen:
                seen.add(key)
                mine.append(r)
        return mine

    chosen = []
    for sec in sorted(by_sec):
        pool = sorted(by_sec[sec], key=lambda r: (r["dt"], r["reqs"]))
        rng.shuffle(pool)
        mult = [r for r in pool if any(D % r["dt"] == 0 for D in r["reqs"])]
        rest = [r for r in pool if not any(D % r["dt"] == 0 for D in r["reqs"])]
        n_mult = -(-2 * per_sec // 3)
        got = pick(mult, n_mult)
        chosen += got + pick(rest, per_sec - len(got))
    return chosen


def _choose_long(lattice, n, rng):
    """n configurations of the day-long lattice: start seconds spread over 0..59, both steps, at
    least half of them containing a request of a whole number of days."""
    by_sec: dict = {}
    for r in lattice:
        by_sec.setdefault(r["startSec"], []).append(r)
    secs = sorted(by_sec)
    chosen = []
    for j in range(n):
        sec = secs[(j * 5 + 1 + (j * 5) // len(secs)) % len(secs)]
        pool = sorted(by_sec[sec], key=lambda r: (r["dt"], r["reqs"]))
        rng.shuffle(pool)
        want_days = j % 2 == 0
        cand = [r for r in pool if any(D >= 86400 for D in r["reqs"])
                and any(D % 86400 == 0 for D in r["reqs"]) == want_days
                and r["dt"] == (3600, 7200)[(j // 2) % 2]]
        chosen.append((cand or pool)[0])
    return chosen


def _duration_tasks(chosen, starts, rng):
    tasks = []
    kinds = ["year", "month", "leapday", "day"]
    for j, r in enumerate(chosen):
        total = int(sum(r["reqs"]))
        kind = kinds[j % 4]
        pool = starts[kind] or next(v for v in starts.values() if v)
        midnight = pool[j % len(pool)]
        if j % 3 == 2:      # a mid-day start on the day before the boundary
            t0 = midnight - timedelta(days=1) + timedelta(hours=rng.randrange(1, 22), minutes=rng.randrange(60),
                                                          seconds=r["startSec"])
        else:               # the run crosses the boundary at the end of the day
            back = max(1, -(-(total // 2) // 60))
            t0 = midnight - timedelta(minutes=back) + timedelta(seconds=r["startSec"])
        for via in ("api", "cli"):
            tasks.append({"kind": "duration", "id": len(tasks), "start": cal.fmt(t0), "dt": r["dt"],
                          "reqs": list(r["reqs"]), "via": via, "sensors": 1 + j % 2, "boundary": kind,
                          "span": r.get("span"), "expect_counts": list(r["counts"]), "expect_epochs": list(r["epochs"])})
    return tasks


SIG_OF_INV = {"EndAllowed": "propagateTo-steps-lost", "StepAllowed": "propagateTo-extra-step",
              "BeginAllowed": "propagateTo-trace-malformed", "ClockAgrees": "clock-not-start-plus-k-dt",
              "RowsAgree": "recorded-epochs-not-start-plus-k-dt",
              "TableAgrees": "epochs-table-not-start-plus-k-dt", "StepsHonoured": "propagateTo-steps-not-floor",
              "EpochsAreStartPlusKDt": "epochs-not-start-plus-k-dt", "NoOvershoot": "propagateTo-overshoot",
              "StopsOnlyWhenNoStepFits": "propagateTo-steps-lost"}


def _validate_durations(ctx: Ctx, runs, idx, selftest=True):
    """impl -> spec: TLC decides every recorded run against TraceDurations.tla."""
    d = ctx.sub("trace_durations")
    traces = [_project_run(r, idx) for r in runs]
    # binding self-test: two corrupted copies of one real trace (a step event removed = a missing
    # wrapper; a logged clock value changed) ride along and must be rejected
    n_real = len(traces)
    src = next((j for j, t in enumerate(traces) if sum(e["e"] == "step" for e in t["ev"]) >= 2), None) if selftest else None
    if src is not None:
        import copy
        a, b = copy.deepcopy(traces[src]), copy.deepcopy(traces[src])
        a["ev"].pop(next(j for j, e in enumerate(a["ev"]) if e["e"] == "step"))
        last = [e for e in b["ev"] if e["e"] == "step"][-1]
        last["clockMs"] += 1000
        traces += [a, b]
    (d / "traces.json").write_text(json.dumps(traces))
    res = tlc.run_tlc("TraceDurations", "TraceDurations.cfg", d, workers=min(4, ctx.cpus), cont=True,
                      env={"TRACE_FILE": "traces.json"}, timeout=1500)
    tlc.require_ok(res, "TraceDurations")
    ctx.add_tlc(res, f"trace validation of {n_real} real timed runs against Durations.tla")
    accepted = {t[0] for t in res.tuples("ACCEPTED")}
    rejected = {}
    for inv, states in res.invariant_violations:
        tid = cal.tid_of_states(states)
        if tid is None:
            raise tlc.MachineryError(f"TraceDurations: cannot attribute violation of {inv}:\n" + "\n".join(states[-1:]))
        rejected.setdefault(tid, []).append(inv)
    if src is not None:
        if (src + 1) in accepted:
            bad = [j for j in (n_real + 1, n_real + 2) if j not in rejected]
            if bad:
                raise tlc.MachineryError(f"TraceDurations accepted a corrupted trace (binding self-test): {bad}")
            ctx.extra["binding_mutants_rejected"] = {"step-event-removed": sorted(set(rejected[n_real + 1])),
                                                     "clock-field-corrupted": sorted(set(rejected[n_real + 2]))}
        rejected.pop(n_real + 1, None), rejected.pop(n_real + 2, None)
        accepted -= {n_real + 1, n_real + 2}
        traces = traces[:n_real]
    for tid, invs in sorted(rejected.items()):
        t = runs[tid - 1]
        for inv in sorted(set(invs)):
            frac = any(D != int(D) for D in t["reqs"])
            sig = f"{SIG_OF_INV.get(inv, inv)}{'-fractional-request' if frac else ''}-{t['via']}"
            ctx.violation(sig, f"timed run via {t['via']} start {t['start']} step {t['dt']} s requests {t['reqs']} s: "
                               f"steps taken per call {t['counts']} (floor(D/step) = {[int(D // t['dt']) for D in t['reqs']]}), "
                               f"trace rejected by {inv}",
                          {"kind": "duration", "start": t["start"], "dt": t["dt"], "reqs": t["reqs"], "via": t["via"],
                           "sensors": t.get("sensors", 1), "span": t.get("span"), "trace": traces[tid - 1]})
    missing = [i for i in range(1, len(traces) + 1) if i not in accepted and i not in rejected]
    if missing:
        raise tlc.MachineryError(f"TraceDurations: traces neither accepted nor rejected: {missing[:10]}\n" + res.stdout[-1500:])
    ctx.traces_validated += n_real
    return accepted, rejected, traces


def _spec_mutant(workdir):
    """Non-vacuity of Durations.tla: each named deviation must be refuted by TLC."""
    cfg = (tlc.SPEC_DIR / "Durations_quick.cfg").read_text()
    cfg = cfg.replace("InvertStartBySecTruncation = FALSE", "InvertStartBySecTruncation = TRUE")
    cfg = cfg.replace("INVARIANT Emit\n", "").replace("MaxCalls = 3", "MaxCalls = 1")
    res = tlc.run_tlc("Durations", cfg, workdir, workers=2, timeout=600)
    tlc.require_ok(res, "Durations (as-coded start inversion)")
    killed = sorted({v[0] for v in res.invariant_violations})
    if "StepsHonoured" not in killed and "StopsOnlyWhenNoStepFits" not in killed:
        raise tlc.MachineryError("Durations.tla: as-coded start inversion does not violate StepsHonoured (vacuous spec)")
    cfg = (tlc.SPEC_DIR / "DurationsFrac_quick.cfg").read_text().replace("INVARIANT FracEmit\n", "")
    res = tlc.run_tlc("DurationsFrac", cfg.replace("TargetKeepsFraction = FALSE", "TargetKeepsFraction = TRUE"), workdir,
                      workers=2, timeout=600)
    tlc.require_ok(res, "DurationsFrac (target keeps the fraction, difference rounded to nearest)")
    killed_frac = sorted({v[0] for v in res.invariant_violations})
    if not {"StepsHonoured", "NoOvershoot"} & set(killed_frac):
        raise tlc.MachineryError("DurationsFrac.tla: TargetKeepsFraction does not violate StepsHonoured/NoOvershoot (vacuous spec)")
    res = tlc.run_tlc("DurationsFrac", cfg.replace("SpreadEpochsOverSpan = FALSE", "SpreadEpochsOverSpan = TRUE"), workdir,
                      workers=2, timeout=600)
    tlc.require_ok(res, "DurationsFrac (epochs of the clock spread over the configured span)")
    killed_span = sorted({v[0] for v in res.invariant_violations})
    if "TableIsStartPlusKDt" not in killed_span:
        raise tlc.MachineryError("DurationsFrac.tla: SpreadEpochsOverSpan does not violate TableIsStartPlusKDt (vacuous spec)")
    return {"Durations.InvertStartBySecTruncation": killed, "DurationsFrac.TargetKeepsFraction": killed_frac,
            "DurationsFrac.SpreadEpochsOverSpan": killed_span}


def _merge(total, acc):
    for sig, (n, exs) in acc.items():
        e = total.setdefault(sig, [0, []])
        e[0] += n
        e[1] += exs[:max(0, MAX_EX - len(e[1]))]


def _dn_of(tup, lo, hi):
    """Day numbers (from the TLC table) of days lo-1 .. hi of the table, as a list of pairs."""
    return [[list(t[:3]), t[3]] for t in tup[max(0, lo - 1):hi + 1]]


def run(ctx: Ctx):
    import time
    from .. import scenario_util  # noqa: F401  (scheduler stand-in + resonaate import before forking)
    import resonaate.physics.time.conversions  # noqa: F401
    import resonaate.scenario.scenario  # noqa: F401
    rng = random.Random(ctx.seed * 7919 + 5)
    quick = ctx.quick
    nproc = max(2, min(12, ctx.cpus - 2))
    ctx.rule = ("calendar: every day 1901-2099 printed by TLC x seconds of the day chosen per day by the seed "
                "(distinct seconds of the minute, hours biased to 00/11/12/23) + every second of boundary days "
                "(year/month/leap-day/ordinary day ends, by the spec's classification) + every TLC second tick; "
                "a case = one (day, list of seconds) or one (boundary day, 2-hour range) or one tick; durations: "
                "stratified sample of the Durations.tla lattice (every start second, all steps, 1-3 calls, multiples "
                "and non-multiples of the step) plus requests of 12 h .. 4 d (1 d, 1 d 7.5 h, 2 d, ...) with steps of "
                "1-2 h plus requests k*step -0.51/-0.50/-0.49/-0.12/+0.12/+0.49/+0.50 s (+0/1 s), each run via 'api' "
                "(target = clock + D by datetime arithmetic) and via 'cli' (hours as a float -> timedelta -> "
                "getTargetJulianDate); no trivial cases are generated")
    ctx.assumptions = [
        "Julian dates compared with the spec's exact day number + second/86400 to 1e-9 d (2 ulp of a float JD)",
        "calendar seconds returned as floats and scenario-second offsets compared to 1e-4 s (a float JD resolves 4e-5 s)",
        "julianDateToDatetime must return exactly the whole-second instant (statement of C05)",
        "authoritative instants come from datetime + timedelta; the spec's day number is the proleptic Gregorian ordinal",
        "a duration D < step may be answered by ValueError (0 steps advanced); D >= step must not",
        "the table of epochs is read with plain SQL; every row must be start + k*step (k = 0..floor(span/step) and the "
        "steps taken), whatever the configured span; fractional-request runs configure spans of 4 steps + 0 / 1 s / "
        "step - 1 s / a fraction",
        "requested durations lie on a lattice of hundredths of a second, at least 0.12 s away from a multiple of the step "
        "unless they are whole seconds; the steps demanded are floor(D / step) of the requested D (fraction included)",
        "scenario runs use start dates inside the shipped Earth-orientation table (2014-2022), truth-only two-body, "
        "output step = physics step; rows = truth rows of the target joined to their epoch rows",
    ]
    t0 = time.time()
    phase = {}
    sec_cfg = "Calendar_quick.cfg" if quick else "Calendar_thorough.cfg"
    dur_cfg = "Durations_quick.cfg" if quick else "Durations_thorough.cfg"
    w = max(2, ctx.cpus // 4)
    # the worker processes are forked before any thread exists
    pool = mp.get_context("fork").Pool(nproc, initializer=_init_worker)
    try:
        with ThreadPoolExecutor(6) as ex:
            f_walk = ex.submit(cal.run_walk, ctx.sub("walk"), w)
            f_sec = ex.submit(cal.run_seconds, sec_cfg, ctx.sub("seconds"), w)
            f_dur = ex.submit(tlc.run_tlc, "Durations", dur_cfg, ctx.sub("durations"), workers=w, timeout=1500)
            f_long = ex.submit(tlc.run_tlc, "Durations", "Durations_long_quick.cfg" if quick else "Durations_long_thorough.cfg",
                               ctx.sub("durations_long"), workers=2, timeout=1500)
            f_frac = ex.submit(tlc.run_tlc, "DurationsFrac", "DurationsFrac_quick.cfg" if quick else "DurationsFrac_thorough.cfg",
                               ctx.sub("durations_frac"), workers=2, timeout=1500)
            f_mut = ex.submit(_spec_mutant, ctx.sub("dur_mutant"))
            # -- the calendar table; the sweep of instants starts as soon as it is there
            walk_res, days = f_walk.result()
            phase["walk"] = round(time.time() - t0, 1)
            first, last = days[0], days[-1]
            if (first["y"], first["m"], first["d"]) != (1901, 1, 1) or (last["y"], last["m"], last["d"]) != (2099, 12, 31):
                raise tlc.MachineryError(f"Calendar walk does not span 1901-2099: {first} .. {last}")
            dn_pairs = [((r["y"], r["m"], r["d"]), r["dn"]) for r in days]
            idx = cal.DayIndex(dn_pairs)
            tup = [(r["y"], r["m"], r["d"], r["dn"], r["doy"]) for r in days]
            tasks = []
            n_sod = 3 if quick else 24
            chunk = 300 if quick else 100
            for a in range(0, len(tup), chunk):
                tasks.append({"kind": "sparse", "id": len(tasks), "days": tup[a:a + chunk], "seed": ctx.seed, "n": n_sod,
                              "dn": _dn_of(tup, a, a + chunk)})
            bidx = _pick_boundary_days(days, quick, rng)
            hours = 2
            for j, i in enumerate(bidx):      # the day whose END is the boundary, and the second just after it
                nxt = tup[i + 1] if i + 1 < len(tup) else None
                for h0 in range(0, 24, hours):
                    tasks.append({"kind": "full", "id": len(tasks), "day": tup[i], "next": nxt,
                                  "dense": j % (12 if quick else 5) == 0,
                                  "lo": h0 * 3600, "hi": (h0 + hours) * 3600, "dn": _dn_of(tup, i, i + 1)})
            early = f_sec.done() and f_dur.done()      # (only decides which batch the pool serves first)
            if not early:
                sweep_async = pool.map_async(_dispatch, tasks, chunksize=1)
            # -- timed runs follow as soon as the lattice and the boundary ticks are there
            sec_res, ticks = f_sec.result()
            dur_res = cal.spec_fail(f_dur.result(), "Durations.tla lattice")
            lattice = _in_seconds(dur_res.tagged("DUR"))
            if not lattice:
                raise tlc.MachineryError("Durations.tla emitted no configuration")
            starts = _start_instants(ticks, rng)
            long_res = cal.spec_fail(f_long.result(), "Durations.tla lattice (requests of a day and more)")
            lattice_long = _in_seconds(long_res.tagged("DUR"))
            if not lattice_long:
                raise tlc.MachineryError("Durations.tla (long requests) emitted no configuration")
            frac_res = cal.spec_fail(f_frac.result(), "DurationsFrac.tla lattice (requests with a fractional second)")
            lattice_frac = _in_seconds(frac_res.tagged("DUR"))
            if not lattice_frac:
                raise tlc.MachineryError("DurationsFrac.tla emitted no configuration")
            chosen = _choose_long(lattice_long, 12 if quick else 60, rng) + _choose_fractional(lattice_frac, 3 if quick else 24, rng) \
                + _choose_durations(lattice, 2 if quick else 10, rng)
            dur_tasks = _duration_tasks(chosen, starts, rng)
            phase["lattice_and_ticks"] = round(time.time() - t0, 1)
            dur_async = pool.map_async(_dispatch, dur_tasks, chunksize=2)
            if early:
                sweep_async = pool.map_async(_dispatch, tasks, chunksize=1)
            killed = f_mut.result()
        ctx.add_tlc(walk_res, "Calendar.tla day walk 1901-2099 (calendar invariants, RoundTrip, Monotone; per-day table)")
        ctx.add_tlc(sec_res, "Calendar.tla second ticks across boundary instants (Monotone, RoundTrip, TickLength)")
        ctx.add_tlc(dur_res, "Durations.tla configuration lattice (StepsHonoured, EpochsAreStartPlusKDt, ...)")
        ctx.add_tlc(long_res, "Durations.tla lattice of requests of 12 h .. 4 d with steps of 1-2 h")
        ctx.add_tlc(frac_res, "DurationsFrac.tla lattice of requests k*step -0.51 .. +1.50 s (hundredths of a second)")
        results = {r["id"]: r for r in sweep_async.get(timeout=6000)}
        phase["instants_swept"] = round(time.time() - t0, 1)
        runs_raw = dur_async.get(timeout=6000)
        phase["timed_runs_done"] = round(time.time() - t0, 1)
    finally:
        pool.terminate()
        pool.join()

    # ---- calendar verdicts -------------------------------------------------------------
    total_acc: dict = {}
    instants = inverted = 0
    for t in tasks:
        r = results[t["id"]]
        instants += r["n"]
        inverted += r["n_inv"]
        _merge(total_acc, r["acc"])
        if t["kind"] == "sparse":
            for (y, m, d, dn, _doy) in t["days"]:
                ctx.case(("day", dn, ctx.seed, t["n"]),
                         sample={"day": [y, m, d], "dn": dn, "sods": _sods_of_day(ctx.seed, dn, t["n"])}
                         if dn % 20011 == 0 else None)
        else:
            ctx.case(("full", t["day"][3], t["lo"]), sample={"boundary_day": t["day"][:3], "seconds": [t["lo"], t["hi"]]}
                     if t["lo"] == 0 and t["day"][3] % 5 == 0 else None)
    ctx.traces_validated += instants
    # every TLC second tick, as a transition
    _init_worker(dn_pairs)
    acc: dict = {}
    dnmap = _W["dn"]
    for tk in ticks:
        fy, fm, fd, fs = tk["from"]
        ty, tm, td, ts = tk["to"]
        a = datetime(fy, fm, fd, *cal.hms(fs))
        b = datetime(ty, tm, td, *cal.hms(ts))
        if b - a != timedelta(seconds=1) or dnmap[(ty, tm, td)] != tk["dn"]:
            raise tlc.MachineryError(f"Calendar.tla TickSecond disagrees with datetime arithmetic: {tk}")
        ja = _instant(acc, fy, fm, fd, dnmap[(fy, fm, fd)], 0, fs, False, None)
        jb = _instant(acc, ty, tm, td, tk["dn"], tk["doy"], ts, True, (ja, dnmap[(fy, fm, fd)], fs))
        if not float(jb) > float(ja):
            _note(acc, "julian-date-not-strictly-increasing", {"tick": tk, "jd": [float(ja), float(jb)]})
        ctx.case(("tick", tk["dn"], ts, tk["kind"]), sample=tk if tk["kind"] == "year" and ts == 0 and ty == 2000 else None)
    _merge(total_acc, acc)
    ctx.traces_validated += len(ticks)
    for sig, (n, exs) in sorted(total_acc.items()):
        ctx.violation(sig, f"{n} of {inverted + 2 * len(ticks)} replayed instants: {sig}; e.g. {json.dumps(exs[0], default=str)}",
                      {"kind": "instant", "count": n, "examples": exs})
    ctx.extra["instants_replayed"] = instants
    ctx.extra["instants_inverted"] = inverted
    ctx.extra["tlc_ticks_replayed"] = len(ticks)
    ctx.extra["boundary_days_every_second"] = len(bidx)
    ctx.extra["instant_failures_by_kind"] = {k: v[0] for k, v in sorted(total_acc.items())}
    phase["calendar_verdicts"] = round(time.time() - t0, 1)

    # ---- duration verdicts --------------------------------------------------------------
    runs = []
    for t, r in zip(dur_tasks, runs_raw):
        r["sensors"] = t["sensors"]
        ctx.case(("duration", t["start"], t["dt"], tuple(t["reqs"]), t["via"]),
                 sample={k: t[k] for k in ("start", "dt", "reqs", "via", "boundary")} if t["id"] % 97 == 0 else None)
        if r["crash"]:
            ctx.violation(f"timed-run-raised-{r['crash'].split(':')[0]}-{t['via']}",
                          f"scenario start {t['start']} step {t['dt']} requests {t['reqs']} via {t['via']} raised {r['crash']}",
                          {"kind": "duration", "start": t["start"], "dt": t["dt"], "reqs": t["reqs"], "via": t["via"],
                           "sensors": t["sensors"], "traceback": r.get("tb")})
            continue
        r["expect_counts"], r["expect_epochs"] = t["expect_counts"], t["expect_epochs"]
        runs.append(r)
    if not runs:
        raise tlc.MachineryError("no timed run produced a trace")
    accepted, rejected, traces = _validate_durations(ctx, runs, idx)
    # spec -> impl cross-check of the same runs: TLC's expected counts/epochs vs what was recorded
    for i, (r, tr) in enumerate(zip(runs, traces), start=1):
        agree = r["counts"] == r["expect_counts"] and tr["rows"] == [0] + [1000 * e for e in r["expect_epochs"]]
        if not agree and i not in rejected:     # (an accepted trace always agrees; a rejected one may agree here
            #                                      and fail another clause, e.g. the Julian date of the clock)
            raise tlc.MachineryError(f"trace accepted although TLC's expected counts/epochs differ for {r['start']} "
                                     f"{r['reqs']} {r['via']}: counts {r['counts']} expected {r['expect_counts']} rows {tr['rows']}")
    phase["trace_validation"] = round(time.time() - t0, 1)
    ctx.extra["phase_done_at_s"] = phase
    ctx.extra["timed_runs"] = len(dur_tasks)
    ctx.extra["timed_runs_rejected"] = len(rejected)
    ctx.extra["duration_lattice_points_emitted"] = len(lattice) + len(lattice_long) + len(lattice_frac)
    ctx.extra["timed_runs_with_fractional_request"] = sum(1 for t in dur_tasks if any(D != int(D) for D in t["reqs"]))
    ctx.extra["timed_runs_of_a_day_or_more"] = sum(1 for t in dur_tasks if max(t["reqs"]) >= 86400)
    ctx.extra["spec_mutants_killed"] = killed


def replay(ctx: Ctx, rp: dict):
    """Re-run one stored failing input against the current tree."""
    from .. import scenario_util  # noqa: F401
    rep = rp["replay"]
    if rep.get("kind") not in ("instant", "duration"):
        return run(ctx)
    walk_res, days = cal.run_walk(ctx.sub("walk"), max(2, ctx.cpus // 2))
    ctx.add_tlc(walk_res, "Calendar.tla day walk")
    dn_pairs = [((r["y"], r["m"], r["d"]), r["dn"]) for r in days]
    _init_worker(dn_pairs)
    if rep["kind"] == "instant":
        byd = {(r["y"], r["m"], r["d"]): r for r in days}
        acc: dict = {}
        for ex in rep["examples"]:
            if "y" not in ex:
                continue
            r = byd[(ex["y"], ex["m"], ex["d"])]
            _instant(acc, r["y"], r["m"], r["d"], r["dn"], r["doy"], ex["sod"], True, None)
            ctx.case(("replay", r["dn"], ex["sod"]))
            ctx.case(("replay-day", r["dn"]))
        ctx.traces_validated += len(rep["examples"])
        for sig, (n, exs) in sorted(acc.items()):
            ctx.violation(sig, f"{n} replayed instants: {sig}; e.g. {json.dumps(exs[0], default=str)}",
                          {"kind": "instant", "count": n, "examples": exs})
        return None
    t = {"kind": "duration", "id": 0, "start": rep["start"], "dt": rep["dt"], "reqs": rep["reqs"],
         "via": rep["via"], "sensors": rep.get("sensors", 1), "span": rep.get("span")}
    r = _run_duration(t)
    r["sensors"] = t["sensors"]
    ctx.case(("duration", t["start"], t["dt"], tuple(t["reqs"]), t["via"]))
    ctx.case(("replay", t["start"]))
    if r["crash"]:
        ctx.violation(f"timed-run-raised-{r['crash'].split(':')[0]}-{t['via']}", r["crash"], rep)
        return None
    _validate_durations(ctx, [r], cal.DayIndex(dn_pairs))
    return None
