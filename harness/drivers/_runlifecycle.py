"""Helpers of G04 (RunLifecycle.tla): one APPLICATION RUN of resonaate per behaviour.

* ``materialise(inp, root, templates)``  lays out the files of one posed input class (JSON init
  message + sub-files, importer database, pre-existing output database, scratch cwd);
* ``child_main(job)``  runs the REAL ``resonaate.main()`` (sys.argv set) or ``resonaate.runResonaate``
  in THIS process, which must be a fresh one: ``run_forked`` forks a pristine template process
  (resonaate imported, nothing executed) per behaviour, ``run_spawned`` starts a new interpreter;
* wrappers installed FROM OUTSIDE (nothing under /repo is edited) record one event per stage of
  the run; the projected outcome (exception class, steps, files, database rows, ray calls, shared
  DB path) is what the driver compares with TLC's prediction.

``ray`` is harness/sched.py's stand-in; this module adds, from outside, the part of ray's contract
the run life-cycle depends on: ``is_initialized`` is a flag set by ``init`` and cleared by
``shutdown`` (a second ``init`` raises as ray's does), ``shutdown`` destroys the named actors (the
key-value store holding the shared DB path lives in one), ``timeline(filename)`` writes a JSON file.
Floats never leave this module: times become whole seconds / step indices.
"""
from __future__ import annotations

import copy
import hashlib
import json
import os
import re
import shutil
import signal
import sqlite3
import sys
import time
import traceback
from datetime import datetime, timedelta

START = "2021-03-30T16:00:00"
PRE_DB_URL = "sqlite://"          # the path an embedding process has set before the run (class dbPre)
N_TARGETS, N_SENSORS = 2, 1
TEMPLATE_STEPS = {60: 6, 600: 20}  # epochs held by the importer databases (per physics step)


# ------------------------------------------------------------------------------------------------
# configuration files of one input class
def scenario_dict(inp: dict) -> dict:
    from harness import scenario_util as su
    dt = inp["dt"]
    cfg = su.base_config(start=START, step=dt, n_steps=TEMPLATE_STEPS[dt], out_step=dt * inp["outEvery"],
                         n_targets=N_TARGETS, n_sensors=N_SENSORS, truth_only=bool(inp["truthOnly"]), model="two_body",
                         decision="MunkresDecision", seed=7)
    cfg["propagation"]["station_keeping"] = False
    cfg["perturbations"] = {"third_bodies": [], "solar_radiation_pressure": False, "general_relativity": False}
    cfg["observation"] = {"background": False}
    if inp["cfg"] == "imported":
        cfg["propagation"]["target_realtime_propagation"] = False
    return cfg


def write_config(inp: dict, d: str) -> str:
    """Write the init message as resonaate's parseConfigFile expects it (main + engine + target + sensor files)."""
    os.makedirs(d, exist_ok=True)
    main = os.path.join(d, "init.json")
    kind = inp["cfg"]
    if kind == "missing":
        return main
    if kind == "badJson":
        with open(main, "w") as f:
            f.write('{"time": {"start_timestamp": "2021-03-30T16:00:00.000Z", ')     # truncated document
        return main
    if kind == "empty":
        with open(main, "w") as f:
            f.write("{}")
        return main
    cfg = scenario_dict(inp)
    eng = cfg.pop("engines")[0]
    targets, sensors = eng.pop("targets"), eng.pop("sensors")
    eng["targets_file"], eng["sensors_file"] = "targets.json", "sensors.json"
    cfg["engines_files"] = ["engine.json"]
    if kind == "schemaInvalid":
        cfg["time"]["physics_step_sec"] = "sixty"            # well-formed JSON, rejected by ScenarioConfig
    if kind == "noEngines":
        del cfg["engines_files"]
    json.dump(cfg, open(main, "w"))
    json.dump(eng, open(os.path.join(d, "engine.json"), "w"))
    json.dump(sensors, open(os.path.join(d, "sensors.json"), "w"))
    if kind != "subMissing":
        json.dump(targets, open(os.path.join(d, "targets.json"), "w"))
    return main


def hours_of(inp: dict):
    """The -t / sim_time_hours value of a time class (None = leave the default)."""
    return None if inp["reqSec"] < 0 else inp["reqSec"] / 3600.0


def default_req_sec(inp: dict) -> int:
    return 1800 if inp["entry"] == "cli" else 10800      # cli.py: default=0.5 ; runResonaate: sim_time_hours=3


def materialise(inp: dict, root: str, templates: dict) -> dict:
    """Files of one behaviour under `root`; returns the job description for the child."""
    cwd, ind, outd = (os.path.join(root, x) for x in ("cwd", "in", "out"))
    for p in (cwd, ind, outd):
        os.makedirs(p, exist_ok=True)
    job = {"inp": inp, "root": root, "cwd": cwd, "init": write_config(inp, ind), "db": None, "imp": None,
           "existing": None, "db_rel": None}
    if inp["db"] == "newInDir":
        job["db"] = os.path.join(outd, "run.sqlite3")
    elif inp["db"] == "newInMissingDir":
        job["db_rel"] = os.path.join("results", "a", "run.sqlite3")          # relative to the cwd
        job["db"] = os.path.join(cwd, job["db_rel"])
    elif inp["db"] == "existing":
        job["db"] = os.path.join(outd, "earlier.sqlite3")
        shutil.copy(templates[str(inp["dt"])], job["db"])                   # a database of an earlier run
        job["existing"] = job["db"]
    if inp["imp"] == "existing":
        job["imp"] = os.path.join(ind, "importer.sqlite3")
        shutil.copy(templates[str(inp["dt"])], job["imp"])
    elif inp["imp"] == "missing":
        job["imp"] = os.path.join(ind, "no_such_importer.sqlite3")
    return job


# ------------------------------------------------------------------------------------------------
# projection of files
def sha(path):
    if not path or not os.path.isfile(path):
        return None
    return hashlib.sha256(open(path, "rb").read()).hexdigest()


def db_projection(path, dt) -> dict:
    """What an SQLite output file holds, as small integers: step indices that have truth / estimate rows."""
    if not path or not os.path.isfile(path):
        return {"file": "absent"}
    out = {"file": "created"}
    try:
        con = sqlite3.connect(f"file:{path}?mode=ro", uri=True, timeout=10)
        try:
            tabs = {r[0] for r in con.execute("SELECT name FROM sqlite_master WHERE type='table'")}
            if "epochs" not in tabs:
                out["file"] = "empty" if not tabs else "other"
                return out
            t0 = datetime.fromisoformat(START)

            def idx(iso):
                s = (datetime.fromisoformat(iso) - t0).total_seconds()
                q = s / dt
                return int(round(q)) if abs(q - round(q)) * dt < 1e-3 else -2

            ep = {r[0]: idx(r[1]) for r in con.execute("SELECT julian_date, timestampISO FROM epochs")}
            out["epochRows"] = len(ep)
            out["agents"] = con.execute("SELECT COUNT(*) FROM agents").fetchone()[0]
            for tab, key in (("truth_ephemerides", "truth"), ("estimate_ephemerides", "est")):
                rows = con.execute(f"SELECT julian_date, COUNT(*) FROM {tab} GROUP BY julian_date").fetchall()
                out[key] = sorted(ep.get(jd, -3) for jd, _n in rows)
                out[key + "PerEpoch"] = sorted({n for _jd, n in rows})
            out["obs"] = con.execute("SELECT COUNT(*) FROM observations").fetchone()[0]
        finally:
            con.close()
    except sqlite3.DatabaseError as ex:
        out["file"] = "unreadable"
        out["error"] = str(ex)[:200]
    return out


_TS = r"\d{4}-\d\d-\d\dT\d\d-\d\d-\d\d\d*"


def classify_tree(cwd: str, job: dict) -> list:
    """Names of what exists under the cwd, timestamps abstracted."""
    out = []
    for base, dirs, files in os.walk(cwd):
        rel = os.path.relpath(base, cwd)
        for n in sorted(dirs) + sorted(files):
            p = n if rel == "." else os.path.join(rel, n)
            isdir = os.path.isdir(os.path.join(cwd, p))
            if re.fullmatch(rf"timeline_{_TS}\.json", p):
                c = "timeline"
            elif p == "db" and isdir:
                c = "defaultDbDir"
            elif re.fullmatch(rf"db/resonaate_{_TS}\.sqlite3", p):
                c = "defaultDbFile"
            elif job.get("db_rel") and isdir and (job["db_rel"] + "/").startswith(p + "/"):
                c = "givenDbDir"
            elif job.get("db_rel") and p == job["db_rel"]:
                c = "givenDbFile"
            else:
                c = "other:" + p
            out.append(c)
    return sorted(set(out))


def default_db_file(cwd: str):
    d = os.path.join(cwd, "db")
    if os.path.isdir(d):
        fs = sorted(f for f in os.listdir(d) if f.endswith(".sqlite3"))
        if fs:
            return os.path.join(d, fs[-1])
    return None


# ------------------------------------------------------------------------------------------------
# the run itself (executes in a process of its own)
class _Rec:
    def __init__(self, job):
        self.job = job
        self.inp = job["inp"]
        self.dt = job["inp"]["dt"]
        self.ev: list[dict] = []
        self.ray = {"init": 0, "shutdown": 0, "timeline": 0, "up": False}
        self.phase = "pre"
        self.app = None
        self.t0 = datetime.fromisoformat(START)
        self.imp_before = sha(job["imp"])
        self.prop_emitted = True

    def emit(self, name, **kw):
        kw["ev"] = name
        self.ev.append(kw)

    def db_path(self):
        return self.job["db"] or default_db_file(self.job["cwd"])

    def dbp(self):
        if self.job["existing"]:            # the pre-existing file is not this run's database (judged by its hash)
            return {"file": "absent"}
        return db_projection(self.db_path(), self.dt)

    def imp_state(self):
        """none | absent | same | created | modified (against the hash taken before the run)."""
        p = self.job["imp"]
        if not p:
            return "none"
        if not os.path.isfile(p):
            return "absent"
        if self.imp_before is None:
            return "created"
        return "same" if sha(p) == self.imp_before else "modified"

    def k_of_clock(self, app):
        s = (app.clock.datetime_epoch - self.t0).total_seconds()
        q = s / self.dt
        return int(round(q)) if abs(q - round(q)) * self.dt < 1e-3 else -2


class _Injected(RuntimeError):
    """The 'other exception' raised in step j."""


def _exc_name(ex) -> str:
    return "RuntimeError" if isinstance(ex, _Injected) else type(ex).__name__


def _install_ray(rec: _Rec):
    from harness import sched
    m = sched.install()

    def is_initialized():
        if rec.phase == "dictbuild":
            rec.emit("RayCheck", up=bool(rec.ray["up"]))
        return rec.ray["up"]

    def init(*a, **k):
        if rec.ray["up"]:
            raise RuntimeError("Maybe you called ray.init twice by accident?")
        rec.ray["up"] = True
        if rec.phase != "pre":
            rec.ray["init"] += 1
            rec.emit("RayInit")

    def shutdown(*a, **k):
        rec.ray["up"] = False
        rec.ray["shutdown"] += 1
        sched._ACTORS.clear()               # named actors die with the cluster  # noqa: SLF001
        rec.emit("RayShutdown")

    def timeline(filename=None, *a, **k):
        rec.ray["timeline"] += 1
        if filename:
            with open(filename, "w") as f:  # ray.timeline(filename=...) dumps the profiling events there
                f.write("[]")
        rec.emit("Timeline", cwd_file=bool(filename) and not os.path.isabs(filename))

    m.is_initialized, m.init, m.shutdown, m.timeline = is_initialized, init, shutdown, timeline
    return m


def kvs_db_path():
    """The shared DB path as the key-value-store actor holds it (None when there is no actor)."""
    from harness import sched
    h = sched._ACTORS.get("resonaate-kvs-actor")  # noqa: SLF001
    if h is None:
        return None
    return h._obj._key_value_store.get("db_path")  # noqa: SLF001



def _install_wrappers(rec: _Rec):
    """One event per stage; every wrapper re-raises what the real function raised."""
    import resonaate
    import resonaate.common.cli as cli
    import resonaate.data as rdata
    import resonaate.physics.time.conversions as conv
    import resonaate.scenario as rscn
    from resonaate.common.logger import Logger
    from resonaate.scenario.config import ScenarioConfig
    from resonaate.scenario.scenario import Scenario
    from resonaate.scenario.scenario_builder import ScenarioBuilder

    inp = rec.inp

    def staged(name, fn, post=None, pre=None):
        def w(*a, **k):
            if pre:
                pre(*a, **k)
            try:
                r = fn(*a, **k)
            except BaseException as ex:  # noqa: BLE001
                rec.emit(name, ok=False, exc=_exc_name(ex), **(post(None, a, k) if post else {}))
                raise
            rec.emit(name, ok=True, exc="", **(post(r, a, k) if post else {}))
            return r
        w.__wrapped__ = fn
        return w

    # -- cli
    real_parser = cli.getCommandLineParser

    def parser_w():
        p = real_parser()
        real_parse = p.parse_args

        def parse_w(*a, **k):
            try:
                ns = real_parse(*a, **k)
            except SystemExit as ex:
                rec.emit("ParseArgs", ok=False, exc="SystemExit", code=int(ex.code or 0))
                raise
            rec.emit("ParseArgs", ok=True, exc="", code=0, hoursMs=int(round(ns.sim_time_hours * 3600000)),
                     db=ns.db_path is not None, imp=ns.importer_db_path is not None, debug=bool(ns.debug_mode),
                     initAbs=os.path.isabs(ns.init_msg))
            return ns
        p.parse_args = parse_w
        return p
    cli.getCommandLineParser = parser_w

    # -- runResonaate
    real_run = resonaate.runResonaate

    def run_w(init_message, sim_time_hours=3, internal_db_path=None, importer_db_path=None, debug_mode=False):
        rec.phase = "run"
        rec.emit("RunBegin", hoursMs=int(round(sim_time_hours * 3600000)), db=internal_db_path is not None,
                 imp=importer_db_path is not None, debug=bool(debug_mode))
        return real_run(init_message, sim_time_hours=sim_time_hours, internal_db_path=internal_db_path,
                        importer_db_path=importer_db_path, debug_mode=debug_mode)
    resonaate.runResonaate = run_w

    # -- build
    real_file_build = rscn.buildScenarioFromConfigFile

    def file_build_w(*a, **k):
        from resonaate.common.behavioral_config import BehavioralConfig
        rec.emit("BuildBegin", debugMode=bool(BehavioralConfig.getConfig().debugging.ParallelDebugMode))
        return real_file_build(*a, **k)
    rscn.buildScenarioFromConfigFile = file_build_w

    real_dict_build = rscn.buildScenarioFromConfigDict

    def dict_build_w(*a, **k):
        rec.phase = "dictbuild"
        try:
            return real_dict_build(*a, **k)
        finally:
            rec.phase = "run"
    rscn.buildScenarioFromConfigDict = dict_build_w

    def cdp_post(r, a, k):
        importer = bool(k.get("importer", a[1] if len(a) > 1 else False))
        given = a[0] if a else k.get("path")
        d = {"importer": importer, "given": bool(given), "tree": classify_tree(rec.job["cwd"], rec.job),
             "fileThere": bool(given) and os.path.exists(os.path.abspath(given))}
        if r is not None:
            d["isDefaultName"] = bool(re.search(rf"/db/resonaate_{_TS}\.sqlite3$", r))
            d["dirThere"] = os.path.isdir(os.path.dirname(r[len("sqlite:///"):]))
        return d
    rdata.createDatabasePath = staged("CreateDbPath", rdata.createDatabasePath, cdp_post)

    ScenarioConfig.parseConfigFile = staticmethod(staged("ParseConfig", ScenarioConfig.parseConfigFile))

    def set_post(r, a, k):
        p = kvs_db_path()
        return {"kvs": "unset" if p is None else "pre" if p == PRE_DB_URL else "run"}
    rdata.setDBPath = staged("SetDbPath", rdata.setDBPath, set_post)

    real_cfg_init = ScenarioConfig.__init__

    def cfg_init_w(self, *a, **k):
        if rec.phase != "dictbuild":
            return real_cfg_init(self, *a, **k)
        try:
            real_cfg_init(self, *a, **k)
        except BaseException as ex:  # noqa: BLE001
            rec.emit("Validate", ok=False, exc=_exc_name(ex))
            raise
        rec.emit("Validate", ok=True, exc="")
    ScenarioConfig.__init__ = cfg_init_w

    def built_post(r, a, k):
        return {"dbp": rec.dbp(), "imp": rec.imp_state()}

    real_builder_init = ScenarioBuilder.__init__

    def builder_w(self, *a, **k):
        try:
            real_builder_init(self, *a, **k)
        except BaseException as ex:  # noqa: BLE001
            rec.emit("Builder", ok=False, exc=_exc_name(ex), **built_post(None, a, k))
            raise
        rec.emit("Builder", ok=True, exc="", **built_post(None, a, k))
    ScenarioBuilder.__init__ = builder_w

    real_scn_init = Scenario.__init__

    def scn_init_w(self, *a, **k):
        rec.app = self
        rec.phase = "scninit"
        try:
            real_scn_init(self, *a, **k)
        except BaseException as ex:  # noqa: BLE001
            rec.emit("ScenarioInit", ok=False, exc=_exc_name(ex), **built_post(None, a, k))
            raise
        finally:
            rec.phase = "run"
        rec.emit("ScenarioInit", ok=True, exc="", **built_post(None, a, k))
    Scenario.__init__ = scn_init_w

    # -- target date
    real_target = conv.getTargetJulianDate

    def target_w(start_jd, jump_delta):
        r = real_target(start_jd, jump_delta)
        us = jump_delta // timedelta(microseconds=1)
        rec.emit("ComputeTarget", deltaMs=int(us // 1000), wholeSec=bool(us % 1000000 == 0))
        return r
    conv.getTargetJulianDate = target_w

    # -- propagation
    real_prop = Scenario.propagateTo

    def prop_w(self, target_time):
        # the request as the scenario sees it, in whole seconds (authoritative: datetime arithmetic)
        from resonaate.physics.time.stardate import julianDateToDatetime
        req = (julianDateToDatetime(target_time) - rec.t0).total_seconds() - (self.clock.datetime_epoch - rec.t0).total_seconds()
        # PropagateBegin is emitted when the branch taken is known: at the first stepForward (ok) or when
        # propagateTo raises / returns before any step
        rec.prop_emitted = False
        rec.prop_req = int(round(req))
        try:
            real_prop(self, target_time)
        except BaseException as ex:  # noqa: BLE001
            if not rec.prop_emitted:
                rec.prop_emitted = True
                rec.emit("PropagateBegin", reqSec=rec.prop_req, ok=False, exc=_exc_name(ex))
            rec.emit("PropagateRaise", exc=_exc_name(ex), k=rec.k_of_clock(self))
            raise
        if not rec.prop_emitted:
            rec.prop_emitted = True
            rec.emit("PropagateBegin", reqSec=rec.prop_req, ok=True, exc="")
        rec.emit("PropagateEnd", k=rec.k_of_clock(self))
    Scenario.propagateTo = prop_w

    real_step = Scenario.stepForward
    calls = [0]

    def step_w(self):
        calls[0] += 1
        if not rec.prop_emitted:
            rec.prop_emitted = True
            rec.emit("PropagateBegin", reqSec=rec.prop_req, ok=True, exc="")
        if inp["injKind"] != "none" and calls[0] == inp["injStep"]:
            ex = KeyboardInterrupt() if inp["injKind"] == "kbd" else _Injected("injected failure")
            rec.emit("StepRaise", exc="KeyboardInterrupt" if inp["injKind"] == "kbd" else "RuntimeError",
                     k=rec.k_of_clock(self), injected=True)
            raise ex
        try:
            real_step(self)
        except BaseException as ex:  # noqa: BLE001
            rec.emit("StepRaise", exc=_exc_name(ex), k=rec.k_of_clock(self), injected=False)
            raise
        rec.emit("Step", k=rec.k_of_clock(self))
    Scenario.stepForward = step_w

    real_save = Scenario.saveDatabaseOutput

    def save_w(self):
        real_save(self)
        if rec.phase != "scninit":
            rec.emit("Save", k=rec.k_of_clock(self), dbp=rec.dbp())
    Scenario.saveDatabaseOutput = save_w

    real_shutdown = Scenario.shutdown

    def shutdown_w(self):
        rec.emit("ShutdownBegin")
        real_shutdown(self)
    Scenario.shutdown = shutdown_w

    # -- the two log lines of the else / except branches of runResonaate
    real_ga = Logger.__getattr__          # resonaate's Logger delegates to a logging.Logger through __getattr__

    def ga_w(self, name):
        attr = real_ga(self, name)
        if name not in ("info", "warning"):
            return attr

        def log_w(msg, *a, **k):
            if msg == "Simulation complete":
                rec.emit("LogComplete")
            elif msg == "Simulation terminated":
                rec.emit("LogTerminated")
            return attr(msg, *a, **k)
        return log_w
    Logger.__getattr__ = ga_w


def child_main(job: dict) -> dict:
    """Run one behaviour in THIS (fresh) process and return the projected record."""
    import logging
    inp = job["inp"]
    rec = _Rec(job)
    os.chdir(job["cwd"])
    logf = open(os.path.join(job["root"], "run.log"), "w")
    os.dup2(logf.fileno(), 1)
    os.dup2(logf.fileno(), 2)
    _install_ray(rec)
    logging.disable(logging.CRITICAL)
    import ray

    import resonaate
    from resonaate.common.behavioral_config import BehavioralConfig
    before = {"existing": sha(job["existing"])}
    # ---- environment classes (state of the embedding process before the run)
    if inp["rayPre"]:
        ray.init()
    if inp["dbPre"]:
        from resonaate.data import setDBPath
        setDBPath(PRE_DB_URL)
    _install_wrappers(rec)
    rec.phase = "start"
    outcome, detail = "completed", ""
    hours = hours_of(inp)
    try:
        if inp["entry"] == "cli":
            argv = ["resonaate", job["init"]]
            if hours is not None:
                argv += ["-t", repr(hours)]
            if job["db"]:
                argv += ["-d", job["db_rel"] or job["db"]]
            if job["imp"]:
                argv += ["-i", job["imp"]]
            if inp["debug"]:
                argv += ["--debug"]
            sys.argv = argv
            resonaate.main()
        else:
            kw = {}
            if hours is not None:
                kw["sim_time_hours"] = hours
            if job["db"]:
                kw["internal_db_path"] = job["db_rel"] or job["db"]
            if job["imp"]:
                kw["importer_db_path"] = job["imp"]
            if inp["debug"]:
                kw["debug_mode"] = True
            resonaate.runResonaate(job["init"], **kw)
    except BaseException as ex:  # noqa: BLE001
        outcome = _exc_name(ex)
        detail = (f"{ex}"[:300] + " | " + traceback.format_exc()[-1200:])
    p = kvs_db_path()
    app = rec.app
    res = {
        "inp": inp,
        "outcome": outcome,
        "detail": detail,
        "ev": rec.ev,
        "ray": rec.ray,
        "kvs": "unset" if p is None else "pre" if p == PRE_DB_URL else "run",
        "debugMode": bool(BehavioralConfig.getConfig().debugging.ParallelDebugMode),
        "tree": classify_tree(job["cwd"], job),
        "dbp": rec.dbp(),
        "imp": rec.imp_state(),
        "existing": "none" if not job["existing"] else ("same" if sha(job["existing"]) == before["existing"] else "modified"),
        "steps": sum(1 for e in rec.ev if e["ev"] == "Step"),
        "clockK": rec.k_of_clock(app) if app is not None and hasattr(app, "clock") else -1,
    }
    return res


def _child_entry(job, out_path):
    try:
        res = child_main(job)
    except BaseException:  # noqa: BLE001
        res = {"inp": job["inp"], "harness_error": traceback.format_exc()[-3000:]}
    with open(out_path, "w") as f:
        json.dump(res, f)


def warm(_i=0):
    """Make this process a pristine template: resonaate imported under the stand-in, nothing executed."""
    from harness import scenario_util  # noqa: F401
    import resonaate  # noqa: F401
    import resonaate.common.cli  # noqa: F401
    import resonaate.data  # noqa: F401
    import resonaate.scenario  # noqa: F401
    import resonaate.scenario.scenario  # noqa: F401
    import resonaate.scenario.scenario_builder  # noqa: F401
    return 0


def run_forked(args):
    """(inp, scratch root, templates, timeout) -> record; the behaviour runs in a forked copy of the template."""
    inp, root, templates, timeout = args
    warm()
    shutil.rmtree(root, ignore_errors=True)
    job = materialise(inp, root, templates)
    out_path = os.path.join(root, "result.json")
    t0 = time.time()
    pid = os.fork()
    if pid == 0:
        try:
            _child_entry(job, out_path)
        finally:
            os._exit(0)
    deadline = t0 + timeout
    while True:
        done, _st = os.waitpid(pid, os.WNOHANG)
        if done:
            break
        if time.time() > deadline:
            os.kill(pid, signal.SIGKILL)
            os.waitpid(pid, 0)
            return {"inp": inp, "harness_error": f"timeout after {timeout}s", "wall": time.time() - t0}
        time.sleep(0.01)
    try:
        res = json.load(open(out_path))
    except Exception as ex:  # noqa: BLE001
        log = ""
        try:
            log = open(os.path.join(root, "run.log")).read()[-1500:]
        except OSError:
            pass
        res = {"inp": inp, "harness_error": f"no result: {ex}; log: {log}"}
    res["wall"] = round(time.time() - t0, 2)
    res["how"] = "fork"
    shutil.rmtree(root, ignore_errors=True)
    return res


def run_spawned(args):
    """Same, in a brand-new interpreter (python -m harness.drivers._runlifecycle job.json out.json)."""
    import subprocess
    inp, root, templates, timeout = args
    shutil.rmtree(root, ignore_errors=True)
    job = materialise(inp, root, templates)
    jp, op = os.path.join(root, "job.json"), os.path.join(root, "result.json")
    json.dump(job, open(jp, "w"))
    t0 = time.time()
    try:
        subprocess.run([sys.executable, "-W", "ignore", "-m", "harness.drivers._runlifecycle", jp, op],
                       timeout=timeout, capture_output=True, cwd=os.path.dirname(os.path.dirname(os.path.dirname(__file__))))
        res = json.load(open(op))
    except Exception as ex:  # noqa: BLE001
        res = {"inp": inp, "harness_error": f"spawned run failed: {ex}"}
    res["wall"] = round(time.time() - t0, 2)
    res["how"] = "spawn"
    shutil.rmtree(root, ignore_errors=True)
    return res


def _template_child(dt, path):
    """Reference run through the scenario API (not through the entry point under test): truth-only, every step output."""
    import logging
    from harness import scenario_util as su
    logging.disable(logging.CRITICAL)
    inp = {"dt": dt, "outEvery": 1, "truthOnly": True, "cfg": "valid"}
    app = su.build(scenario_dict(inp), db_path=su.file_db_url(path))
    su.run_for(app, TEMPLATE_STEPS[dt] * dt)


def make_template(args):
    """An output database of a real truth-only run: used as importer database and as the 'earlier run' file.

    Returns {"path": ..., "error": None | text}.  When the reference run fails (a defect in the code under test) a
    well-formed but empty SQLite file is supplied instead, so that the remaining input classes can still be posed."""
    dt, path, timeout = args
    warm()
    if os.path.exists(path):
        os.remove(path)
    pid = os.fork()
    if pid == 0:
        code = 0
        try:
            devnull = os.open(os.devnull, os.O_WRONLY)
            os.dup2(devnull, 1)
            os.dup2(devnull, 2)
            _template_child(dt, path)
        except BaseException:  # noqa: BLE001
            with open(path + ".err", "w") as f:
                f.write(traceback.format_exc()[-2000:])
            code = 1
        finally:
            os._exit(code)
    t0 = time.time()
    err = None
    while True:
        done, st = os.waitpid(pid, os.WNOHANG)
        if done:
            if st != 0:
                try:
                    err = open(path + ".err").read()
                except OSError:
                    err = f"reference run exited with status {st}"
            break
        if time.time() - t0 > timeout:
            os.kill(pid, signal.SIGKILL)
            os.waitpid(pid, 0)
            err = "reference run timed out"
            break
        time.sleep(0.02)
    if err is None:
        proj = db_projection(path, dt)
        want = list(range(TEMPLATE_STEPS[dt] + 1))
        if proj.get("truth") != want or proj.get("truthPerEpoch") != [N_TARGETS + N_SENSORS]:
            err = f"reference run wrote {proj}, expected truth rows for steps {want}"
    if err is not None:
        if os.path.exists(path):
            os.remove(path)
        con = sqlite3.connect(path)
        con.execute("CREATE TABLE placeholder (x INTEGER)")
        con.commit()
        con.close()
    return {"path": path, "error": err}


if __name__ == "__main__":
    _job = json.load(open(sys.argv[1]))
    _child_entry(_job, sys.argv[2])
    os._exit(0)
