"""C16 - filter updates are invariant to angle representation and observation order.

1. spec/Angles.tla (TLC, exhaustive): residual machine - every pair of angles on Z_24, turn
   offsets and both branches, the three steps of maths.residual / maths.vecResiduals, with
   the helper identities as invariants; mean machine - weighted lists (negative centre
   weight included) at every centre, exact circular mean in Q(sqrt2, sqrt3).
   spec -> impl: every "done" state is replayed into the REAL helpers of
   resonaate.physics.maths (wrapAngle2Pi, wrapAngleNegPiPi, residual, residuals,
   vecWrapAngle2Pi, vecWrapAngleNeg, vecResiduals, angularMean); ticks -> radians.
   Every posed weighted list is replayed a second time as a TIGHT CLUSTER (offsets shrunk to 1e-9 rad,
   straddling the seam at ticks 0 and 12) with the spec's weights and with weights of huge
   cancellation (2-norm-normalised resultant ~1e-9, as for sigma-point weights of alpha <= 1e-4):
   the mean is defined whenever the resultant is not zero; its direction is computed without
   cancellation in the frame rotated to the centre.
2. spec/ObsGroup.tla (TLC): behaviours of the symmetry group (AddTurns, MoveSeam, Reexpress,
   Remodel, Permute - all 24 orders) on a stack of four mixed observations; the action
   property GroupKeepsPosterior is checked on every transition.
   spec -> impl: every "updated" state is replayed into a REAL UnscentedKalmanFilter.update
   with real Measurement / Observation objects on a two-body state whose azimuth sits on or
   next to the 0/360 seam (wrap point of the real Azimuth) or the +-180 seam (same function,
   wrap point moved); est_x, est_p and the innovation must equal those of the canonical
   stack of the behaviour; angular innovations must lie in (-pi, pi].
   Behaviours with Continue are SEQUENCES of updates of one filter instance (group actions or a
   relayout of equal total dimension in between, range innovations of several km, seam azimuths):
   the instance's result must equal that of a fresh instance fed the same prior and stack.
   Stacks include four sensors of ONE sensor type with different R (and different dimensions);
   tunings include alpha = 1e-4 and 1e-5 (centre weight -2e8 / -2e10).
   The same stacks (all orders, turn offsets, wrap-point moves, one-type sensors with different R and
   positions) are replayed into the second filter family, a REAL GeneticParticleFilter with a seeded
   population (resample() of the instance stubbed: it is random): each block of the stacked particle
   residuals must equal the residuals of that observation alone, angular residuals lie in (-pi, pi],
   residuals / scores / innovation / est_x / est_p equal those of the canonical stack.
   Every call into the real code is guarded: an exception on a legal call is a violation
   ("<helper>-raises:<Exc>", "ukf-update-raises:<Exc>"), also inside the worker processes.
3. Spec mutants: the two as-coded deviations of Angles.tla must be refuted by TLC.
"""
from __future__ import annotations

import json
import math
import multiprocessing
from concurrent.futures import ThreadPoolExecutor
from fractions import Fraction

import numpy as np

from .. import tlc
from ..core import Ctx
from . import _angles as A

LEVEL = "model_checking"
TOL = 1e-9
TOL_PERM = 1e-7
PHASES = (0.0, 1.0e-3, -2.5e-7)          # common sub-tick offsets (relation: rotation equivariance)
EPS = float(np.finfo(float).eps)
MICRO = 1.0e-9                           # rad per offset unit of the tight-cluster replay of the mean machine

RES_MUTANT_CFG = """SPECIFICATION SpecRes
CONSTANTS Algs = {"vec"} VecReduceAsCoded = %s VecRecentreAsCoded = %s
CONSTANT TurnsA <- Turns1
CONSTANT TurnsB <- Turns0
CONSTANT MOffs <- OffsQuick
CONSTANT MW0 <- W0Quick
CONSTANT MW1 <- W1All
CONSTANT MTurns <- MTurnsQuick
CONSTANT MRefCentres <- RefCentresQuick
CONSTANTS MMaxLen = 1 MMaxGroup = 0
INVARIANT ReducedInRange
INVARIANT ResidualInRange
INVARIANT ResidualCorrect
"""


# ------------------------------------------------------------------------------------------------
# helper level
# ------------------------------------------------------------------------------------------------
class HelperReplay:
    def __init__(self, ctx: Ctx):
        from resonaate.physics import maths
        self.ctx = ctx
        self.m = maths
        self.seen: set = set()
        self.n = 0
        self._frac: dict = {}
        self._oracle: dict = {}
        self.phases = PHASES[:2] if ctx.quick else PHASES
        self.counts = {"seam_exact": 0, "seam_near": 0, "half_turn_pairs": 0}

    # -- one scalar result against the exact value of the actual float input -----------------
    def check(self, func: str, r, exact: Fraction, lo: float, hi: float, lo_open: bool, direct: bool, inp: dict):
        """`exact` is the exact wrap of the actual float input; `direct` says that every intermediate
        operation of the helper is exact for this input (then an input on the seam is decided by the
        documented range); otherwise results within 1e-9 of a seam are accepted on either side."""
        if r is None:
            return          # the helper raised: already reported by call()
        try:
            r = float(r)
        except Exception as ex:  # noqa: BLE001
            self.ctx.violation(f"{func}-output-unusable:{type(ex).__name__}", f"{func} returned {r!r}", inp)
            return
        e = float(exact)
        on_seam = exact == (A.F_PI if lo_open else 0)
        if not (lo - TOL <= r <= hi + TOL):
            if lo == 0.0:
                sig, what = f"{func}-result-outside-0-2pi", f"{func} returned {r!r}, documented range is [0, 2pi)"
            else:
                sig, what = f"{func}-out-of-range", f"{func} returned {r!r}, documented range is (-pi, pi]"
            self.ctx.violation(sig, what, dict(inp, got=r, exact=e))
        elif not (A.circ_dist(r, e) <= TOL):
            self.ctx.violation(f"{func}-value", f"{func} returned {r!r}, exact value {e!r}", dict(inp, got=r, exact=e))
        elif on_seam:
            self.counts["seam_exact"] += 1
            if direct and abs(r - e) > TOL:
                if lo_open and r == -A.PI:
                    sig, what = (f"{func}-returns-minus-pi-at-half-turn",
                                 f"{func} returned -pi for an exact half turn, documented range is (-pi, pi]")
                else:
                    sig, what = f"{func}-wrong-side-of-seam", f"{func} returned {r!r} for an input that denotes exactly {e!r}"
                self.ctx.violation(sig, what, dict(inp, got=r, exact=e))
        elif min(abs(e - lo), abs(e - hi)) <= TOL:
            self.counts["seam_near"] += 1    # not on the seam but within 1e-9 of it: both sides accepted
        elif not ((r > lo if lo_open else r >= lo) and (r <= hi if lo_open else r < hi)):
            self.ctx.violation(f"{func}-out-of-range", f"{func} returned {r!r} outside its documented range",
                               dict(inp, got=r, exact=e))

    def call(self, name: str, inp: dict, *args, **kw):
        """Call a REAL helper; an exception on a legal input is a finding, never a driver crash."""
        try:
            return getattr(self.m, name)(*args, **kw)
        except Exception as ex:  # noqa: BLE001
            self.ctx.violation(f"{name}-raises:{type(ex).__name__}", f"{name} raised {type(ex).__name__}: {ex} on a legal input",
                               dict(inp, exception=repr(ex)))
            return None

    def _fr(self, x: float) -> Fraction:
        f = self._frac.get(x)
        if f is None:
            f = self._frac[x] = Fraction(x)
        return f

    def wraps(self, ra: int, w1: int, wn: int, alg: str):
        key = ("w", alg, ra)
        if key in self.seen:
            return
        self.seen.add(key)
        m = self.m
        for ph in PHASES:
            x = A.tick_value(ra) + ph
            fx = self._fr(x)
            e2, en = A.exact_wrap2pi(fx), A.exact_wrapneg(fx)
            if A.circ_dist(float(e2), w1 * A.TAU + ph) > 1e-11 or A.circ_dist(float(en), wn * A.TAU + ph) > 1e-11:
                raise tlc.MachineryError(f"oracles disagree on wrap of {ra} ticks: spec {w1},{wn}, exact {float(e2)},{float(en)}")
            inp = {"ticks": ra, "phase": ph, "x": x}
            if alg == "scalar":
                r2 = self.call("wrapAngle2Pi", inp, x)
                self.check("wrapAngle2Pi", r2, e2, 0.0, A.TWOPI, False, True, inp)
                rn = self.call("wrapAngleNegPiPi", inp, x)
                self.check("wrapAngleNegPiPi", rn, en, -A.PI, A.PI, True, True, inp)
                # idempotence on the implementation's own output
                for f, r in (("wrapAngle2Pi", r2), ("wrapAngleNegPiPi", rn)):
                    rr = None if r is None else self.call(f, inp, float(r))
                    if rr is not None and abs(float(rr) - float(r)) > TOL:
                        self.ctx.violation(f"{f}-not-idempotent", f"{f}({f}(x)) = {float(rr)!r} but {f}(x) = {float(r)!r}", inp)
            else:
                r2 = self.call("vecWrapAngle2Pi", inp, np.array([x, x]))
                self.check("vecWrapAngle2Pi", None if r2 is None else r2[1], e2, 0.0, A.TWOPI, False, True, inp)
                rn = self.call("vecWrapAngleNeg", inp, np.array([x, x]))
                self.check("vecWrapAngleNeg", None if rn is None else rn[0], en, -A.PI, A.PI, True, True, inp)
            self.ctx.case(("wrap", alg, ra, ph), nontrivial=True)
            self.n += 1

    def residual(self, st: dict):
        m = self.m
        alg, ra, rb = st["alg"], st["ra"], st["rb"]
        self.wraps(ra, st["w1"], st["wn"], alg)
        key = ("r", alg, ra, rb)
        if key in self.seen:
            return
        self.seen.add(key)
        if abs(st["res"]) == A.N // 2:
            self.counts["half_turn_pairs"] += 1
        for ph in PHASES:
            x, y = A.tick_value(ra) + ph, A.tick_value(rb) + ph
            ok = self._oracle.get((ra, rb, ph))
            if ok is None:
                dxy = self._fr(x) - self._fr(y)
                ex, eyx = A.exact_wrapneg(dxy), A.exact_wrapneg(-dxy)
                # the two oracles (spec integers, exact rationals of the float inputs) must agree
                if A.circ_dist(float(ex), st["res"] * A.TAU) > 1e-11 or A.circ_dist(float(eyx), st["resba"] * A.TAU) > 1e-11:
                    raise tlc.MachineryError(f"oracles disagree on residual({ra},{rb}): spec {st['res']}, exact {float(ex)}")
                # no rounding anywhere in the helper: both values already in [0, 2pi), difference exact
                dr = 0.0 <= x < A.TWOPI and 0.0 <= y < A.TWOPI and dxy == Fraction(x - y)
                ok = self._oracle[(ra, rb, ph)] = (ex, eyx, dr)
            ex, eyx, dr = ok
            inp = {"a_ticks": ra, "b_ticks": rb, "phase": ph, "x": x, "y": y, "spec_residual_ticks": st["res"]}
            if alg == "scalar":
                self.check("residual", self.call("residual", inp, x, y, True), ex, -A.PI, A.PI, True, dr, inp)
                self.check("residual", self.call("residual", inp, y, x, True), eyx, -A.PI, A.PI, True, dr, dict(inp, swapped=True))
                lin = self.call("residual", inp, x, y, False)
                if lin is not None and float(lin) != x - y:
                    self.ctx.violation("residual-linear", "non-angular residual is not the plain difference", inp)
                vec = self.call("residuals", inp, np.array([x, x, y]), np.array([y, y, x]), np.array([True, False, True]))
                if vec is not None and np.shape(vec) != (3,):
                    self.ctx.violation("residuals-output-unusable:shape", f"residuals() returned shape {np.shape(vec)}", inp)
                    vec = None
                if vec is not None:
                    self.check("residuals", vec[0], ex, -A.PI, A.PI, True, dr, inp)
                    self.check("residuals", vec[2], eyx, -A.PI, A.PI, True, dr, dict(inp, swapped=True))
                    if float(vec[1]) != x - y:
                        self.ctx.violation("residuals-flag-order", "residuals() wrapped a component flagged non-angular", inp)
            else:
                # shapes of genetic_particle_filter: (M x P) predicted, (M x 1) observed, (M x 1) flags
                pop = np.array([[x, y], [x, y], [y, x]])
                obs = np.array([[y], [y], [x]])
                flags = np.array([[True], [False], [True]])
                out = self.call("vecResiduals", inp, pop, obs, flags)
                if out is not None and np.shape(out) != (3, 2):
                    self.ctx.violation("vecResiduals-output-unusable:shape", f"vecResiduals returned shape {np.shape(out)}", inp)
                    out = None
                if out is not None:
                    self.check("vecResiduals", out[0, 0], ex, -A.PI, A.PI, True, dr, inp)
                    self.check("vecResiduals", out[2, 0], eyx, -A.PI, A.PI, True, dr, dict(inp, swapped=True))
                    if float(out[1, 0]) != x - y or float(out[1, 1]) != y - y:
                        self.ctx.violation("vecResiduals-flag-order", "vecResiduals wrapped a component flagged non-angular", inp)
                    self.check("vecResiduals", out[0, 1], Fraction(0), -A.PI, A.PI, True, True, dict(inp, same=True))
            self.ctx.case(("res", alg, ra, rb, ph), nontrivial=ra != rb,
                          sample=dict(inp, alg=alg) if (ra, rb, ph) in (((A.N // 2), 0, 0.0), (47, -30, 0.0)) else None)
            self.n += 1

    def mean(self, st: dict):
        m = self.m
        vals, w = st["vals"], st["w"]
        key = ("m", tuple(vals), tuple(w))
        if key in self.seen:
            return
        self.seen.add(key)
        if st["kind"] in ("none", "undecided"):
            self.ctx.case(("mean", tuple(vals), tuple(w)), nontrivial=False)
            self.counts[f"mean_{st['kind']}"] = self.counts.get(f"mean_{st['kind']}", 0) + 1
            return
        wf = np.array(w, dtype=float)
        z = sum(wi * complex(math.cos(v * A.TAU), math.sin(v * A.TAU)) for v, wi in zip(vals, w))
        cond = float(np.abs(wf).sum()) / max(abs(z), 1e-300)
        tol = TOL * max(1.0, cond)
        for ph in self.phases:
            ang = np.array([A.tick_value(v) + ph for v in vals])
            calls = [("weighted", wf)]
            if len(set(w)) == 1 and w[0] > 0:
                calls.append(("unweighted", None))
            for low, high in ((0.0, A.TWOPI), (-A.PI, A.PI)):
                for how, ww in calls:
                    inp = {"ticks": vals, "weights": w, "phase": ph, "low": low, "high": high, "call": how,
                           "spec_mean": [st["kind"], st["m"]]}
                    r = self.call("angularMean", inp, ang, weights=ww, low=low, high=high)
                    if r is None:
                        continue
                    r = float(r)
                    inp["got"] = r
                    if not (low - TOL <= r <= high + TOL):
                        self.ctx.violation("angularMean-out-of-range", f"angularMean returned {r!r} outside [{low}, {high})", inp)
                    elif st["kind"] == "tick":
                        if A.circ_dist(r, st["m"] * A.TAU + ph) > tol:
                            self.ctx.violation("angularMean-value", f"angularMean returned {r!r}, exact mean is tick {st['m']} (+{ph})", inp)
                    else:
                        mid = (st["m"] + 0.5) * A.TAU + ph
                        if abs(math.remainder(r - mid, A.TWOPI)) > A.TAU / 2 + tol:
                            self.ctx.violation("angularMean-sector", f"angularMean returned {r!r}, exact mean lies between ticks {st['m']} and {st['m'] + 1}", inp)
            self.n += 1
        if "off" in st and len(vals) > 1:
            self.tight_cluster(st)
        neg = w[0] < 0
        self.counts["mean_negative_centre"] = self.counts.get("mean_negative_centre", 0) + (1 if neg else 0)
        self.ctx.case(("mean", tuple(vals), tuple(w)), nontrivial=len(vals) > 1,
                      sample={"mean_ticks": vals, "weights": w, "spec": [st["kind"], st["m"]]} if len(self.seen) % 4001 == 0 else None)


    def tight_cluster(self, st: dict):
        """The same posed list with its offsets shrunk from ticks to MICRO radians: a cluster that straddles
        the seam when the centre is tick 0 or 12, (a) with the spec's weights, (b) with weights of huge
        cancellation (w0 - 2M, w1 + M, ..: the 2-norm-normalised resultant is ~1e-9, like sigma-point weights
        of alpha <= 1e-4).  The circular mean is well defined whenever the resultant is not zero; its
        direction is computed in the frame rotated to the centre, where nothing cancels:
        C = sum w - sum w 2 sin^2(d/2), S = sum w sin d with d = exact deviation of each actual float value."""
        m = self.m
        c, offs, ks, ss, w = st["c"], st["off"], st["k"], st["s"], st["w"]
        cf = A.tick_value(c)
        fc = self._fr(cf)
        n = len(w)
        for scheme, big in (("tight-cluster", 0.0), ("cancelling-weights", 1.0e8)):
            ww = [float(x) for x in w]
            if big:
                ww = [ww[0] - (n - 1) * big] + [x + big for x in ww[1:]]
            ang = np.array([A.represent(cf + MICRO * o, k, s) for o, k, s in zip(offs, ks, ss)])
            d = [float(A.exact_wrapneg(Fraction(float(a)) - fc)) for a in ang]
            cc = math.fsum(ww) - math.fsum(x * 2.0 * math.sin(0.5 * di) ** 2 for x, di in zip(ww, d))
            sn = math.fsum(x * math.sin(di) for x, di in zip(ww, d))
            absw = math.fsum(abs(x) for x in ww)
            r = math.hypot(cc, sn)
            if r < 1.0e3 * EPS * absw:
                self.counts["tight_skipped_zero_resultant"] = self.counts.get("tight_skipped_zero_resultant", 0) + 1
                continue          # resultant below rounding noise relative to sum|w|: the mean is undefined
            expected = cf + math.atan2(sn, cc)
            turns = 1 + max(abs(k) for k in ks)
            tol = TOL + 64.0 * EPS * A.TWOPI * turns * absw / r
            wf = np.array(ww)
            for low, high in ((0.0, A.TWOPI), (-A.PI, A.PI)):
                inp = {"centre_tick": c, "offsets_micro": offs, "turns": ks, "branch": ss, "weights": ww, "spec_weights": w, "low": low,
                       "high": high, "values": ang.tolist(), "expected": expected, "tolerance": tol}
                got = self.call("angularMean", inp, ang, weights=wf, low=low, high=high)
                if got is None:
                    continue
                got = float(got)
                inp["got"] = got
                if not (low - TOL <= got <= high + TOL):
                    self.ctx.violation(f"angularMean-out-of-range-{scheme}", f"angularMean returned {got!r} outside [{low}, {high})", inp)
                elif not A.circ_dist(got, expected) <= tol:
                    self.ctx.violation(f"angularMean-value-{scheme}",
                                       f"angularMean returned {got!r} for a cluster within {MICRO * 12:.0e} rad of tick {c}; the "
                                       f"resultant (length {r:.3g}, sum|w| {absw:.3g}) points at {expected!r}", inp)
            self.counts[f"mean_{scheme}"] = self.counts.get(f"mean_{scheme}", 0) + 1
            self.n += 1


# ------------------------------------------------------------------------------------------------
# filter level (runs in forked worker processes)
# ------------------------------------------------------------------------------------------------
_SCENES: dict = {}


def _scene(tuning: str) -> A.Scene:
    if tuning not in _SCENES:
        _SCENES[tuning] = A.Scene(tuning)
    return _SCENES[tuning]


def _classes(stack: list) -> list:
    out = []
    if [o["id"] for o in stack] != sorted(o["id"] for o in stack):
        out.append("permute")
    if any(o["mseam"] == "sym" and "az" in A.KIND_COMPS[o["kind"]] for o in stack):
        out.append("seam-model")
    if any(r["s"] == "sym" for o in stack for r in o["reps"]):
        out.append("seam-input")
    if any(r["k"] != 0 for o in stack for r in o["reps"]):
        out.append("turns")
    return out


def _scaled_err(u: dict, b: dict, perm_idx) -> dict:
    ex = np.abs(u["est_x"] - b["est_x"])
    scale_x = np.concatenate([np.full(3, np.linalg.norm(b["est_x"][:3])), np.full(3, np.linalg.norm(b["est_x"][3:]))])
    sd = np.sqrt(np.abs(np.diag(b["est_p"])))
    ep = np.abs(u["est_p"] - b["est_p"]) / np.outer(sd, sd)
    inn_b = b["innovation"][perm_idx]
    sig = np.array([A.SIGMAS[c] * A.sigma_scale(i) for i, _, c in u["comps"]])
    ei = np.abs(u["innovation"] - inn_b) / np.maximum(np.abs(inn_b), sig)
    return {"est_x": float((ex / scale_x).max()), "est_p": float(ep.max()), "innovation": float(ei.max())}


def _own_checks(out, u, st, rp, tuning):
    """Checks on one update result that need no reference: range, flags, sign of the azimuth innovation."""
    ang = u["innovation"][u["is_angular"]]
    if not bool(((ang > -A.PI) & (ang <= A.PI)).all()):
        out["violations"].append(("ukf-innovation-out-of-range", f"angular innovation outside (-pi, pi]: {ang.tolist()}", rp))
    want = np.array([c in ("az", "el") for _, _, c in u["comps"]])
    if not np.array_equal(want, u["is_angular"]):
        out["violations"].append(("ukf-angular-flags", "is_angular does not flag exactly the azimuth/elevation components", rp))
    for n, (oid, c, comp) in enumerate(u["comps"]):
        if comp == "az":
            o = next(x for x in st if x["id"] == oid)
            v = float(u["innovation"][n])
            if o["u"] != 0 and not (0 < v * o["u"] < A.TAU):
                out["violations"].append(("ukf-innovation-sign", f"azimuth innovation {v!r} of sensor {oid}: the measured value is "
                                          f"{'above' if o['u'] > 0 else 'below'} the predicted one by less than a tick", rp))


def replay_group(task):
    """Never raises across the pool boundary: a failure of the driver itself is returned as text."""
    try:
        return _replay_group(task)
    except Exception:  # noqa: BLE001
        import traceback
        return {"driver_error": traceback.format_exc()[-3000:]}


def _replay_group(task):
    """One base (canonical stack) and all states of its behaviours: returns findings.
    An item is (stack, hist): hist = stacks the SAME filter instance has updated with before."""
    tuning, base_stack, items, count_base = task
    sc = _scene(tuning)
    out = {"violations": [], "cases": [], "worst": {}, "n": 0, "n_seq": 0, "w0": sc.w0, "cond": sc.weight_cond}

    def real(st, hist, rp):
        """The REAL update; an exception of the real code on this legal call is a finding."""
        try:
            return sc.update(st, hist)
        except A.RealCodeRaised as ex:
            out["violations"].append((f"ukf-update-raises:{ex.cls}",
                                      f"update() of a legal stack of {len(st)} simultaneous observations raised {ex.cls}: {ex.msg}",
                                      dict(rp, traceback=ex.tb)))
            return None

    base = real(base_stack, (), {"tuning": tuning, "stack": base_stack, "hist": [], "classes": []})
    floor = 1.0e5 * EPS * sc.weight_cond
    order = {(i, c): n for n, (i, c, _) in enumerate(base["comps"])} if base else {}
    fresh_cache: dict = {}

    def fresh(st, rp):
        k = json.dumps(st, sort_keys=True)
        if k not in fresh_cache:
            fresh_cache[k] = base if st == base_stack else real(st, (), rp)
            out["n"] += 1
        return fresh_cache[k]

    for st, hist in ([(base_stack, [])] if count_base else []) + [tuple(x) for x in items]:
        cls = _classes(st)
        rp = {"tuning": tuning, "stack": st, "hist": hist, "classes": cls}
        u = fresh(st, rp)
        try:
            if hist:
                # ---- the same instance after earlier updates must equal a fresh instance (same prior, same stack)
                v = real(st, hist, rp)
                out["n"] += 1 + len(hist)
                out["n_seq"] += 1
                out["cases"].append((json.dumps([tuning, hist, st], sort_keys=True), True))
                if v is None or u is None:
                    continue
                _own_checks(out, v, st, rp, tuning)
                err = _scaled_err(v, u, list(range(len(u["comps"]))))
                for q, e in err.items():
                    k = ("history", q)
                    out["worst"][k] = max(out["worst"].get(k, 0.0), e)
                    if not e <= 1e-12:
                        out["violations"].append((f"ukf-{q}-depends-on-earlier-update",
                                                  f"{q} after update(s) with other stacks on the same filter instance differs from a "
                                                  f"fresh instance fed the same prior and stack by {e:.3e} (scaled)", dict(rp, error=e)))
                continue
            out["cases"].append((json.dumps([tuning, st], sort_keys=True), bool(cls)))
            if u is None:
                continue
            _own_checks(out, u, st, rp, tuning)
            if st == base_stack or base is None:
                continue
            idx = [order[(i, c)] for i, c, _ in u["comps"]]
            err = _scaled_err(u, base, idx)
            tol = (TOL_PERM if "permute" in cls else TOL) + floor
            for q, e in err.items():
                k = ("+".join(cls), q)
                out["worst"][k] = max(out["worst"].get(k, 0.0), e)
                if not e <= tol:
                    out["violations"].append((f"ukf-{q}-changed-by-{'+'.join(cls)}",
                                              f"{q} differs from the canonical stack's by {e:.3e} (scaled), tolerance {tol:.1e}",
                                              dict(rp, error=e, tolerance=tol)))
        except Exception as ex:  # noqa: BLE001  evaluation of the real filter's outputs
            out["violations"].append((f"ukf-output-unusable:{type(ex).__name__}",
                                      f"the outputs of update() could not be evaluated: {type(ex).__name__}: {ex}", rp))
    return out


# ---- second filter family: the particle filter's measurement side --------------------------------
_PSCENE: list = []


def replay_gpf_group(task):
    try:
        return _replay_gpf_group(task)
    except Exception:  # noqa: BLE001
        import traceback
        return {"driver_error": traceback.format_exc()[-3000:]}


def _replay_gpf_group(task):
    """One canonical stack and the stacks of its behaviours, replayed into a REAL GeneticParticleFilter
    (population fixed by a seed): residual blocks = per-observation residuals in the given order, angular
    residuals in (-pi, pi], group actions leave residuals / scores / innovation / est_x / est_p unchanged
    (Permute permutes the blocks)."""
    _, base_stack, stacks, count_base = task
    if not _PSCENE:
        _PSCENE.append(A.ParticleScene())
    sc = _PSCENE[0]
    out = {"violations": [], "cases": [], "worst": {}, "n": 0, "n_seq": 0, "w0": 0.0, "cond": 1.0, "gpf": True}

    def real(fn, arg, rp):
        try:
            return fn(arg)
        except A.RealCodeRaised as ex:
            out["violations"].append((f"gpf-update-raises:{ex.cls}",
                                      f"the particle filter raised {ex.cls}: {ex.msg} on a legal stack of simultaneous observations",
                                      dict(rp, traceback=ex.tb)))
            return None

    base = real(sc.gpf_update, base_stack, {"filter": "gpf", "stack": base_stack, "classes": []})
    order = {(i, c): n for n, (i, c, _) in enumerate(base["comps"])} if base else {}
    for st in ([base_stack] if count_base else []) + list(stacks):
        cls = _classes(st)
        rp = {"filter": "gpf", "stack": st, "classes": cls}
        out["cases"].append((json.dumps(["gpf", st], sort_keys=True), bool(cls)))
        out["n"] += 1
        u = base if st == base_stack else real(sc.gpf_update, st, rp)
        if u is None:
            continue
        try:
            res = u["residuals"]
            want = np.array([c in ("az", "el") for _, _, c in u["comps"]])
            if not np.array_equal(want, u["is_angular"]):
                out["violations"].append(("gpf-angular-flags", "is_angular does not flag exactly the azimuth/elevation components", rp))
            ang = res[u["is_angular"]]
            if not bool(((ang > -A.PI) & (ang <= A.PI)).all()):
                out["violations"].append(("gpf-residual-out-of-range", "angular particle residual outside (-pi, pi]", rp))
            # block j of the stack = residuals of observation j alone, in the given order
            row = 0
            for o in st:
                blk = real(sc.gpf_single, o, rp)
                nrow = len(A.KIND_COMPS[o["kind"]])
                if blk is not None:
                    e = float(np.abs(res[row:row + nrow] - blk).max())
                    out["worst"][("gpf-block", "residuals")] = max(out["worst"].get(("gpf-block", "residuals"), 0.0), e)
                    if not e <= 1e-12:
                        out["violations"].append(("gpf-residual-block-not-the-observations-own",
                                                  f"rows {row}..{row + nrow - 1} of the stacked particle residuals differ from the residuals "
                                                  f"of sensor {o['id']}'s observation alone by {e:.3e}", dict(rp, sensor=o["id"])))
                row += nrow
            if st == base_stack or base is None:
                continue
            idx = [order[(i, c)] for i, c, _ in u["comps"]]
            sig = np.array([A.SIGMAS[c] * A.sigma_scale(i) for i, _, c in u["comps"]])
            tol = TOL_PERM if "permute" in cls else TOL
            rb = base["residuals"][idx]
            sd = np.sqrt(np.abs(np.diag(base["est_p"])))
            scale_x = np.concatenate([np.full(3, np.linalg.norm(base["est_x"][:3])), np.full(3, np.linalg.norm(base["est_x"][3:]))])
            errs = {
                "residuals": float((np.abs(res - rb) / np.maximum(np.abs(rb), sig[:, None])).max()),
                "scores": float((np.abs(u["scores"] - base["scores"]) / np.maximum(base["scores"], 1e-300)).max()),
                "innovation": float((np.abs(u["innovation"] - base["innovation"][idx])
                                     / np.maximum(np.abs(base["innovation"][idx]), sig)).max()),
                "est_x": float((np.abs(u["est_x"] - base["est_x"]) / scale_x).max()),
                "est_p": float((np.abs(u["est_p"] - base["est_p"]) / np.outer(sd, sd)).max()),
            }
            for q, e in errs.items():
                k = ("gpf-" + "+".join(cls), q)
                out["worst"][k] = max(out["worst"].get(k, 0.0), e)
                if not e <= tol:
                    out["violations"].append((f"gpf-{q}-changed-by-{'+'.join(cls)}",
                                              f"particle filter: {q} differs from the canonical stack's by {e:.3e} (scaled), "
                                              f"tolerance {tol:.1e}", dict(rp, error=e, tolerance=tol)))
        except Exception as ex:  # noqa: BLE001  evaluation of the real filter's outputs
            out["violations"].append((f"gpf-output-unusable:{type(ex).__name__}",
                                      f"the outputs of the particle filter could not be evaluated: {type(ex).__name__}: {ex}", rp))
    return out


def _dispatch(task):
    return replay_gpf_group(task) if task[0] == "gpf" else replay_group(task)


# ------------------------------------------------------------------------------------------------
def _cfg(name: str, ctx: Ctx) -> str:
    return f"{name}_{'quick' if ctx.quick else 'thorough'}.cfg"


def _spec_ok(res, what):
    tlc.require_ok(res, what)
    for inv, states in res.invariant_violations:
        raise tlc.MachineryError(f"{what}: invariant {inv} fails at spec level:\n" + "\n".join(states[-1:]))
    for prop, states in res.property_violations:
        raise tlc.MachineryError(f"{what}: {prop} fails at spec level:\n" + "\n".join(states[-2:]))
    return res


ACTIONS = {
    "seq": ("ObsGroup", ["Continue", "Relayout", "Permute", "Update"]),
    "res": ("Angles", ["PoseA", "PoseB", "AddTurnsA", "AddTurnsB", "MoveSeamA", "MoveSeamB", "Reduce", "Difference", "Recentre"]),
    "mean": ("Angles", ["PoseCentre", "PoseFirst", "AppendMember", "Freeze", "Accumulate", "Locate", "MAddTurns", "MMoveSeam",
                        "MSwap"]),
    "obs": ("ObsGroup", ["PoseTuning", "PoseKinds", "PosePlacement", "PoseSubs", "AddTurns", "MoveSeam", "Reexpress",
                         "Remodel", "Permute", "Update"]),
}


def _coverage(ctx: Ctx, res, which: str):
    mod, need = ACTIONS[which]
    missing = [a for a in need if res.coverage.get(f"{mod}!{a}", (0, 0))[1] == 0]
    if missing:
        raise tlc.MachineryError(f"{mod}.tla ({which}) actions never taken: {missing}")
    ctx.extra.setdefault("action_coverage", {})[which] = {a: res.coverage[f"{mod}!{a}"][1] for a in need}


def run(ctx: Ctx):
    from .. import sched
    sched.install()
    from resonaate.physics import constants as const
    if const.TWOPI != A.TWOPI or const.PI != A.PI:
        raise tlc.MachineryError("float period of the implementation differs from the driver's")
    nproc = max(2, min(8, ctx.cpus // 2))
    pool = multiprocessing.get_context("fork").Pool(nproc)     # forked before any thread exists
    try:
        _run(ctx, pool)
    finally:
        pool.terminate()
        pool.join()


def _run(ctx: Ctx, pool):
    import time
    t0 = time.time()
    phase = {}
    ctx.rule = ("helpers: every (a, b) on Z_24 x turn offsets x both branches (values deduplicated), x 3 common sub-tick "
                "phases; non-trivial = a != b.  mean: every posed weighted list x centre x group action, non-trivial = more "
                "than one member; each also as a tight cluster (1e-9 rad per offset unit) with the posed and with cancelling weights.  filter: every 'updated' state of ObsGroup.tla (tuning x kinds x seam placement x "
                "sub-tick pattern x group word incl. all 24 orders), non-trivial = representation or order differs from "
                "the canonical stack; distinct by (tuning, stack); sequences: one filter instance updated with hist then stack, "
                "compared with a fresh instance (distinct by (tuning, hist, stack)); particle filter: the same stacks, tuning-agnostic "
                "(quick: all bases of the exhaustive configurations, a third of the simulated ones)")
    ctx.assumptions = [
        "one tick = 15 degrees; t ticks -> (t/24) * TWOPI radians; exact value of a helper = exact rational wrap of the "
        "ACTUAL float input with the code's float period; results compared circularly at 1e-9 and against the documented range",
        "seam rule: an input that denotes exactly the included end of the range, with every intermediate operation of the "
        "helper exact (direct wraps; residuals of two values in [0, 2pi) whose float difference is exact), must give that end "
        "(the documented range decides); a result whose exact value is within 1e-9 of a seam without being on it, or whose "
        "intermediates round, is accepted on either side",
        "angularMean: tolerance 1e-9 * max(1, sum|w| / |resultant|); exact mean = tick, or open sector between two ticks",
        "tight clusters: the mean is undefined only for a zero resultant; skipped only when the unnormalised resultant is below "
        "1e3 * eps * sum|w|; expected direction = centre + atan2(sum w sin d, sum w - sum w 2 sin^2(d/2)) with d the exact deviation "
        "of each float value from the centre (math.fsum); tolerance 1e-9 + 64 * eps * 2pi * (1 + max turns) * sum|w| / |resultant|",
        "a real helper or update() raising on a posed (legal) input is a violation of the property, not a machinery error; "
        "sensors of one type carry different noise covariances (sigma scaled 1.0 .. 2.5 by sensor)",
        "filter: scaled errors (est_x per position/velocity norm, est_p per sqrt(Pii Pjj), innovation per max(|value|, sigma)); "
        "tolerance 1e-9 (1e-7 when the order changes) + 1e5 * eps * sum|W| / |sum W| of the sigma-point weights "
        "(default tuning: centre weight -2e6, floor 8.9e-5; alpha = 1: floor 7e-11; alpha = 1e-4: 8.9e-3; alpha = 1e-5: 0.89, "
        "measured noise there 9e-3)",
        "a filter instance that has already processed other stacks must reproduce a fresh instance's result for the same "
        "(prior, stack) to 1e-12 scaled (the computations are identical); successive update() calls share the prior of one predict()",
        "particle filter: population of 10 drawn with a fixed numpy seed from N(predicted state, predicted covariance); the "
        "genetic resample() step is replaced by a no-op on the instance (random draws, argsort of nearly tied scores), so what "
        "is decided is calculateResidualsFromObservations, forecast() scores, and the innovation / est_x / est_p update() forms "
        "from them; tolerances 1e-9 (1e-7 reordered), block equality 1e-12",
        "innovations of exactly half a turn are not posed at filter level (the posterior is discontinuous there)",
        "measured values are synthetic (predicted +- fixed offsets, or exactly the tick value); geometry from the real "
        "Azimuth/Elevation/Range/RangeRate functions; AzimuthSym = real Azimuth with its wrap point moved to +-pi",
    ]
    q = ctx.quick
    ex = ThreadPoolExecutor(6)
    w_small = max(2, ctx.cpus // 4)

    # short runs: C1 compiler only and few GC threads (the machine is shared)
    jopts = "-XX:TieredStopAtLevel=1 -XX:ParallelGCThreads=2" if q else "-XX:ParallelGCThreads=4"

    def tl(module, cfg, name, **kw):
        return ex.submit(tlc.run_tlc, module, cfg, ctx.sub(name), workers=kw.pop("workers", w_small), timeout=3000,
                         java_opts=jopts, **kw)

    f_obs = tl("ObsGroup", _cfg("ObsGroup", ctx), "obs")
    f_seq = tl("ObsGroup", _cfg("ObsGroup_seq", ctx), "obs_seq", coverage=not q)
    f_sim = tl("ObsGroup", _cfg("ObsGroup_sim", ctx), "obs_sim", workers=1, simulate=f"num={30 if q else 300}",
               depth=16 if q else 22, seed=ctx.seed + 1)
    f_res = tl("Angles", _cfg("Angles_res", ctx), "res", coverage=not q)
    f_mean = tl("Angles", _cfg("Angles_mean", ctx), "mean", coverage=not q)
    # thorough only: longer group words with action coverage, and the two spec mutants
    f_spec = None if q else tl("ObsGroup", _cfg("ObsGroup_spec", ctx), "obs_spec", coverage=True)
    f_mut = [] if q else [
        ("VecRecentreAsCoded", "ResidualInRange", tl("Angles", RES_MUTANT_CFG % ("FALSE", "TRUE"), "mut1", workers=1)),
        ("VecReduceAsCoded", "ReducedInRange", tl("Angles", RES_MUTANT_CFG % ("TRUE", "FALSE"), "mut2", workers=1))]

    # ---- filter level: hand the behaviours to the worker processes as soon as TLC is done
    obs = _spec_ok(f_obs.result(), "ObsGroup (replay configuration)")
    ctx.add_tlc(obs, "ObsGroup.tla exhaustive, one group action per behaviour incl. all 24 orders; every updated state replayed")
    seq = _spec_ok(f_seq.result(), "ObsGroup (update sequences)")
    ctx.add_tlc(seq, "ObsGroup.tla exhaustive, two successive updates of ONE filter instance with group actions / relayout between "
                     "them (equal total dimension, different layouts, far range innovations); every updated state replayed")
    sim = _spec_ok(f_sim.result(), "ObsGroup (simulation)")
    ctx.add_tlc(sim, "ObsGroup.tla random behaviours with up to 4 group actions (simulation mode); updated states replayed")
    states = {}
    for st in sorted(obs.tagged("OBS") + seq.tagged("OBS") + sim.tagged("OBS"), key=lambda x: json.dumps(x, sort_keys=True)):
        states.setdefault(json.dumps([st["tuning"], st["hist"], st["stack"]], sort_keys=True), st)
    if not states:
        raise tlc.MachineryError("ObsGroup.tla emitted no state")
    if not any(st["hist"] for st in states.values()):
        raise tlc.MachineryError("ObsGroup.tla emitted no behaviour with two updates of one filter instance")
    groups: dict = {}
    for st in states.values():
        base = A.canonical(st["stack"])
        k = json.dumps([st["tuning"], base], sort_keys=True)
        g = groups.setdefault(k, (st["tuning"], base, []))
        if st["hist"]:
            g[2].append((st["stack"], st["hist"]))
            if st["stack"] != base:
                g[2].append((st["stack"], []))        # its fresh twin is also compared with the canonical stack
        elif st["stack"] != base:
            g[2].append((st["stack"], []))
    tasks = []
    for tuning, base, items in groups.values():      # split big groups so the workers stay balanced
        seen_items, uniq = set(), []
        for it in items:
            k = json.dumps(it, sort_keys=True)
            if k not in seen_items:
                seen_items.add(k)
                uniq.append(it)
        for i in range(0, max(1, len(uniq)), 24):
            tasks.append((tuning, base, uniq[i:i + 24], i == 0))
    # the same behaviours for the particle filter (its measurement side does not depend on the tuning)
    ggroups: dict = {}
    for st in states.values():
        base = A.canonical(st["stack"])
        g = ggroups.setdefault(json.dumps(base, sort_keys=True), (base, {}))
        if st["stack"] != base:
            g[1].setdefault(json.dumps(st["stack"], sort_keys=True), st["stack"])
    gkeys = sorted(ggroups)
    if ctx.quick:                       # quick: the bases of the exhaustive configurations and every third other one
        full = {json.dumps(A.canonical(st["stack"]), sort_keys=True) for st in obs.tagged("OBS") + seq.tagged("OBS")}
        gkeys = [k for n, k in enumerate(gkeys) if k in full or n % 3 == 0]
    n_gpf_tasks = 0
    for k in gkeys:
        base, sts = ggroups[k]
        lst = list(sts.values())
        for i in range(0, max(1, len(lst)), 24):
            tasks.append(("gpf", base, lst[i:i + 24], i == 0))
            n_gpf_tasks += 1
    async_res = pool.map_async(_dispatch, tasks, chunksize=1)
    phase["obsgroup_tlc_done"] = round(time.time() - t0, 1)

    # ---- helper level, in this process, while the workers run the filters
    hr = HelperReplay(ctx)
    res = _spec_ok(f_res.result(), "Angles residual machine")
    ctx.add_tlc(res, "Angles.tla residual machine exhaustive (wrap/residual identities); every done state replayed")
    rs = sorted(res.tagged("RES"), key=lambda x: (x["alg"], x["ra"], x["rb"]))     # TLC's workers print in any order
    if not rs:
        raise tlc.MachineryError("Angles.tla (SpecRes) emitted no state")
    for st in rs:
        hr.residual(st)
    n_res = hr.n
    phase["residual_replay_done"] = round(time.time() - t0, 1)
    mean = _spec_ok(f_mean.result(), "Angles mean machine")
    ctx.add_tlc(mean, "Angles.tla mean machine exhaustive (exact circular mean, equivariance); every done state replayed")
    ms = sorted(mean.tagged("MEAN"), key=lambda x: (x["vals"], x["w"]))
    if not ms:
        raise tlc.MachineryError("Angles.tla (SpecMean) emitted no state")
    for st in ms:
        hr.mean(st)
    ctx.traces_validated += len(rs) + len(ms)
    phase["mean_replay_done"] = round(time.time() - t0, 1)
    ctx.extra["helper_evaluations"] = {"wrap_and_residual_inputs": n_res, "mean_inputs": hr.n - n_res, **hr.counts}

    # ---- spec-level: larger group words, coverage, spec mutants
    if f_spec is not None:
        spec = _spec_ok(f_spec.result(), "ObsGroup (two group actions)")
        ctx.add_tlc(spec, "ObsGroup.tla exhaustive with two group actions per behaviour (action property, invariants)")
        _coverage(ctx, spec, "obs")
        _coverage(ctx, seq, "seq")
        _coverage(ctx, res, "res")
        _coverage(ctx, mean, "mean")
    killed = []
    for const_name, inv, fut in f_mut:
        r = fut.result()
        tlc.require_ok(r, f"spec mutant {const_name}")
        if inv not in [i for i, _ in r.invariant_violations]:
            raise tlc.MachineryError(f"spec mutant {const_name}=TRUE is not refuted by {inv}: the invariant is vacuous")
        killed.append(f"{const_name} -> {inv}")
        ctx.add_tlc(r, f"spec mutant {const_name}=TRUE (must violate {inv})")
    ctx.extra["spec_mutants_killed"] = killed

    # ---- collect the filter results
    worst: dict = {}
    n_upd = 0
    n_gpf = 0
    n_seq = 0
    tun = {}
    for t, out in zip(tasks, async_res.get(timeout=3000)):
        if "driver_error" in out:
            raise tlc.MachineryError("filter replay worker failed (driver, not the implementation):\n" + out["driver_error"])
        if out.get("gpf"):
            n_gpf += out["n"]
        else:
            n_upd += out["n"]
            n_seq += out["n_seq"]
            tun[t[0]] = {"centre_weight": out["w0"], "weight_condition": out["cond"]}
        for key, nontrivial in out["cases"]:
            ctx.case(key, nontrivial=nontrivial)
        for sig, what, rp in out["violations"]:
            ctx.violation(sig, what, rp)
        for k, e in out["worst"].items():
            kk = f"{t[0]}:{k[0]}:{k[1]}"
            worst[kk] = max(worst.get(kk, 0.0), e)
    ctx.traces_validated += n_upd + n_gpf
    ctx.extra["gpf_updates"] = n_gpf
    phase["ukf_replay_done"] = round(time.time() - t0, 1)
    ctx.extra["phase_s"] = phase
    some = next(iter(states.values()))
    ctx.samples.append({"ukf_state": some})
    ctx.extra["ukf_updates"] = n_upd
    ctx.extra["ukf_update_sequences_on_one_instance"] = n_seq
    ctx.extra["ukf_bases"] = len(groups)
    ctx.extra["ukf_tunings"] = tun
    ctx.extra["ukf_worst_scaled_error"] = {k: float(f"{v:.3e}") for k, v in sorted(worst.items())}
    ex.shutdown()


def replay(ctx: Ctx, rp: dict):
    """Re-run one stored failing input against the current tree."""
    from .. import sched
    sched.install()
    r = rp["replay"]
    if "stack" in r and r.get("filter") == "gpf":
        out = replay_gpf_group(("gpf", A.canonical(r["stack"]), [r["stack"]], True))
        if "driver_error" in out:
            raise tlc.MachineryError(out["driver_error"])
        for key, nontrivial in out["cases"]:
            ctx.case(key, nontrivial=True)
        for sig, what, rpl in out["violations"]:
            ctx.violation(sig, what, rpl)
        ctx.traces_validated += out["n"]
        return
    if "stack" in r:
        out = replay_group((r["tuning"], A.canonical(r["stack"]), [(r["stack"], r.get("hist") or [])], True))
        if "driver_error" in out:
            raise tlc.MachineryError(out["driver_error"])
        for key, nontrivial in out["cases"]:
            ctx.case(key, nontrivial=True)
        for sig, what, rpl in out["violations"]:
            ctx.violation(sig, what, rpl)
        ctx.traces_validated += out["n"]
        return
    hr = HelperReplay(ctx)
    half = A.N // 2
    if "a_ticks" in r:
        ra, rb = r["a_ticks"], r["b_ticks"]
        d = (ra - rb) % A.N
        res = d - A.N if d > half else d
        d2 = (rb - ra) % A.N
        resba = d2 - A.N if d2 > half else d2
        wn = ra % A.N - (A.N if ra % A.N > half else 0)
        for alg in ("scalar", "vec"):
            hr.residual({"alg": alg, "ra": ra, "rb": rb, "w1": ra % A.N, "wn": wn, "res": res, "resba": resba})
    elif "offsets_micro" in r:
        hr.tight_cluster({"c": r["centre_tick"], "off": r["offsets_micro"], "k": r["turns"], "s": r["branch"],
                          "w": r["spec_weights"]})
    elif "spec_mean" in r:
        hr.mean({"vals": r["ticks"], "w": r["weights"], "kind": r["spec_mean"][0], "m": r["spec_mean"][1]})
    else:
        ra = r["ticks"]
        wn = ra % A.N - (A.N if ra % A.N > half else 0)
        for alg in ("scalar", "vec"):
            hr.wraps(ra, ra % A.N, wn, alg)
    ctx.case(("replay", json.dumps(r, sort_keys=True, default=str)))
    ctx.case(("replay2",))
    ctx.traces_validated += hr.n
