"""G01 (spec growth) - the process-wide key-value store is a linearizable object and its users' protocols hold.

spec/KeyValueStore.tla models the store of parallel/key_value_store (one atomic action per transaction class, the
dictionary as state, several clients) and the calls built on it: setDBPath / clearDBPath / getDBConnection,
EventStack.pushEvent / logAndFlushEvents, CachedReductionParams.build.

1. TLC checks the module's properties exhaustively (primitives with two clients; database path, event stack,
   hostile event stack, racing reduction builds with three / two clients) and refutes six named deviations
   (spec mutants).  A failing theorem is a machinery error.
2. spec -> impl, exhaustive: every transition (dictionary, call, arguments) -> (reply, dictionary) of the
   primitives and of the single-transaction calls is replayed: the dictionary is installed in the REAL actor, the
   REAL call is made through the public facade, reply / outcome / dictionary afterwards (read back from the actor,
   and for dump from the dumped file) must equal the spec's.
3. spec -> impl, behaviours: `-simulate` behaviours (three clients, all calls, 39 steps) are reproduced with one
   Python thread per client running the REAL call; a wrapper around KeyValueStore.submitTransaction parks each
   thread in front of every transaction and the driver grants them in the order TLC chose.  Every transaction is
   compared (class, key, arguments, reply, completion and outcome of the call, dictionary afterwards); what
   logAndFlushEvents reports must be what it popped; what build() returns must be the parameters of its instant.
4. impl -> spec: transactions recorded (a) while REAL scenarios with impulses and a finite burn run for a few
   steps, (b) while client threads run the real calls under a seeded random scheduler, are validated by TLC
   against TraceKeyValueStore.tla (same actions, reply and dictionary bound at every step).
"""
from __future__ import annotations

import hashlib
import json
import random
import re
import signal
from concurrent.futures import ThreadPoolExecutor

import numpy as np

from .. import sched, tlc
from ..core import Ctx
from . import _kvs as K

LEVEL = "model_checking"

MC = {"quick": ["prim_quick", "db", "ev", "ev_hostile_quick", "red", "red_flush"],
      "thorough": ["prim", "db", "ev", "ev_hostile", "red", "red_flush"]}
# (configuration, deviation, properties of which at least one must be refuted)
DEVS = [("db", "xset_overwrites", {"ExclusiveSetNeverOverwrites", "SetDBPathExactlyOnce", "ExclusiveSetAtMostOnce", "DbPathStable"}),
        ("prim_edges", "pop_keeps", {"PopRemovesWhatItReturns"}),
        ("ev", "pop_keeps", {"EvGhostAligned", "PushedEventsFlushedExactlyOnce", "PopRemovesWhatItReturns"}),
        ("prim_edges", "flush_keeps_keys", {"FlushEmpties"}),
        ("red", "init_clears", {"ReductionPutsSurvive"}),
        ("prim_edges", "evict_mru", {"CacheEvictsOnlyLRU"}),
        ("ev", "flush_stops_early", {"FlushLeavesStackEmpty"})]
ACTIONS = ["N_Set", "N_Get", "N_Append", "N_Pop", "N_Flush", "N_Dump", "N_XSet", "N_Init", "N_Put", "N_Grab", "N_SetDBPath",
           "N_ClearDBPath", "N_GetDBConnection", "N_PushEvent", "N_LogFlushBegin", "LogFlushStep", "N_RedStart", "RedPmInit",
           "RedPmPut", "RedPnGrab", "RedPnInit", "RedPnPut"]
_COV = re.compile(r"^<(\w+) line \d+, col \d+ to line \d+, col \d+ of module KeyValueStore(?: \([\d ]+\))?>: (\d+):(\d+)", re.M)
FIELDS = ("tx", "key", "arg", "res", "done", "opres")


def _cfg(name, dev=None, emit=None):
    text = (tlc.SPEC_DIR / f"MCKeyValueStore_{name}.cfg").read_text()
    if dev:
        assert text.count('Dev = "none"') == 1
        text = text.replace('Dev = "none"', f'Dev = "{dev}"').replace("EmitEdges = TRUE", "EmitEdges = FALSE")
    return text


def _names(res):
    out = {v[0] for v in res.invariant_violations}
    for v in res.property_violations:
        m = re.search(r"(?:Action property|Temporal properties)\s*(\w*)", v[0])
        out.add(m.group(1) if m and m.group(1) else v[0])
    # TLC names the violated action property on its own line
    out |= set(re.findall(r"Action property (\w+) is violated", res.stdout))
    return out


class _Alarm:
    def __init__(self, seconds):
        self.seconds = seconds

    def __enter__(self):
        def handler(signum, frame):
            raise TimeoutError("real code did not return")
        self.old = signal.signal(signal.SIGALRM, handler)
        signal.alarm(self.seconds)

    def __exit__(self, *a):
        signal.alarm(0)
        signal.signal(signal.SIGALRM, self.old)


_RAW = {"set": "N_Set", "get": "N_Get", "append": "N_Append", "pop": "N_Pop", "flush": "N_Flush", "dump": "N_Dump", "xset": "N_XSet",
        "init": "N_Init", "put": "N_Put", "grab": "N_Grab", "setDBPath": "N_SetDBPath", "clearDBPath": "N_ClearDBPath",
        "getDBConnection": "N_GetDBConnection", "pushEvent": "N_PushEvent"}
_RED = {("grab", "fk5_polar_motion"): "N_RedStart", ("init", "fk5_polar_motion"): "RedPmInit", ("put", "fk5_polar_motion"): "RedPmPut",
        ("grab", "fk5_prec_nut"): "RedPnGrab", ("init", "fk5_prec_nut"): "RedPnInit", ("put", "fk5_prec_nut"): "RedPnPut"}


def _action_of(last, pc_before):
    """Which action of KeyValueStore.tla a step of a behaviour is."""
    if last["op"] == "logAndFlush":
        return "N_LogFlushBegin" if pc_before == "idle" else "LogFlushStep"
    if last["op"] == "reduction":
        return _RED[(last["tx"], last["key"])]
    return _RAW[last["op"]]


def _same_store(real: dict, spec) -> bool:
    return {k: v for k, v in real.items() if v["t"] != "absent"} == K.norm_store(spec)


def _plain_store(obj: dict, tok) -> dict:
    """The dumped JSON file -> abstract dictionary."""
    out = {}
    for k, v in obj.items():
        out[k] = K.NONE if v is None else ({"t": "list", "a": "", "l": [tok.token(e) for e in v], "m": 0}
                                           if isinstance(v, list) else K.atom(tok.token(v)))
    return out


def _diff(r: dict, want: dict):
    for f in FIELDS:
        if r[f] != want[f]:
            return f
    return None


# ------------------------------------------------------------------ 2. exhaustive edges
def replay_edges(ctx: Ctx, edges, rec, tok, scratch, tag):
    seen, n, skipped = set(), 0, 0
    for e in edges:
        if not (e["idle"] and e["done"]):
            skipped += 1
            continue
        key = (json.dumps(e["from"], sort_keys=True), e["op"], e["key"], json.dumps(e["arg"], sort_keys=True))
        if key in seen:
            continue
        seen.add(key)
        K.install_store(e["from"], tok)
        del rec.records[:]
        try:
            K.make_call(tok, e["op"], e["key"], e["arg"], {"d": "", "m": ""}, scratch)()
        except Exception:  # noqa: BLE001, S110   the outcome is read from the record
            pass
        n += 1
        trivial = not K.norm_store(e["from"]) and e["res"]["k"] != "error"
        ctx.case((tag,) + key, nontrivial=not trivial,
                 sample={"from": e["from"], "call": [e["op"], e["key"], e["arg"]], "reply": e["res"], "to": e["to"]}
                 if len(ctx.samples) < 2 and e["res"]["k"] == "error" and e["op"] in ("xset", "setDBPath") else None)
        bad = None
        if len(rec.records) != 1:
            bad = f"transactions={len(rec.records)}"
        else:
            r = rec.records[0]
            bad = _diff(r, e)
            if bad is None and not r["undecided"] and not _same_store(r["store"], e["to"]):
                bad = "store"
            if bad is None and e["op"] == "dump":
                dumped = _plain_store(json.loads((scratch / "dump.json").read_text()), tok)
                if dumped != K.norm_store(e["to"]):
                    bad = "dumped-file"
        ctx.traces_validated += 1
        if bad:
            got = rec.records[0] if rec.records else None
            ctx.violation(f"kvs-edge:{e['op']}:{bad}",
                          f"{e['op']}({e['key']!r}, {json.dumps(e['arg'])}) on dictionary {json.dumps(e['from'])}: spec replies "
                          f"{json.dumps(e['res'])} / outcome {e['opres']} and leaves {json.dumps(e['to'])}; the real store gave "
                          f"{json.dumps({f: got[f] for f in FIELDS} if got else None)} and left "
                          f"{json.dumps({k: v for k, v in (got or {}).get('store', {}).items() if v['t'] != 'absent'})}",
                          {"mode": "edge", "edge": e})
    return n, skipped


# ------------------------------------------------------------------ 3. behaviours
def replay_behaviour(ctx: Ctx, beh, rec, threads, tok, scratch, tag):
    K.actor_dict().clear()
    del rec.records[:], rec.reports[:], rec.results[:]
    interleaved = False
    steps = 0
    bad = None
    for i, st in enumerate(beh):
        L = st["last"]
        c = L["c"]
        if i and any(p != "idle" for d, p in beh[i - 1]["pcs"].items() if d != c):
            interleaved = True
        if not threads.busy(c):
            loc = st["locs"][c]
            threads.start(c, K.make_call(tok, L["op"], L["key"], L["arg"], loc, scratch), loc=loc)
        r, finished, outcome, nrec = threads.step(c)
        steps += 1
        ctx.traces_validated += 1
        if nrec != 1 or r is None:
            bad = (i, f"transactions={nrec}", r)
            break
        f = _diff(r, L) or ("op" if r["op"] != L["op"] else None)
        if f is None and finished != L["done"]:
            f = "done"
        if f is None and r["undecided"]:
            ctx.extra["undecided_stamp_ties"] = ctx.extra.get("undecided_stamp_ties", 0) + 1
            break
        if f is None and not _same_store(r["store"], st["store"]):
            f = "store"
        if f:
            bad = (i, f, r)
            break
    threads.abort_all()
    if bad is None:
        for who, popped, lines, outcome in rec.reports:
            if outcome == "ok" and not K.check_report(popped, lines):
                bad = (len(beh), "report", {"popped": popped, "reported": lines})
                ctx.violation("kvs-beh:logAndFlush:report", f"logAndFlushEvents popped {popped} but reported {lines}",
                              {"mode": "behaviour", "behaviour": beh})
                return steps, interleaved
        for who, op, outcome, result, loc in rec.results:
            if op == "reduction" and outcome == "ok":
                tok.candidates()
                if not (np.array_equal(result.rot_w, tok.pm[loc["d"]].rot_w) and np.array_equal(result.rot_pn, tok.pn[loc["m"]].rot_pn)
                        and result.eq_equinox == tok.pn[loc["m"]].eq_equinox):
                    ctx.violation("kvs-beh:reduction:result-not-for-instant",
                                  f"CachedReductionParams.build for ({loc['d']}, {loc['m']}) returned parameters of another date / minute",
                                  {"mode": "behaviour", "behaviour": beh})
                    return steps, interleaved
    else:
        i, f, r = bad
        L = beh[i]["last"]
        ctx.violation(f"kvs-beh:{L['op']}/{L['tx']}:{f}",
                      f"step {i + 1} of a TLC behaviour ({tag}): client {L['c']} {L['op']}/{L['tx']}({L['key']!r}): spec "
                      f"{json.dumps({x: L[x] for x in FIELDS})} store {json.dumps(beh[i]['store'])}; real "
                      f"{json.dumps({x: r[x] for x in FIELDS} if isinstance(r, dict) and 'tx' in r else r)} store "
                      f"{json.dumps({k: v for k, v in r.get('store', {}).items() if v['t'] != 'absent'}) if isinstance(r, dict) else ''}",
                      {"mode": "behaviour", "behaviour": beh[: i + 1]})
    return steps, interleaved


# ------------------------------------------------------------------ 4. recorded runs
def _finish_trace(records, init_store, tok):
    keys = set(K.FIXED_KEYS) | set(init_store)
    for r in records:
        keys |= set(r["store"])
    keys = sorted(keys)
    full = lambda s: {k: s.get(k, K.ABSENT) for k in keys}  # noqa: E731
    head = {"ev": "init", "store": full(init_store), "keys": keys, "clients": sorted({r["c"] for r in records}) or ["main"]}
    body = [{**{f: r[f] for f in ("c", "op") + FIELDS}, "loc": r["loc"], "store": full(r["store"])} for r in records]
    return [head] + body, any(r["undecided"] for r in records)


def record_scenario(rec, tok, start, step, nsteps, seed):
    """A real scenario with two impulses and a finite burn on its targets, run for nsteps."""
    from datetime import timedelta
    from harness import scenario_util as su
    cfg = su.base_config(start=start, step=step, n_steps=nsteps, n_targets=2, n_sensors=2,
                         decision="MyopicNaiveGreedyDecision", seed=seed)
    t0 = su.parse_iso(start)
    tids = [t["id"] for t in cfg["engines"][0]["targets"]]

    def ev(kind, tid, a, b, **kw):
        return {"scope": "agent_propagation", "scope_instance_id": tid, "event_type": kind, "planned": True,
                "start_time": su.iso(t0 + timedelta(seconds=a)), "end_time": su.iso(t0 + timedelta(seconds=b)), **kw}

    cfg["events"] = [ev("impulse", tids[0], step // 2, step // 2, thrust_vector=[0.0, 0.0, 1e-4], thrust_frame="eci"),
                     ev("impulse", tids[1], step + 7, step + 7, thrust_vector=[1e-4, 0.0, 0.0], thrust_frame="ntw"),
                     ev("finite_burn", tids[0], step + step // 3, 2 * step - 5, acc_vector=[0.0, 0.0, 1e-6], thrust_frame="ntw")]
    rec.client_of = lambda: ("job:" + sched.CURRENT_JOB[-1]) if sched.CURRENT_JOB else "main"
    rec.clear_objects = False
    del rec.records[:], rec.reports[:]
    init_store, _ = K.proj_store(tok)
    np.random.seed(seed)
    failure = None
    try:
        with _Alarm(60):
            app = su.build(cfg)
            su.run_for(app, nsteps * step)
    except (K.Runaway, TimeoutError) as ex:
        failure = f"{type(ex).__name__}: {ex}"
        sched.reset()
    finally:
        rec.client_of = None
        rec.clear_objects = True
    from resonaate.data import clearDBPath
    clearDBPath()
    return _finish_trace(list(rec.records[:400]), init_store, tok), list(rec.reports), failure


MENU = [("setDBPath", 3), ("clearDBPath", 2), ("getDBConnection", 2), ("pushEvent", 6), ("logAndFlush", 5), ("reduction", 4),
        ("flush", 1), ("get", 1), ("set", 1), ("append", 1), ("pop", 1), ("init", 1), ("put", 1), ("grab", 1), ("xset", 1), ("dump", 1)]


def _random_call(rng):
    op = rng.choices([m[0] for m in MENU], [m[1] for m in MENU])[0]
    key, arg, loc = "", dict(K.NOARG), {"d": "", "m": ""}
    if op == "setDBPath":
        arg["v"] = K.atom(rng.choice(["p1", "p2"]))
    elif op == "pushEvent":
        arg["v"] = K.atom(rng.choice(["x", "y", "z"]))
    elif op == "reduction":
        d, m = rng.choice(sorted(K.TIMES))
        loc = {"d": d, "m": m}
    elif op in ("get", "set", "append", "pop", "xset"):
        key = rng.choice(["k1", "event_stack", "kc"])
        if op in ("set", "xset"):
            arg["v"] = rng.choice([K.NONE, K.atom("x"), {"t": "list", "a": "", "l": [], "m": 0},
                                   {"t": "list", "a": "", "l": ["x", "y"], "m": 0}]) if op == "set" else K.atom("y")
        elif op == "append":
            arg["v"] = K.atom(rng.choice(["x", "y"]))
        elif op == "pop":
            arg["i"] = rng.choice([0, -1, 1, 2])
    elif op in ("init", "put", "grab"):
        key = rng.choice(["kc", "k1"])
        arg.update(clear=rng.random() < 0.3, m=rng.choice([0, 1, 2])) if op == "init" else arg.update(r=rng.choice(["r1", "r2", "r3"]))
        if op == "put":
            arg["v"] = K.atom(rng.choice(["x", "y"]))
    return op, key, arg, loc


def record_random(rec, threads, tok, scratch, rng, nsteps, fresh):
    """Client threads run real calls; a seeded scheduler picks which client moves next."""
    if fresh:
        K.actor_dict().clear()
    del rec.records[:], rec.reports[:], rec.results[:]
    init_store, _ = K.proj_store(tok)
    clients = ["c1", "c2", "c3"]
    for _ in range(nsteps):
        c = rng.choice(clients)
        if not threads.busy(c):
            op, key, arg, loc = _random_call(rng)
            if op == "dump" and any(isinstance(v, K.ct.Cache) for v in K.actor_dict().values()):
                continue      # json.dump of a Cache object is outside the modelled domain (see Dump in the spec)
            threads.start(c, K.make_call(tok, op, key, arg, loc, scratch), loc=loc)
        threads.step(c)
    threads.abort_all()
    return _finish_trace(list(rec.records), init_store, tok), list(rec.reports), list(rec.results)


def validate_traces(ctx: Ctx, traces, name, workers):
    d = ctx.sub(name)
    # one key universe for the whole batch (AllKeys is a constant of the module)
    keys = sorted({k for t in traces for k in t[0]["keys"]})
    full = lambda s: {k: s.get(k, K.ABSENT) for k in keys}  # noqa: E731
    traces = [[{**t[0], "keys": keys, "store": full(t[0]["store"])}] + [{**r, "store": full(r["store"])} for r in t[1:]] for t in traces]
    (d / "traces.json").write_text(json.dumps(traces))
    import os
    if os.environ.get("G01_KEEP"):
        open(os.environ["G01_KEEP"], "w").write(json.dumps(traces))
    clients = sorted({c for t in traces for c in t[0]["clients"]})
    cfg = ((tlc.SPEC_DIR / "TraceKeyValueStore.cfg").read_text()
           .replace("{CLIENTS}", "{" + ", ".join(json.dumps(c) for c in clients) + "}")
           .replace("{KEYS}", "{" + ", ".join(json.dumps(k) for k in keys) + "}").replace("{NTRACES}", str(len(traces))))
    res = tlc.require_ok(tlc.run_tlc("TraceKeyValueStore", cfg, d, workers=workers, cont=True,
                                     env={"TRACE_FILE": "traces.json"}, timeout=1800))
    ctx.add_tlc(res, f"TraceKeyValueStore.tla: {len(traces)} recorded runs, {sum(len(t) - 1 for t in traces)} transactions")
    reached = {}
    for t_id, pos, _end in res.tuples("AT"):
        reached[t_id] = max(reached.get(t_id, 0), pos)
    inv = {}
    for nm, states in res.invariant_violations:
        if nm == "Accept":
            continue
        m = re.findall(r"/\\ tid = (\d+)", "\n".join(states))
        if m:
            inv.setdefault(int(m[-1]), nm)
    return reached, inv


# ------------------------------------------------------------------ driver
def run(ctx: Ctx):
    rng = random.Random(ctx.seed + 101)
    ctx.rule = ("edge case = (dictionary, call, arguments) of the exhaustive primitive / single-transaction configurations, "
                "non-trivial unless the dictionary is empty and the reply is not an error; behaviour case = one TLC -simulate "
                "behaviour (three clients, 39 transactions) reproduced with one real thread per client, non-trivial when a "
                "client moves while another is inside a multi-transaction call; recorded case = one real run (scenario with "
                "impulses / burn, or seeded random client threads), distinct by its transaction sequence")
    ctx.assumptions = [
        "each transaction is atomic (the actor's contract); the stand-in executes the REAL transact() on the actor's dictionary",
        "stored values are None, truthy strings, lists of strings, Cache objects; falsy scalars (0, '', False) are not modelled",
        "dump is defined while every stored value is JSON-serialisable (json.dump raises TypeError on a Cache object)",
        "recency order of cache records is read from Cache._last_accessed; two equal time_ns() stamps make a case undecided",
        "the cache has no time-based expiry in the code: 'valid' = not purged (bounded, least recently used record purged)"]
    quick = ctx.quick
    pool = ThreadPoolExecutor(max_workers=6 if quick else 8)
    w = 2 if quick else 4
    fut = {}
    edge_cfgs = ("prim_edges", "proto_edges") if quick else ("prim_edges_thorough", "proto_edges")
    for name in edge_cfgs:
        fut[name] = pool.submit(tlc.run_tlc, "MCKeyValueStore", f"MCKeyValueStore_{name}.cfg", ctx.sub(name), workers=w, timeout=900)
    # (configuration, behaviours, seed): TLC simulation is single-threaded, so the thorough tier runs several seeds side by side
    sims = [("all", 30, 0), ("proto", 40, 0)] if quick else [("all", 100, i) for i in range(4)] + [("proto", 150, i) for i in range(2)]
    for name, n, i in sims:
        fut[f"sim_{name}_{i}"] = pool.submit(tlc.run_tlc, "SimKeyValueStore", f"SimKeyValueStore_{name}.cfg", ctx.sub(f"sim_{name}_{i}"), workers=1,
                                             timeout=1800, simulate=f"num={n}", depth=60, seed=ctx.seed * 1000 + 11 + i)
    for name in MC[ctx.tier]:
        fut["mc_" + name] = pool.submit(tlc.run_tlc, "MCKeyValueStore", f"MCKeyValueStore_{name}.cfg", ctx.sub("mc_" + name), workers=w if quick else 8,
                                        timeout=2400, coverage=not quick)
    for i, (name, dev, _want) in enumerate(DEVS):
        fut[f"dev{i}"] = pool.submit(tlc.run_tlc, "MCKeyValueStore", _cfg(name, dev), ctx.sub(f"dev{i}"), workers=1, timeout=900)

    import time
    marks = [("start", time.time())]
    mark = lambda n: marks.append((n, time.time()))  # noqa: E731
    scratch = ctx.sub("real")
    tok = K.Tokens(scratch)
    rec = K.Recorder(tok).install()
    rec.clear_objects = True
    threads = K.ClientThreads(rec)
    try:
        # ---- 2. exhaustive edges
        for name in edge_cfgs:
            res = tlc.require_ok(fut[name].result(), name)
            ctx.add_tlc(res, f"KeyValueStore.tla exhaustive transitions ({name})")
            if not res.ok:
                raise tlc.MachineryError(f"{name}: {_names(res)} {res.errors[:2]}\n" + res.stdout[-1500:])
            edges = res.tagged("EDGE")
            if not edges:
                raise tlc.MachineryError(f"{name}: no EDGE lines")
            n, skipped = replay_edges(ctx, edges, rec, tok, scratch, name)
            ctx.extra[f"edges_replayed_{name}"] = n
            ctx.extra[f"edges_inside_multi_transaction_calls_{name}"] = skipped
            mark(name)
        # ---- 3. behaviours
        cov = {}
        for name in [f"sim_{a}_{i}" for a, _n, i in sims]:
            res = tlc.require_ok(fut[name].result(), name)
            ctx.add_tlc(res, f"KeyValueStore.tla -simulate behaviours ({name})")
            if not res.ok:
                raise tlc.MachineryError(f"{name}: spec theorem fails in simulation {_names(res)} {res.errors[:2]}\n" + res.stdout[-1500:])
            behs = res.tagged("BEH")
            if not behs:
                raise tlc.MachineryError(f"{name}: no behaviours printed")
            nint = 0
            for b in behs:
                for i, s in enumerate(b):
                    a = _action_of(s["last"], b[i - 1]["pcs"][s["last"]["c"]] if i else "idle")
                    cov[a] = cov.get(a, 0) + 1
                steps, inter = replay_behaviour(ctx, b, rec, threads, tok, scratch, name)
                nint += inter
                h = hashlib.blake2b(json.dumps([[s["last"][f] for f in ("c", "op", "key", "arg")] for s in b], sort_keys=True).encode(),
                                    digest_size=8).hexdigest()
                ctx.case((name, h), nontrivial=inter,
                         sample={"behaviour": name, "steps": [[s["last"]["c"], s["last"]["op"], s["last"]["tx"], s["last"]["res"]["k"] + s["last"]["res"]["e"]]
                                                              for s in b[:12]]} if inter and len(ctx.samples) < 4 else None)
            ctx.extra["behaviours_replayed"] = ctx.extra.get("behaviours_replayed", 0) + len(behs)
            ctx.extra["behaviours_interleaved"] = ctx.extra.get("behaviours_interleaved", 0) + nint
            mark(name)
        missing = [a for a in ACTIONS if cov.get(a, 0) == 0]
        ctx.extra["spec_actions_replayed_in_behaviours"] = {a: cov.get(a, 0) for a in ACTIONS}
        if missing:
            raise tlc.MachineryError(f"spec actions never taken in the replayed behaviours: {missing}")
        # ---- 4. recorded runs
        traces, owners = [], []
        scen = [("2018-12-01T12:00:00", 60, 3, 3), ("2019-12-31T23:58:07", 90, 3, 4)]
        if not quick:
            scen += [("2020-02-29T23:59:30", 45, 4, 5), ("2021-06-15T03:17:41", 120, 3, 6)]
        for start, step, nsteps, seed in scen:
            (tr, und), reports, failure = record_scenario(rec, tok, start, step, nsteps, seed)
            if failure:
                ctx.violation("kvs-trace:scenario:call-never-completes",
                              f"real scenario {start} step {step}: {failure}; last transactions "
                              f"{[[r['c'], r['op'], r['tx'], r['res']['k']] for r in tr[-4:]]}",
                              {"mode": "trace", "trace": tr, "scenario": {"start": start, "step": step, "nsteps": nsteps, "seed": seed}})
                break
            pushes = sum(r["op"] == "pushEvent" for r in tr[1:])
            if pushes == 0:
                raise tlc.MachineryError("the recorded scenario pushed no event (impulse / burn configuration ineffective)")
            traces.append(tr)
            owners.append(("scenario", {"start": start, "step": step, "nsteps": nsteps, "seed": seed, "pushes": pushes, "transactions": len(tr) - 1},
                           reports, [], und))
        mark("scenarios")
        sched.reset()
        for i in range(40 if quick else 600):
            (tr, und), reports, results = record_random(rec, threads, tok, scratch, rng, 60, fresh=i % 3 != 2)
            traces.append(tr)
            owners.append(("random-threads", {"run": i, "transactions": len(tr) - 1}, reports, results, und))
        mark("random-threads")
        keep = [i for i, o in enumerate(owners) if not o[4]]
        ctx.extra["recorded_runs_undecided_stamp_ties"] = len(owners) - len(keep)
        reached, inv = validate_traces(ctx, [traces[i] for i in keep], "trace", workers=min(ctx.cpus, 8))
        for j, i in enumerate(keep):
            kind, meta, reports, results, _ = owners[i]
            tr = traces[i]
            h = hashlib.blake2b(json.dumps([[r[f] for f in ("c", "op", "key", "arg")] for r in tr[1:]], sort_keys=True).encode(), digest_size=8).hexdigest()
            ctx.case((kind, h), nontrivial=True, sample={"kind": kind, **meta, "head": [[r["c"], r["op"], r["tx"], r["res"]["k"] + r["res"]["e"]] for r in tr[1:9]]}
                     if len(ctx.samples) < 6 and (kind == "scenario" or j % 17 == 5) else None)
            ctx.traces_validated += 1
            scen_meta = {"scenario": meta} if kind == "scenario" else {}
            pos = reached.get(j + 1, 1)
            if pos < 2:
                raise tlc.MachineryError(f"trace {j + 1} ({kind} {meta}) could not be loaded by TraceKeyValueStore.tla")
            if (j + 1) in inv:
                ctx.violation(f"kvs-trace:invariant:{inv[j + 1]}", f"recorded {kind} run {meta}: {inv[j + 1]} fails on the recorded dictionary",
                              {"mode": "trace", "trace": tr, **scen_meta})
            elif pos != len(tr) + 1:
                r = tr[pos - 1]
                ctx.violation(f"kvs-trace:{r['op']}/{r['tx']}:unexplained",
                              f"recorded {kind} run {meta}: transaction {pos - 1} by {r['c']} {r['op']}/{r['tx']}({r['key']!r}, {json.dumps(r['arg'])}) "
                              f"-> {json.dumps(r['res'])} done={r['done']} outcome={r['opres']} leaving "
                              f"{json.dumps({k: v for k, v in r['store'].items() if v['t'] != 'absent'})} is not a step of KeyValueStore.tla from "
                              f"{json.dumps({k: v for k, v in tr[pos - 2]['store'].items() if v['t'] != 'absent'})}",
                              {"mode": "trace", "trace": tr[: pos], **scen_meta})
            for who, popped, lines, outcome in reports:
                if outcome == "ok" and kind != "scenario" and not K.check_report(popped, lines):
                    ctx.violation("kvs-trace:logAndFlush:report", f"logAndFlushEvents popped {popped} but reported {lines}", {"mode": "trace", "trace": tr})
                if outcome == "ok" and kind == "scenario":
                    n_rep = sum(int(m.partition(" events of type ")[0]) for lvl, m in lines if lvl == "info" and " events of type " in m)
                    if n_rep != len(popped):
                        ctx.violation("kvs-trace:logAndFlush:report", f"logAndFlushEvents popped {len(popped)} events but reported {n_rep}",
                                      {"mode": "trace", "trace": tr})
            for who, op, outcome, result, loc in results:
                if op == "reduction" and outcome == "ok":
                    tok.candidates()
                    if not (np.array_equal(result.rot_w, tok.pm[loc["d"]].rot_w) and np.array_equal(result.rot_pn, tok.pn[loc["m"]].rot_pn)):
                        ctx.violation("kvs-trace:reduction:result-not-for-instant",
                                      f"CachedReductionParams.build for ({loc['d']}, {loc['m']}) returned parameters of another date / minute",
                                      {"mode": "trace", "trace": tr})
        ctx.extra["recorded_transactions"] = sum(len(traces[i]) - 1 for i in keep)
        mark("trace-validation")
    finally:
        threads.abort_all()
        rec.uninstall()

    # ---- 1. spec-level theorems and deviations
    tcov = {}
    for name in MC[ctx.tier]:
        res = tlc.require_ok(fut["mc_" + name].result(), name)
        ctx.add_tlc(res, f"KeyValueStore.tla exhaustive ({name}): all invariants and action properties")
        if not res.ok:
            raise tlc.MachineryError(f"KeyValueStore.tla theorem fails at spec level ({name}): {_names(res)} {res.errors[:2]}\n" + res.stdout[-2000:])
        for m in _COV.finditer(res.stdout):
            tcov[m.group(1)] = tcov.get(m.group(1), 0) + int(m.group(3))
    if not quick:
        # TLC's own action coverage over the exhaustive configurations (transitions generated per action; read-only
        # calls never find a NEW state, `last` being outside the view)
        ctx.extra["tlc_action_coverage_transitions"] = {a: tcov.get(a, 0) for a in ACTIONS}
        if any(tcov.get(a, 0) == 0 for a in ACTIONS):
            raise tlc.MachineryError(f"TLC coverage: actions never taken: {[a for a in ACTIONS if tcov.get(a, 0) == 0]}")
    killed = 0
    for i, (name, dev, want) in enumerate(DEVS):
        res = tlc.require_ok(fut[f"dev{i}"].result(), f"{name}/{dev}")
        ctx.add_tlc(res, f"deviation {dev} on {name} must be refuted")
        got = _names(res)
        if not (got & want):
            raise tlc.MachineryError(f"deviation {dev} on {name} not refuted (violated: {got}; expected one of {want})")
        killed += 1
    ctx.extra["spec_mutants_killed"] = killed
    pool.shutdown()
    mark("spec-level")
    ctx.extra["phase_seconds"] = {b[0]: round(b[1] - a[1], 1) for a, b in zip(marks, marks[1:])}


def replay(ctx: Ctx, rp: dict):
    scratch = ctx.sub("real")
    tok = K.Tokens(scratch)
    rec = K.Recorder(tok).install()
    rec.clear_objects = True
    threads = K.ClientThreads(rec)
    r = rp["replay"]
    try:
        if r["mode"] == "edge":
            replay_edges(ctx, [r["edge"]], rec, tok, scratch, "replay")
        elif r["mode"] == "behaviour":
            replay_behaviour(ctx, r["behaviour"], rec, threads, tok, scratch, "replay")
            ctx.case(("replay", "behaviour"))
        else:
            # re-record: the same scenario, or the same calls in the same order of transactions, on the current code
            old = r["trace"]
            if r.get("scenario"):
                m = r["scenario"]
                (tr, _und), _rep, failure = record_scenario(rec, tok, m["start"], m["step"], m["nsteps"], m["seed"])
                if failure:
                    ctx.violation("kvs-trace:scenario:call-never-completes", failure, r)
                    return
            else:
                K.install_store({k: v for k, v in old[0]["store"].items() if v["t"] != "absent"}, tok)
                del rec.records[:]
                init_store, _ = K.proj_store(tok)
                for x in old[1:]:
                    if not threads.busy(x["c"]):
                        threads.start(x["c"], K.make_call(tok, x["op"], x["key"], x["arg"], x["loc"], scratch), loc=x["loc"])
                    threads.step(x["c"])
                threads.abort_all()
                tr, _und = _finish_trace(list(rec.records), init_store, tok)
            reached, inv = validate_traces(ctx, [tr], "trace", workers=1)
            ctx.case(("replay", "trace"))
            if reached.get(1, 1) != len(tr) + 1 or inv:
                ctx.violation("kvs-trace:replay", "the re-recorded run is still not a behaviour of KeyValueStore.tla", {"mode": "trace", "trace": tr})
    finally:
        threads.abort_all()
        rec.uninstall()
    ctx.case(("replay-done",))
